"""C27 — Lock operations leave recoverable state at every crash point.

One run = one lock operation of actor A (create / attempt_lock / unlock / force_break /
break_lock) on one pre-state of the lock directory.  A dry pass lists the transport
operations of the operation; then EVERY fault point is executed from a freshly rebuilt
identical pre-state (new store each time):

* crash at mutating op k (op dropped / op applied / info write torn at a fraction),
* err_before at op k of all ops (A survives and sees, or swallows, the exception).

After each fault point a fresh process B (new LockDir object, same store) must be able
to look at the lock (peek -> None | info | LockCorrupt), acquire it directly or after
the explicit break matching what peek said, release it, and leave no `held` behind."""

import hashlib
import json
import os
import re

from simkit import findings, world
from simkit.sim import SimCrash
from simkit.transport import raw

from . import locksim

PROPERTY = "C27"
LEVEL = "fault_enumeration"
ISOLATION = "thread"  # a sub-execution is ~1 ms; pre-state is rebuilt from scratch for every fault point
STEP_CAP = 200000
RULE = (
    "one case = one fault point: (lock operation, pre-state of the lock directory, steal_dead setting, "
    "fault kind crash-dropped | crash-applied | crash-torn(fraction) | err_before(error class), index k of the "
    "transport operation hit) executed from a freshly rebuilt pre-state, followed by the recovery oracle of a fresh "
    "process; non-trivial = the fault landed strictly inside the operation (for a crash: not 'first mutating op "
    "dropped' and not 'last mutating op applied'; for an injected error: an earlier op of the operation had been "
    "performed or the operation went on to perform further ops); distinct = distinct (operation, pre-state, "
    "steal_dead, fault, site, outcome of A, recovery path of B) tuples, random names normalised"
)
COMPONENTS = {
    "real": [
        "breezy.lockdir.LockDir (create, attempt_lock, unlock, force_break, force_break_corrupt, break_lock, peek)",
        "breezy._cmd_rs.LockHeldInfo (Rust parser of the info file)",
        "osutils.is_local_pid_dead / is_lock_holder_known_dead (Rust, kill(pid,0)); stopped processes are real token processes killed at the stop in 1 run of 5, otherwise pids above pid_max",
        "breezy.config.GlobalStack (locks.steal_dead)",
        "breezy.decorators.only_raises",
        "dromedary MemoryTransport",
    ],
    "simulated": [
        "process stop at a transport operation (op dropped or applied, non-atomic put cut at a fraction); the actor can "
        "never touch the store again, its token process is killed",
        "transport errors raised before an operation is applied",
        "clock of breezy.lockdir (virtual)",
    ],
    "stub": ["UI (silent; answers yes to 'break corrupt lock?')", "pre-state holders with corrupt/empty info and leftover *.tmp directories are written directly below the seam"],
}
ASSUMPTIONS = [
    "transport mkdir/rename/delete/rmdir are atomic and a rename onto an existing directory fails (memory transport semantics); only put_bytes_non_atomic can be torn",
    "a crash is a process stop: nothing already applied is lost or reordered (no power-loss model for the lock directory)",
    "an injected error means the operation was NOT applied (no 'applied but reported as failed' outcomes)",
    "recovery is judged for one fresh process B running alone after the fault; concurrent recovery is C26's subject",
    "leftover *.tmp / broken.* / releasing.* directories are allowed as long as they do not prevent acquisition",
    "the breaker is entitled to break whatever peek() showed it (holder liveness is a user decision, except the automatic steal_dead policy which uses the real liveness test)",
]

MUTATING = {"put", "mkdir", "rename", "move", "delete", "rmdir", "copy", "put_na", "append", "open_write_stream", "stream_write", "symlink", "hardlink"}
ERRS = ["transport", "nosuchfile", "permission", "enospc", "connection"]
TORN = [0.1, 0.3, 0.5, 0.7, 0.9, 0.95]
CORRUPT = b"\x00\xffnot: [a lock info\n"


def warm():
    import logging

    locksim.warm()
    locksim.install_yes_ui()
    # LockDir._remove_pending_dir reports cleanup failures through trace.note
    logging.getLogger("brz").setLevel(logging.WARNING)
    _known_findings()
    _exercise()


_known = None


def _known_findings():
    """Open known findings of this property, read once per batch (in warm(), before the workers fork).  The run
    goes on past a deviation only if its exact signature is an OPEN entry of known_findings.json; everything
    else is sim.fail."""
    global _known
    if _known is None:
        import time

        for attempt in range(5):
            try:
                _known = findings.load(PROPERTY)
                break
            except ValueError:  # the file is being rewritten right now
                if attempt == 4:
                    raise
                time.sleep(0.2)
    return _known


_exercised = False


def _exercise():
    """Walk every (operation, pre-state) once before the workers fork: process-wide lazy initialisations in the
    extension modules (some draw from getrandom the first time, e.g. on the first LockCorrupt) must not happen
    inside a run, or the random names of that run depend on what the worker executed before."""
    global _exercised
    if _exercised:
        return
    _exercised = True
    from simkit.sim import Sim

    base = {"steal_dead": True, "junk": 1, "torn": [0.0, 0.5], "errs": ["transport", "enospc"], "no_pin": True, "real_tokens": False}
    plans = [dict(base, op="create", lockdir=False, junk=0), dict(base, op="unlock", broken=False), dict(base, op="unlock", broken=True, real_tokens=True)]
    for holder in ("none", "dead", "live", "corrupt", "empty"):
        plans.append(dict(base, op="attempt", holder=holder, lockdir=True))
        plans.append(dict(base, op="break_lock", holder=holder, steal_dead=False))
        if holder in ("dead", "live", "empty"):
            plans.append(dict(base, op="force_break", holder=holder))
    plans.append(dict(base, op="attempt", holder="none", lockdir=False, junk=0))
    for plan in plans:
        sim = Sim(0, plan, step_cap=STEP_CAP)
        try:
            execute(sim, plan)
        except Exception:  # noqa: BLE001 - verdicts are not the business of the warm-up
            pass


def config(tier):
    if tier == "thorough":
        return {"budget_s": 600, "run_timeout": 120, "selftest": 64}
    return {"budget_s": 40, "run_timeout": 60, "selftest": 32}


def generate(rng, tier):
    op = rng.choice(["create", "attempt", "attempt", "attempt", "attempt", "unlock", "unlock", "force_break", "force_break", "break_lock", "break_lock"])
    plan = {
        "op": op,
        "steal_dead": rng.random() < 0.5,
        "junk": rng.choice([0, 0, 1, 2]),
        "torn": [0.0] + sorted(rng.sample(TORN, 2)),
        "errs": sorted(rng.sample(ERRS, 2)),
        "no_pin": True,
        "real_tokens": rng.random() < 0.2,
    }
    if op == "create":
        plan["lockdir"] = rng.random() < 0.2  # already exists
        plan["junk"] = 0
    elif op == "attempt":
        plan["holder"] = rng.choice(["none", "none", "none", "dead", "dead", "live", "corrupt", "empty"])
        plan["lockdir"] = not (plan["holder"] == "none" and rng.random() < 0.3)
        if not plan["lockdir"]:
            plan["junk"] = 0
    elif op == "unlock":
        plan["broken"] = rng.random() < 0.15  # A's lock was broken and re-taken meanwhile
    elif op == "force_break":
        plan["holder"] = rng.choice(["dead", "dead", "live", "empty"])
    elif op == "break_lock":
        plan["holder"] = rng.choice(["dead", "dead", "live", "corrupt", "empty", "none"])
    return plan


def shrink_candidates(plan):
    # the failing fault point is already isolated through plan["only"]; try the simpler pre-state
    if plan.get("junk"):
        p = dict(plan)
        p["junk"] = 0
        yield p


_TMP = re.compile(r"^[a-z0-9]{10}\.tmp$")


def path_class(path):
    """'/lock/ab12cd34ef.tmp/info' -> 'tmp/info'; random parts removed."""
    parts = [p for p in path.split("/") if p]
    out = []
    for p in parts:
        if p == "lock" and not out:
            continue
        if p.startswith("releasing."):
            out.append("releasing.tmp")
        elif p.startswith("broken."):
            out.append("broken.tmp")
        elif _TMP.match(p):
            out.append("tmp")
        else:
            out.append(p)
    return "/".join(out) or "lock"


def site_of(opname, rec):
    top, path, extra = rec
    s = f"{opname}:{top}:{path_class(path)}"
    if extra:
        s += "->" + path_class(extra)
    return s


class GhostTokens:
    """Processes that stop are given a pid above pid_max: it was never allocated and never will be, so the
    unmodified liveness test (kill(pid, 0) -> ESRCH) finds them dead - after the crash, which is the only time
    anybody asks.  Saves one exec per fault point; plans with real_tokens use locksim.Tokens instead."""

    def __init__(self):
        with open("/proc/sys/kernel/pid_max") as f:
            self.base = int(f.read()) + 1000
        self.n = 0

    def pid_for(self, actor_name, mortal):
        if not mortal:
            return os.getpid()
        self.n += 1
        return self.base + self.n

    def close(self):
        pass


class Case:
    """One sub-execution: pre-state, operation of A under one fault, oracle."""

    def __init__(self, sim, plan, label):
        self.sim = sim
        self.plan = plan
        self.label = label
        self.a_nonce = None

    # -- pre-state ------------------------------------------------------------------------
    def build(self, tokens, a_mortal):
        from breezy import lockdir
        from dromedary import get_transport_from_url as get_transport  # breezy's get_transport spends 0.8 ms in location_to_url

        sim, plan = self.sim, self.plan
        op = plan["op"]
        self.url = world.new_store("lk")
        self.t = get_transport(self.url)
        rt = raw(self.t)
        self.rt = rt
        if plan.get("lockdir", True):
            rt.mkdir("lock")
        for j in range(plan.get("junk", 0)):
            # what earlier crashed lockers may leave behind
            name = ["lock/zzjunk0000.tmp", "lock/releasing.junkjunkjunkjunkjunk.tmp"][j % 2]
            rt.mkdir(name)
            if j == 0:
                rt.put_bytes(name + "/info", b"")
        holder = plan.get("holder", "none")
        if holder in ("dead", "live"):
            who = sim.restart_main(f"{'D' if holder == 'dead' else 'L'}{self.label}")
            pid = tokens.pid_for(who.name, holder == "dead")
            h = lockdir.LockDir(self.t.clone(), "lock", extra_holder_info={"pid": str(pid)})
            h.attempt_lock()
            self.holder_nonce = h.nonce
            if holder == "dead":
                sim.kill(who)
        elif holder == "corrupt":
            rt.mkdir("lock/held")
            rt.put_bytes("lock/held/info", CORRUPT)
        elif holder == "empty":
            rt.mkdir("lock/held")
            rt.put_bytes("lock/held/info", b"")
        self.a = sim.restart_main(f"A{self.label}")
        pid = tokens.pid_for(self.a.name, a_mortal)
        self.ld = lockdir.LockDir(self.t.clone(), "lock", extra_holder_info={"pid": str(pid)})
        self.ld._report_function = lambda *a, **k: None
        self.peeked = None
        if op == "unlock":
            self.ld.attempt_lock()
            self.a_nonce = self.ld.nonce
            if plan.get("broken"):
                # somebody broke A's lock and a third party (alive) took it
                rt.delete("lock/held/info")
                rt.rmdir("lock/held")
                other = lockdir.LockDir(self.t.clone(), "lock")
                other.attempt_lock()
        elif op == "force_break":
            self.peeked = self.ld.peek()

    def operate(self):
        op = self.plan["op"]
        ld = self.ld
        if op == "create":
            ld.create()
        elif op == "attempt":
            try:
                ld.attempt_lock()
            finally:
                self.a_nonce = getattr(ld, "nonce", None)
        elif op == "unlock":
            ld.unlock()
        elif op == "force_break":
            ld.force_break(self.peeked)
        elif op == "break_lock":
            ld.break_lock()


def execute(sim, plan):
    from breezy import errors, lockdir
    from dromedary import get_transport_from_url as get_transport  # breezy's get_transport spends 0.8 ms in location_to_url

    warm()
    world.setup_sim(sim)
    locksim.write_global_config(plan["steal_dead"])
    tokens = locksim.Tokens(sim) if plan.get("real_tokens") else GhostTokens()
    known = _known_findings()
    opname = plan["op"]
    subs = []
    sim.notes["evaluations"] = 0

    try:
        # ---- dry pass: the transport operations of the operation -------------------------
        recs = []

        def recorder(sim_, actor, phase, top, path, extra):
            if phase == "before" and actor is dry.a:
                recs.append((top, path, extra))

        dry = Case(sim, plan, "dry")
        dry.build(tokens, False)
        sim.monitors.append(recorder)
        sim.arm([])
        try:
            dry.operate()
            dry_outcome = "ok"
        except Exception as e:  # noqa: BLE001 - contention etc. are legitimate outcomes of the unfaulted operation
            dry_outcome = type(e).__name__
        sim.monitors.remove(recorder)
        all_ops = list(recs)
        mut_ops = [r for r in all_ops if r[0] in MUTATING]
        if len(all_ops) != dry.a.nops or len(mut_ops) != dry.a.nmut:
            raise RuntimeError(f"dry pass op accounting differs: {len(all_ops)}/{dry.a.nops} {len(mut_ops)}/{dry.a.nmut}")
        sim.event("dry", opname, dry_outcome, len(all_ops), len(mut_ops), ",".join(site_of(opname, r) for r in all_ops))

        cases = []
        for k, r in enumerate(mut_ops, 1):
            cases.append(("crash", k, "dropped"))
            cases.append(("crash", k, "applied"))
            if r[0] == "put_na":
                for f in plan["torn"]:
                    cases.append(("crash", k, f"torn:{f}"))
        for k in range(1, len(all_ops) + 1):
            for err in plan["errs"]:
                cases.append(("err_before", k, err))
        only = plan.get("only")

        for idx, (kind, k, variant) in enumerate(cases):
            if only is not None and idx not in only:
                continue
            crash = kind == "crash"
            rec = mut_ops[k - 1] if crash else all_ops[k - 1]
            site = site_of(opname, rec)
            if crash:
                fault = {"kind": "crash", "at": k, "count": "mut", "applied": variant != "dropped"}
                if variant.startswith("torn:"):
                    fault["torn"] = float(variant[5:])
                kindtag = "crash-" + variant.split(":")[0]
            else:
                fault = {"kind": "err_before", "at": k, "count": "any", "err": variant}
                kindtag = "err_before"
            c = Case(sim, plan, str(idx))
            c.build(tokens, crash)
            fired0 = sum(sim.faults_fired.values())
            sim.arm([fault])
            try:
                c.operate()
                a_out = "ok"
            except SimCrash:
                a_out = "crash"
            except Exception as e:  # noqa: BLE001 - A sees the injected error or what the code made of it
                a_out = type(e).__name__
            a = c.a
            ops_done = a.nops
            sim.disarm()
            if sum(sim.faults_fired.values()) != fired0 + 1:
                raise RuntimeError(f"fault {fault} did not fire in case {idx} ({site})")
            if crash and not a.dead and a.pending_crash_after:
                # "applied" variant on an op that itself failed (e.g. rename onto a held lock) and was the last
                # op A performed: the process stops right after seeing that failure
                a.pending_crash_after = False
                sim.kill(a)
            if crash and not a.dead:
                raise RuntimeError(f"crash fault fired but actor is alive in case {idx}")
            if crash:
                a_out = "crash"  # only_raises swallows BaseException: a zombie may return normally
                inside = not (variant == "dropped" and k == 1) and not (variant == "applied" and k == len(mut_ops))
            else:
                inside = k > 1 or ops_done > k
            sim.notes["evaluations"] += 1

            def bad(tag, detail, _idx=idx, _kindtag=kindtag, _site=site, _variant=variant, _k=k):
                sig = ["recoverable:" + tag, _kindtag, _site]
                full = f"case {_idx}: {opname} pre-state {prestate_str(plan)} fault {_kindtag}({_variant}) at op {_k} [{_site}]: {detail}"
                if findings.match(known, sig) is not None:
                    kn = sim.notes.setdefault("known", [])
                    if sig not in kn:
                        kn.append(sig)
                    sim.probe("known_finding_hit")
                    return
                plan["only"] = [_idx]
                sim.fail("recoverable:" + tag, sig, full)

            # ---- oracle 1: a failed acquisition does not leave the lock held by the failing process
            if not crash and opname == "attempt" and a_out != "ok":
                ondisk = locksim.read_info(c.t, "lock/held/info")
                if ondisk is not None and c.a_nonce is not None and ondisk[0] == c.a_nonce:
                    bad(
                        "failed_acquire_holds",
                        f"attempt_lock raised {a_out} but lock/held/info carries the nonce of the failing (live) process; is_held={c.ld.is_held}",
                    )

            # ---- oracle 2: a fresh process can look, acquire (directly / after the matching break), release
            sim.restart_main(f"B{idx}")
            ldb = lockdir.LockDir(get_transport(c.url), "lock")
            ldb._report_function = lambda *a_, **k_: None
            path = []
            info = None
            corrupt = None
            try:
                info = ldb.peek()
                path.append("peek:none" if info is None else "peek:info")
            except errors.LockCorrupt as e:
                corrupt = e
                path.append("peek:corrupt")
            except Exception as e:  # noqa: BLE001
                bad("peek_raises", f"peek() of a fresh process raised {type(e).__name__}: {e}")
                path.append("peek:raised")
            held_on_disk = c.rt.has("lock/held")
            got = False
            try:
                try:
                    ldb.attempt_lock()
                    got = True
                    path.append("direct")
                except errors.LockContention:
                    if info is not None:
                        ldb.force_break(info)
                        path.append("force_break")
                    elif corrupt is not None:
                        ldb.force_break_corrupt(corrupt.file_data)
                        path.append("force_break_corrupt")
                    else:
                        path.append("stuck")
                        bad("stuck", f"lock cannot be acquired (LockContention) and peek() shows no holder to break; lock dir: {listing(c.rt)}")
                except errors.LockCorrupt as e:
                    ldb.force_break_corrupt(e.file_data)
                    path.append("force_break_corrupt")
                if not got and path[-1] != "stuck":
                    ldb.attempt_lock()
                    got = True
                    path.append("acquired")
            except Exception as e:  # noqa: BLE001 - anything else is a refusal the property does not allow
                path.append("acquire_raised:" + type(e).__name__)
                bad("acquire_raises", f"fresh process could not acquire after {path}: {type(e).__name__}: {e}; lock dir: {listing(c.rt)}")
            if got:
                ondisk = locksim.read_info(c.t, "lock/held/info")
                if ondisk is None or ondisk[0] != ldb.nonce:
                    bad("acquired_not_on_disk", f"attempt_lock returned but held/info is {ondisk}")
                try:
                    ldb.unlock()
                    path.append("unlocked" if not ldb.is_held else "unlock_swallowed")
                except Exception as e:  # noqa: BLE001
                    path.append("unlock_raised:" + type(e).__name__)
                    bad("unlock_raises", f"unlock of the recovered lock raised {type(e).__name__}: {e}")
                if c.rt.has("lock/held"):
                    bad("held_after_unlock", f"after recovery and unlock the lock is still held: {listing(c.rt)}")
            sim.probe("A:" + a_out)
            sim.probe("B:" + path[-1])
            if held_on_disk:
                sim.probe("left_held")
            tokens.close()
            key = [opname, prestate_str(plan), kindtag, variant, k, site, a_out, path, held_on_disk]
            sim.state_seen((opname, prestate_str(plan), a_out, tuple(path), held_on_disk))
            d = hashlib.sha1(json.dumps(key).encode()).hexdigest()[:20]
            sim.event("case", idx, kindtag, variant, k, site, a_out, ">".join(path), held_on_disk, "inside" if inside else "edge")
            if inside:
                subs.append(d)
                sim.nontrivial = True
    finally:
        tokens.close()
    sim.notes["sub_digests"] = subs
    if sim.notes["evaluations"] == 0:
        sim.notes["evaluations"] = 1


def prestate_str(plan):
    keys = ("holder", "lockdir", "junk", "broken", "steal_dead")
    return ",".join(f"{k}={plan[k]}" for k in keys if k in plan)


def listing(rt):
    out = []

    def walk(rel):
        for name in sorted(rt.list_dir(rel)):
            p = f"{rel}/{name}"
            out.append(path_class("/" + p))
            try:
                walk(p)
            except Exception:  # noqa: BLE001 - a file
                pass

    try:
        walk("lock")
    except Exception:  # noqa: BLE001
        return "<no lock dir>"
    return out
