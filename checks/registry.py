"""Which properties are claimed, at what level, and why the others are not."""

HOOK_COMMITS = []
FIX_COMMITS = ["5a7ea92", "968480f", "81560c0", "dd9d1dc", "30a1d27", "d05b8f1", "483ac36", "3ec4792", "3944e47", "ae7798f", "050b368", "8bc95ce", "d5cf2b7", "6953efe", "1247e95", "4d49515", "6f570af", "646d20b", "26bde2f", "3289b76", "74fc42f", "d04b477", "cf7895f", "0885a79", "896881d", "59d7027", "904a9ec", "08bff96", "e942a75", "26e29a9", "66fd8ff", "ebdeca6", "09441a8", "c7126b4", "27037ec", "6b98ec8", "5e832b4"]

_PURE = "pure function of its arguments (no storage, stream, clock, retry, schedule or fault in the statement or the anchored code): deciding it means generating inputs, which is not deterministic simulation (DESIGN.md section 6)"

NOT_APPLICABLE = {
    "C18": "merge decision rules are static finite-domain functions; " + _PURE,
    "C34": "import_commit/export_commit map in-memory commit objects; " + _PURE,
    "C36": "escaping / id / ref-name / URL mappings are string functions; " + _PURE,
    "C39": "diff generation, patch parsing and application on in-memory line lists; " + _PURE,
    "C47": "path containment, line splitting, date formatting; " + _PURE,
    "C48": "glob translation and matching; " + _PURE,
    "C50": "command-line splitting; " + _PURE,
}

NOT_BUILT = {}

CLAIMED = {
    "C11": {
        "level": "exploration",
        "text": "Model-based exploration of layouts x ignore rules x path selections on bzr and git trees: simulated tree histories plus litter (ignore file from a 5-form grammar, ignored and plain names, nested 2a/git trees, empty control dirs, recorded conflicts with helper files, backups, dir symlinks), then 1-3 smart_add calls with named paths (ignored files, files in ignored dirs, versioned paths, nested roots, helpers, missing paths) and recurse on/off; newly versioned set, ids, kinds and persistence compared with a model.",
        "note": "Rider on simulated tree histories (no schedule, no fault of its own); ignore matcher limited to the grammar; listed no-position zones (descendants of a named ignored directory, x.moved, directory kinds in git).",
        "technique": "deterministic simulation: model-based differential check over simulated tree histories",
    },
    "C15": {
        "level": "exploration",
        "text": "Model-based exploration of shelve/unshelve stacks on simulated 2a tree histories: 2-12 pending changes (texts built so each changed region is one hunk), model-chosen consistent subsets of iter_shelvable items and hunks, shelf scripts of shelve / unshelve-top / delete / reopen, and in ~18% of runs one failing os-seam call inside the shelving transform; the tree (disk, paths, ids, kinds, texts, exec bits, iter_changes) is compared with a breezy-free model after every step, shelf ids are unique/increasing/persistent, and after a fault the tree is unchanged or completely shelved with a readable shelf.",
        "note": "Consistent selections only; only the top shelf is unshelved; no fault inside the shelf write (it bypasses the transport seam); two open findings (stale THIS executability in merge; preview path lookup shadowed by a removed entry), two defects fixed in /repo.",
        "technique": "deterministic simulation: reference model + single-fault os seam + seeded replay with ddmin",
    },
    "C42": {
        "level": "exploration",
        "text": "Simulated tree histories over unusual names, then 3-8 seeded export calls (dir, tar, tgz, tbz2, txz, tlzma, zip x root x subdir x per-file timestamps x filtered x path/fileobj x repository/basis tree), each read at member level and extracted, compared with the revision tree minus the documented exclusion.",
        "note": "Rider (no schedule, no fault of its own); zip exec bits and symlinks, and mtimes without per-file timestamps, not asserted; one defect fixed in /repo (ContentFilterTree forwarding).",
        "technique": "deterministic simulation: model-based differential check of exporters over simulated tree histories",
    },
    "C45": {
        "level": "exploration",
        "text": "Per-run eol rule set (7 settings, optional second pattern) and a model-generated write/commit/checkout/revert/update/reopen history over up to 4 trees of one 2a branch, contents over CR/LF/NUL/letters; disk bytes, filtered and unfiltered reads, sha1, iter_changes/has_changes, basis texts and text versions are compared with a model derived only from the `brz help eol` table; a fresh checkout must report no changes.",
        "note": "Rider (no schedule, no fault of its own); canonical = text without NUL and without CR CR LF; one open finding (converters not idempotent on CR CR LF); bzr 2a only, POSIX 'native'.",
        "technique": "deterministic simulation: model-based check of content-filter plumbing over simulated working-tree histories",
    },
    "C46": {
        "level": "exploration",
        "text": "Simulated tree history plus seeded litter (unknown, ignored and detritus names, ignore file, real nested bzr and git trees incl. below unversioned directories, symlinks to a sentinel directory next to the tree) and 1-3 clean_tree calls over every option subset incl. dry runs, on bzr and git trees; per-path keep/delete/free verdicts against a model, sentinel and scratch listing unchanged, versioned content unchanged, nested branches byte-identical.",
        "note": "Rider (no schedule, no fault of its own); detritus = is_detritus; completeness goes beyond the property's 'only'; three nested-branch data-loss defects fixed in /repo.",
        "technique": "deterministic simulation: model-guided history + litter, per-path oracle, sentinel checksum",
    },
    "C01": {
        "level": "fault_enumeration",
        "text": "Seeded model-generated edit histories with 1-5 commits on a lightweight checkout of a store-hosted 2a branch. Every commit with a seeded specific_files/exclude selection is compared with basis+selected substitution (revision tree, parents, tip, remaining pending set). The last commit is re-executed from a rebuilt byte-identical pre-state once per storage operation (quick <=10 sampled, thorough all) with an error before that operation. When commit raised, tip, listed revisions, tree parents and pending changes must be unchanged and a retry must succeed and record the right tree.",
        "note": "One failing op per execution, no dirstate or user-file faults. Selections needing entries outside the selection or entering recorded path-filter findings are not generated; unappliable selections are judged only for 'raise changes nothing'. Two open findings (revision visible / tip moved when the error comes after the write group is committed).",
        "technique": "deterministic simulation: model-based oracle (treesim MTree + selection model), per-run fault-point enumeration at the storage seam with snapshot-rebuilt pre-states, fresh-object read-back and retry",
    },
    "C16": {
        "level": "exploration",
        "text": "Seeded histories with real merges (1-2 pending merges, merges of merges), tags, and standalone, lightweight and bound layouts. Commit+uncommit round trips must restore tip, revno, parents with order, iter_changes, tags and every file's bytes and mtime. Uncommits of depth 1-4 with keep_tags, local and no tree are judged against a graph model: tip, master, re-recorded pending merges in order with heads filter, tag removal by reachability from the new parents, refusals change nothing. Sampling.",
        "note": "The order of pending merges that existed before uncommit is not judged. Uncommit-to-null with merges is judged as a set. Master tags under local=True are not judged. Rust remove_tags is exercised only through the Python entry point.",
        "technique": "deterministic simulation: graph-model oracle over simulated merge histories, stat-level file identity check",
    },
    "C23": {
        "level": "exploration",
        "text": "Seeded histories of bound, local and direct-to-master commits, update, pull, bind, unbind and tags over a master on a sim store and 1-2 heavyweight checkouts. A graph+tips model is judged after every op from fresh objects. Refusals must be exact in kind and change nothing. An error is injected at or after the master's tip write of bound commits: never local-ahead, and update converges. Sampling.",
        "note": "Pull only from the master, and local-ahead pull is a no-op. Tags and recorded parents are not judged. One open finding (update with an empty master).",
        "technique": "deterministic simulation: two-branch reference model, targeted fault window at the storage seam, fresh-object read-back",
    },
    "C40": {
        "level": "exploration",
        "text": "Seeded (history with renames, exec changes, symlinks, binary files, merges; repository format pair; bundle format 4 / 0.9 / 0.8; base/target; merge-directive options) scenarios: write -> read -> install into a repository holding the base, testament (and strict testament / tree) equality; MergeDirective2 round trip and install; merge through the directive vs merge from the branch in real trees; per-run lists of single-byte transit corruptions (flip/delete/insert, biased to headers, sha lines, base64, bz2 body) each installed into a fresh target: detected, or harmless.",
        "note": "Old-format (0.8/0.9) defect classes and the xml->chk install class are recorded open findings, guarded and lifted in ~6% of runs; a v4 hang on truncated streams was fixed in /repo; any exception counts as detection of a corruption.",
        "technique": "deterministic simulation: round trip + corruption injection in transit with testament and tree oracle, differential merge (directive vs branch)",
    },
    "C43": {
        "level": "exploration",
        "text": "Seeded commit sequences (adds, deletes, renames incl. swaps, file/dir/symlink kind changes, exec changes, odd names) each followed by an incremental or full upload through the transport seam, with one injected error or crash at a seeded remote operation and a re-run; the remote directory (content, exec bit, link resolution, marker) is compared with the model tree after every upload.",
        "note": "Symlink, ignored-path move, directory-move-with-inner-change and multi-revision-span classes are recorded open findings, guarded and lifted in ~7% of runs; leftovers after a full re-upload are tolerated.",
        "technique": "deterministic simulation: model-based comparison of the remote directory after every upload, fault injection at the transport seam",
    },
    "C44": {
        "level": "exploration",
        "text": "Seeded export->import round trips over generated histories (merges, renames, swaps, deletes, kind changes, symlinks, exec changes, binary content, tags; 2a / pack-0.92 / 1.14-rich-root sources) and exporter/importer options (plain/non-plain, rewrite_tags, no_tags, baseline, marks, checkpoints), the stream fed to the parser in seeded short reads; compared revision by revision through the mark maps: count, parents, message, committer, timestamp, timezone, trees, tip, revno, tags.",
        "note": "Empty directories excluded; swap, plain kind-change-to-directory and directory-rename classes are recorded open findings (guarded, lifted in ~7% of runs); the non-plain property-name defect was fixed in /repo.",
        "technique": "deterministic simulation: model-generated history through a real working tree, short-read stream seam, differential oracle (source vs imported repository)",
    },
    "C52": {
        "level": "exploration",
        "text": "Seeded upgrades over all newer-format pairs (knit, pack-0.92, rich-root-pack, 1.9, 1.9-rich-root, 1.14, 1.14-rich-root, 2a) with err_before at a seeded store op and retry / backup.bzr recovery; seeded chains of 1-4 reconfigure transitions (tree, branch, checkout, lightweight checkout, standalone, use-shared, repository trees) with pending tree changes; before/after oracle on tip, testaments, tags, working-tree content and iter_changes.",
        "note": "No faults in reconfigure (no recovery contract); knit histories without kind changes; knit branch format has no tags.",
        "technique": "deterministic simulation: before/after state oracle with fault injection on the control-directory store",
    },
    "C12": {
        "level": "exploration",
        "text": "Seeded tree states (modified, edited-after-merge, added, unknown, renamed+edited files; an optional previous merge that leaves merge-written files and conflicts) and one command per run - revert(paths, backups), remove(paths, keep_files, force), merge, update in a lightweight checkout, switch, pull, uncommit - judged by a conservation oracle over the multiset of user-edited contents: every content not explicitly discarded is found byte-identical in the tree, in a numbered backup or conflict helper, or as the clean merge3 of it with the incoming change; uncommit leaves every file byte- and stat-identical. Sampling.",
        "note": "'kept' means found anywhere in the tree (contents are unique per edit); symlinks/directories and git trees not judged; no os-level faults here (C13 owns them).",
        "technique": "deterministic simulation: conservation oracle over the content multiset with a merge3 reference",
    },
    "C17": {
        "level": "exploration",
        "text": "BASE built from simulated tree histories; THIS and OTHER derived by model-approved edit batches so that one of the four law preconditions holds by construction (OTHER=BASE, THIS=BASE, identical batches, disjoint ownership), incl. renames, deletions, kind changes; merge3 / weave / lca (with a criss-cross prelude for two LCAs), bzr and git trees; the merged tree (disk, versioned view, kinds, contents, exec bits, ids) must equal the law's prediction and no conflict may be returned or recorded. Sampling.",
        "note": "Laws exercised only on histories the tree model can predict and, for git, outside four recorded open findings (lifted in 15% of runs); text merges are C19's subject.",
        "technique": "deterministic simulation: metamorphic merge laws over tree triples constructed by simulated histories",
    },
    "C19": {
        "level": "exploration",
        "text": "Generated BASE/THIS/OTHER line triples (tiny alphabet, marker look-alikes, missing final newlines, CRLF) committed on two real branches and merged with Merge3Merger under reprocess / show_base / cherrypick; reference = the merge3 dependency: a TextConflict is recorded iff the reference has a conflict region, the file equals the reference rendering and .BASE/.THIS/.OTHER hold the three texts, otherwise the clean merge and no helpers; resolve take_this / take_other leaves exactly that text and removes helpers and record. Sampling.",
        "note": "Weave/LCA text merges not judged (no reference); reprocess+show_base only checked for a clean refusal; one open finding (a user line starting with breezy's private sentinel marker).",
        "technique": "deterministic simulation: reference-model differential against the merge3 dependency over generated text triples and merge options",
    },
    "C20": {
        "level": "exploration",
        "text": "Generated conflict lists of all ten types with unusual unicode paths and file ids, set/add/resolve/merge-hash operations with re-open after every step compared with a list model; the last write is swept in-process with err_before at every op and crash (dropped/applied/torn) at every mutating op of the control-file write (sampled points per run): a fresh open reads the old or the new record, never a parse error. Sampling.",
        "note": "Order chosen by add_conflicts and __eq__-equal duplicates not judged; stale-hash entries may be dropped; one defect fixed in /repo (resolve below a regular file).",
        "technique": "deterministic simulation: model-based round trip plus re-execution fault sweep at the storage seam",
    },
    "C35": {
        "level": "exploration",
        "text": "Generated native 2a histories (files, dirs incl. empty, symlinks, exec-only changes, renames, deletes, merges) pushed lossy into a git repository on the simulated store in one go or tip by tip with a Dict/Index/Sqlite SHA-map cache kept, re-opened or cold per push, optionally with a crash/transport error at a seeded store op of cache or target followed by a re-push from a fresh process, then fetched back; and git-origin histories (dulwich) imported and exported again. Per revision: pushed objects == from-scratch _tree_to_objects == a format-only conversion, no dangling tree entries, stable commit SHAs across cache states, original SHAs reproduced, round-trip trees equal modulo empty directories. Sampling, not proof.",
        "note": "Cache selection is routed by the check; native names ASCII; commit SHAs judged for git-origin only; stale ref locks removed before the re-push; unusual file modes rare; 6 cases per forked run; two import defects fixed in /repo.",
        "technique": "deterministic simulation: differential export oracle (incremental vs from-scratch vs independent) and round-trip oracle over real push/fetch code on simulated stores with crash/error injection at the transport seam",
    },
    "C13": {
        "level": "fault_enumeration",
        "text": "Per seeded transform (direct TreeTransform scripts; revert, merge, switch, shelve, unshelve on seeded edits; 2a and git trees) a dry pass records every file-system call of apply() at the os seam; each call index (quick: seeded sample <=12, thorough: all) is re-executed with that call failing (errno from EACCES/ENOSPC/EIO/EXDEV/ENOTEMPTY); the reopened tree must equal S0 or S1 as a whole, S0 for failures before commit, S1 metadata for failures while discarding, and the next transform must be possible.",
        "note": "One failing call per execution, no effect; Rust helpers fail as whole calls; no fault inside dirstate/index saves or transport control-file writes; fault points run sequentially in the run process on a restored copy of the tree (VERIF_XFORM_FORK=1 forks each); runs in-process by default. Two defects fixed in /repo.",
        "technique": "deterministic simulation: fault-injecting proxy at the working-tree syscall seam, per-run enumeration of fault points, snapshot oracle",
    },
    "C14": {
        "level": "exploration",
        "text": "Seeded scripts of low-level transform operations (valid edits + injected conflicts of all seven kinds; optional fully random mode) on 2a and git trees; resolve_conflicts must end conflict-free or with MalformedTransform (tree untouched), never hang; the preview tree read through the Tree API must equal the reopened tree after apply (paths, kinds, contents, link targets, versioning, file ids, executable bits). Sampling, not proof.",
        "note": "No faults; API-accepted operation states only; walkdirs not used; git directories not compared; ten open findings (preview-tree read paths, git index updates, resolver internal errors) recorded in known_findings.json.",
        "technique": "deterministic simulation (seeded generation, recorded syscall trace), differential oracle preview vs applied",
    },
    "C21": {
        "level": "exploration",
        "text": "Seeded operation histories (pull/push with stop_revision inside/outside the source ancestry and every overwrite form, set_last_revision_info, generate_revision_history, uncommit, source re-pointing, bind/unbind, append_revisions_only on target/master, error at the put of last-revision with retry, re-open) over generated DAGs in shared or separate 2a/pack-0.92 repositories, tip pairs drawn by relation class; per-branch update law, refusal kind, master-first order and revno = length of an independent left-hand walk checked after every operation on used and fresh objects. Sampling, not proof.",
        "note": "No ghost left-hand parents; tags exercised not judged; fetched-ancestry presence not judged; one defect family fixed in /repo (bound-branch self-deadlock).",
        "technique": "deterministic simulation: model-based history exploration with error injection at the last-revision put",
    },
    "C22": {
        "level": "exploration",
        "text": "Seeded histories of revno/dotted-revno queries and RevisionSpec strings generated from a graph model, asked on cold, unlocked, read- and write-locked branch objects interleaved with tip moves on the same object; dotted numbers judged only by the stated laws on a cold reference map and by agreement of every access path with it; specifiers judged against their definitions over the model. Sampling, not proof.",
        "note": "warm = locked (unlock clears caches); specifiers outside the ancestry and multi-LCA ancestor: weakly judged; two minor defects fixed in /repo.",
        "technique": "deterministic simulation: cache-state exploration by seeded query order with law-based and model-based oracles",
    },
    "C25": {
        "level": "exploration",
        "text": "Seeded log requests (direction, levels, limit, mainline/open/single ranges in several spellings, exclude_common_ancestry, one or two files, delta_type, both file-matching algorithms, cold/warm object) over generated DAGs with realistic merges; completeness with the branch's own (revno, depth), re-implemented reverse_by_depth, range denotations, limit-prefix, per-file mainline sets against model deltas and across algorithms. Sampling, not proof.",
        "note": "Per-file judged only where the two definitions coincide in the model; merged revisions of per-file logs and dotted-single depths not judged; one defect fixed, six open findings (path-based file matching, forward per-file log).",
        "technique": "deterministic simulation: request-space exploration with graph-model denotations and cross-path comparison",
    },
    "C31": {
        "level": "exploration",
        "text": "Seeded hostile sessions (25-70 requests over the whole verb registry, v1/v2/v3, path grammar over / . .. %2F %2E ~ ~user // NUL, unicode, absolute/URL forms, root_client_path and user-directory variants, RemoteTransport clones, in-request ControlDir.open probes) against the real BzrServerFactory backing transport; ground-truth oracle below the chroot (raw-store snapshots for writes, recorded read results verified against the raw store), response-leak tokens, JailBreak probes. Sampling, not proof.",
        "note": "Least schedule-dependent claimed check (fault kind: hostile peer; no crash or interleaving dimension); the VFS jail escape found was fixed in /repo; one open finding lives in the dromedary package (in-request open through an encoded slash).",
        "technique": "deterministic simulation: real smart server over SimPipe with hostile request generation, storage-seam ground-truth oracle",
    },
    "C32": {
        "level": "exploration",
        "text": "Seeded histories of 3-12 branch and repository operations executed locally on store A and through the loop-back smart server on an identical store B (2a and pack-0.92, pipe and socket media, seeded segmentation); result equality and locally-read store equality after every operation; faulty sub-batch with one connection reset aimed by verb class (during send, or after execution) and the strict or relaxed oracle per request_handlers class, recovery by break_lock, then strict again. Sampling, not proof.",
        "note": "Error classes and messages not compared; branch.conf-backed fields compared when unlocked only; insert_stream worker run synchronously; lock info pinned; resets during response bodies not modelled; one open finding (null: dropped by remote get_parent_map).",
        "technique": "deterministic simulation: differential local/remote execution over real client and server stacks with verb-class-aimed connection resets",
    },
    "C33": {
        "level": "exploration",
        "text": "Monitor on every search recipe that reaches recreate_search_from_recipe inside seeded remote fetch sessions (merges, ghosts, pre-populated targets, seeded search depth, server prefetch on and off): no NoSuchRevision from the count check, count equals the number of keys the server walked (also with discard_excess), included equals intended among those present; end-to-end transferred set. Sampling, not proof.",
        "note": "Intended set of get_parent_map recipes is an independent walk over the client's cache; ghosts never filled; no stacking.",
        "technique": "deterministic simulation with client-side and server-side observation wrappers inside loop-back fetch runs",
    },
    "C02": {
        "level": "exploration",
        "text": "Seeded DAG histories (6-30 revisions, 1-4 branches: merges by per-file decisions, criss-cross, revert-after-merge, identical parallel changes, cherry-picks, kind/rename/exec changes, resurrected file ids, ghost parents) committed through real working trees into 2a, pack-0.92 and rich-root-pack repositories (one shared repository or one per branch joined by fetch, with pack() and re-opens). Every stored entry is compared with a model of the property's rule: last-changed revision, exact ordered per-file parents, check() clean including unreferenced versions.",
        "note": "Per-file heads as pack repositories define them; knit formats are out of scope (they deviate after a file id is deleted and re-added); pack-0.92 root excluded; merged trees are model-computed.",
        "technique": "deterministic simulation: model-based history exploration on simulated stores, per-entry model oracle plus repository check",
    },
    "C03": {
        "level": "exploration",
        "text": "Seeded (history with merges, ghosts and signatures; source and target formats among 2a, 1.9, 1.9-rich-root, pack-0.92, rich-root-pack, knit; pre-populated sub-DAG via a direct or intermediate route; stacked target or not; fetch, fetch-all, pull, push or sprout; find_ghosts; optional InterDifferingSerializer; optional transport error on the target). Oracles: completeness, model equality, testament equality source vs target, per-file parents, signatures, check(), old-or-new plus retry after an injected error, byte-level and seam-level idempotency of the repeated operation.",
        "note": "Local sim stores only (the smart-server variant is covered by C32/C33 runs); no fault injection for knit targets; the target's check() is required only when the source's own check() is clean.",
        "technique": "deterministic simulation: seeded configuration and history exploration with error injection at the transport seam, snapshot, monitor and differential (source vs target) oracles",
    },
    "C08": {
        "level": "exploration",
        "text": "Seeded stacking histories (base history, stacking point and method, then commits, merges of later base revisions, base growth, third-repository work brought in by pull, fetch or push, stacked clones, pack and re-open) on 2a, 1.9 and 1.9-rich-root. After every operation the stacked branch is opened alone: own revisions readable and diffable against parents, check() clean, and with fallbacks detached the parent inventories and new texts are present.",
        "note": "A refused ghost-parent commit is not judged; local transports only; one defect fixed in /repo (per-file heads ignored the fallback).",
        "technique": "deterministic simulation: seeded operation histories over simulated stores, fresh-process oracle with fallbacks attached and detached",
    },
    "C41": {
        "level": "exploration",
        "text": "Cross-invariant over worlds built from one model history (native 2a, pack-0.92 and rich-root-pack with different pack and re-open points, fetch copies into other formats, and sibling worlds that change exactly one attested field of one revision). Testament, StrictTestament and StrictTestament3 texts are equal if and only if the model's attested tuples are equal.",
        "note": "Claimed part only: determinism with respect to format, storage order and history; sensitivity as far as 17 kinds of sibling perturbation reach. Version 1 does not attest exec bits or last-changed revisions by format definition.",
        "technique": "deterministic simulation: differential testing across simulated repositories against a model of the attested tuple",
    },
    "C09": {
        "level": "exploration",
        "text": "Seeded model-generated sequences of 5-25 working-tree operations (disk edits, add/smart_add/mkdir/remove/rename_one/move/commit/revert/reopen/lock cycles, plus operations that must be refused) on a real 2a/dirstate or git/index tree; after every operation disk, versioned paths, kinds, texts, exec bits, file ids, iter_changes(basis) x4, unknowns/extras, parents and basis are compared with an abstract versioned-FS model; re-open must read back the identical state. Sampling, not proof.",
        "note": "Operations decided by conflict resolution or rename heuristics are not generated; states that hit the recorded open findings (treesim.GUARDS) are explored only in the 20% of runs that lift the guard; stat-cache paths are not asserted; one in-process world per run.",
        "technique": "deterministic simulation: model-guided operation generation against a reference model (MTree), per-step state comparison, bzr control files on the storage seam, seeded replay + ddmin",
    },
    "C10": {
        "level": "exploration",
        "text": "At every k-th step of C09-style runs and on revision-tree pairs of the run's history, InterTree.get(a,b).iter_changes (InterDirStateTree / InterCHKRevisionTree / InterGitTrees) is compared with the generic InterInventoryTree.iter_changes for 4 filters x include_unchanged x want_unversioned: equal sets, no duplicates, filtered results applicable to the source (parents present), unfiltered result applied to the source snapshot = target snapshot.",
        "note": "For git only self-consistency is checked (single implementation); representation differences listed in ASSUMPTIONS are normalised; differences that are recorded open findings are removed while their guard is on.",
        "technique": "deterministic simulation: differential comparison of optimised vs generic tree comparison on states reached by a simulated history, delta-application oracle",
    },
    "C24": {
        "level": "exploration",
        "text": "Seeded merge_to calls over bzr (2a on a sim store), MemoryTags and local git tag stores, bound targets, overwrite/selector/ignore_master, with err_before/crash at every mutating store op of the merge; dict model of the reconciliation rules for stored dicts and returned (updates, conflicts); fresh-object read-back; set/delete/rename round trips. Sampling.",
        "note": "git names/values restricted (valid refs, commits present, lightweight); git stores are not behind the seam; a bound target and its master are reconciled separately.",
        "technique": "deterministic simulation: model-based exploration with fault injection at the transport seam and fresh-process read-back",
    },
    "C49": {
        "level": "exploration",
        "text": "Seeded edit/lookup scripts over LocationStack-like stacks on sim stores (value grammar with quotes, commas, #, =, newlines, line-break characters, unicode, lists; path/glob section grammar, ignore_parents, appendpath, relpath) against a dict model; 2-3 concurrent writers of one LockableIniFileStore file pre-empted at every store op with cause attribution at the seam; crash points inside save with a fresh reader. Sampling.",
        "note": "Matching rules are checked only via this workload; option and section name alphabets narrowed (see ASSUMPTIONS); open findings for the quoting layer; two defects fixed in /repo.",
        "technique": "deterministic simulation: model-based exploration, seeded scheduler over store ops, crash injection",
    },
    "C51": {
        "level": "exploration",
        "text": "Seeded DAG histories in a shared 2a repo on a sim store; plans computed as cmd_rebase does (seeded stop/onto/start, skip_full_merged) and by generate_transpose_plan against ancestry models (domain, parent topology, uniqueness); marshalling round trips pure and through RebaseState1 on a seamed checkout; rebase() with CommitBuilderRevisionRewriter uninterrupted vs crash/err at a seeded store op then resumed from the stored plan, compared revision by revision. Sampling.",
        "note": "Replay by commit builder, not the working-tree merger; inapplicable replays skipped; with explicit start only the relation to start is constrained; one open finding (skip_full_merged).",
        "technique": "deterministic simulation: model-based plan oracle, crash/error injection at the transport seam, fresh-process resume, uninterrupted-vs-resumed equivalence",
    },
    "C37": {
        "level": "exploration",
        "text": "Seeded sequences (3-10) of set_if_equals/remove_if_equals/add_if_new with current/stale/previous/zero/None expected values over refs absent/loose/packed/both/symbolic on memory and local-path stores, each call checked (result + state via a fresh container) against a CAS model; and 2 updaters x 1-3 calls pre-empted at every store op, history + final state checked for linearizability by brute force. Sampling, not proof.",
        "note": "local-path store: lock files are O_EXCL outside the seam; memory store stands for transports without local paths (has+put lock, known racy); updater reads and symref-changing ops are not in the history; remove_if_equals on symrefs only unconditional/stale. Sequential defect fixed in /repo; concurrent non-atomicity recorded as open findings.",
        "technique": "deterministic simulation: model-based sequential oracle + seeded scheduler with linearizability check of tiny histories",
    },
    "C38": {
        "level": "exploration",
        "text": "Generated native 2a histories (2-6 revs; files, dirs, symlinks, exec, renames, merges) -> recorded real exporter add_object sequences -> Dict/Sqlite/Index backends driven like _update_sha_map with commit/abort/crash write groups and re-opening; every lookup_* / revids / sha1s / missing_revisions answer compared with Dict references (committed subset-of answer subset-of ever-added), Index commit crash all-or-nothing.",
        "note": "Tdb not importable here; lookup_git_sha compared as non-empty subset; lookup_tree_id may be unimplemented; aborted-group visibility not judged; 8 cases per forked run.",
        "technique": "deterministic simulation: differential check of cache backends against a reference model, crash fault at the store seam",
    },
    "C27": {
        "level": "fault_enumeration",
        "text": "For one LockDir operation (create, attempt_lock, unlock, force_break, break_lock) on one generated pre-state (holder none/dead/live/corrupt/empty, lock dir present or not, leftover tmp dirs, steal_dead on/off) every transport operation of the operation is hit, each from a freshly rebuilt identical pre-state: crash with the op dropped, crash with the op applied, torn info write at several fractions including empty, and an injected transport error before the op. After each fault a fresh process must see None / parseable info / LockCorrupt from peek(), acquire directly or after the matching break, release, and leave no held dir; a failed attempt_lock must not leave the caller's nonce in held/info. Enumeration is complete per (operation, pre-state); operations and pre-states are sampled.",
        "note": "Atomic mkdir/rename/delete with rename-onto-existing failing (memory transport); crash = process stop without loss of applied ops; injected error = op not applied; one recovering process at a time (concurrency is C26); liveness decided by the real Rust code (killed token processes or pids above pid_max).",
        "technique": "deterministic simulation: per-op crash/torn/error enumeration at the transport seam with pre-state rebuild, fresh-process recovery oracle",
    },
    "C28": {
        "level": "exploration",
        "text": "Seeded call histories (3-14 calls + environment steps) of lock_read / lock_write(none|valid|bogus token) / unlock / break_lock on CountedLock(recording fake), LockableFiles over a real LockDir, a 2a PackRepository, a BzrBranch, and branch+repository mixed, with competing peers, tokens left in place, virtual-time contention and an error injected at the acquiring rename. A (mode,count,via_token)+lock-directory model predicts for every call the refusal class and the exact physical lock events seen at the transport seam, compares public state and counters after every call, drains the history and proves one clean cycle afterwards. Sampling, not proof.",
        "note": "Pack repositories take no physical lock for lock_write and LockDir read locks are fake (stated in ASSUMPTIONS, no physical event required there); token locks are neither acquired nor released physically; working trees not covered; peers share the address space.",
        "technique": "deterministic simulation: model-based history exploration with seam-level observation of physical lock operations",
    },
    "C29": {
        "level": "exploration",
        "text": "Seeded search over request/response shapes of protocol v1/v2/v3 (args, bodies, readv arrays, request and response streams, errors mid-stream, failures, unknown verbs, real hello/get/readv) encoded and decoded by the real client and server stacks over simulated byte streams, optionally pipelined, under seeded segmentations biased to length prefixes, length-line newlines and message ends; decoded content and the logical read position at each message end are compared with a model. Sampling, not proof.",
        "note": "v1/v2 args exclude \\x01 and \\n; the client reads one response at a time; socket server flavour uses a stub socket object; body decoders' unused_data checked by direct encoder->decoder drive.",
        "technique": "deterministic simulation: real smart client/server loops over SimPipe with plan-seeded stream segmentation, model-equality and message-boundary oracles",
    },
    "C30": {
        "level": "exploration",
        "text": "The C29 workload, one exchange at a time on strict pipes modelling the blocking stdin pipe of `bzr serve --inet` and the client pipe medium; every read size requested by the real server loop and client readers is compared with the bytes left in the current message, and reported completion must coincide with the message end. Sampling, not proof.",
        "note": "read(n) modelled as exactly-n (BufferedReader) or at-most-n; over-asking counts in both; socket media are out of scope.",
        "technique": "deterministic simulation: strict SimPipe with knowledge of message boundaries under the real pipe medium loop and client readers",
    },
    "C06": {
        "level": "exploration",
        "text": "Seeded write-group sessions against 2a and pack-0.92 repositories through the real StreamSource/StreamSink code: insert, optionally withholding one required record, then abort / commit / commit-with-withheld / suspend -> (re-open) -> resume -> fill -> commit or abort, with transport errors injected inside the session; oracles: byte-level invisibility of aborted/suspended groups (revision set, VF key sets, pack-names, packs/ and indices/ listings), refusal of incomplete groups, completeness and model equality after commit, retry after an injected error.",
        "note": "Leftovers under upload/ are allowed; source repository fault-free; second resume always by a fresh process; two open findings for pack-0.92.",
        "technique": "deterministic simulation: seeded session histories with error injection at the transport seam, snapshot and model oracles",
    },
    "C04": {
        "level": "fault_enumeration",
        "text": "Per run a generated pre-state (packs near the autopack threshold, 2a or pack-0.92) and one scenario (commit, pull of k revisions, pack, pack+clean) are fixed; a fault-free pass counts the scenario's mutating store operations, then the scenario is re-executed from the identical pre-state with the process crashed at operation k (dropped / applied / torn tail) - thorough: every k, quick: a seeded sample - and a fresh process checks old-or-new revision set, full readability against the model, check(), and that re-running the scenario and new commits succeed.",
        "note": "Crash = process stop with ordered durable ops; put/rename/move/mkdir atomic, append and stream writes tearable; break_lock applied before re-use; source repository fault-free.",
        "technique": "deterministic simulation: per-run enumeration of crash points at the transport seam, recovery oracle by a fresh simulated process",
    },
    "C05": {
        "level": "exploration",
        "text": "Seeded search over interleavings of 2-3 simulated processes (commit, pull, pack, read; private objects, one shared pack repository) pre-empted at every store operation, with virtual-clock lock polling and optional crash of one actor; oracles: durability of acknowledged write groups (fresh process lists and reads everything, check() clean), readers never fail on listed revisions, each pack-names write equals (disk before + produced - consumed) derived at the seam, no pack leaves packs/ while listed.",
        "note": "Processes share one interpreter but no objects; acknowledged = the committing call returned; two open findings recorded in known_findings.json.",
        "technique": "deterministic simulation: seeded scheduler over real pack-repository code, seam-level monitors, model-based final oracle",
    },
    "C07": {
        "level": "exploration",
        "text": "Run-time monitor on every autopack planner call reached by simulated single-process and two-process histories whose batch sizes cross the digit-sum bound: no exception, empty plan within the bound, single combination of >=2 packs whose count is the sum, pack count after execution within the bound (single-process histories).",
        "note": "Only inputs that histories produce are judged; the input-quantified part of C07 beyond reachable states is not claimed.",
        "technique": "deterministic simulation with an invariant monitor on the planner inside simulated histories",
    },
    "C26": {
        "level": "exploration",
        "text": "Seeded search over interleavings of 2-4 simulated lockers (attempt/wait/confirm/unlock/peek->force_break/steal-dead/die, optional crash point) pre-empted at every transport operation of the real LockDir; ghost-state mutual exclusion, break-only-examined and steal-policy oracles after every operation. Sampling, not proof.",
        "note": "Assumes atomic rename/mkdir with rename-onto-existing failing (memory transport semantics); liveness decided by the real Rust code on real token processes; one address space, per-actor LockDir objects.",
        "technique": "deterministic simulation: seeded scheduler pre-empting real LockDir code at every transport op, ghost-state invariants",
    },
}


# What was added to a check after independently seeded changes showed a gap (DESIGN.md C.5);
# appended to the level text in MANIFEST.json by tools/gen_manifest.py.
EXTENSIONS = {
    "C01": "Bound world: a heavyweight checkout bound to a master on its own store, fault points over the whole upload to the master (local tip must never move before the master accepted); look-alike sibling names (string prefix without path boundary) for specific_files/exclude.",
    "C03": "Sources holding texts whose introducing revision is a ghost there (a replica that never received some merged-in revisions), same-serializer pack pairs; oracle referenced_text: every text a judged target inventory refers to is present.",
    "C07": "Histories whose total reaches exactly 10^k revisions with nine packs per digit (the bound collapses to 1), and two writers crossing a digit-sum boundary together so that each one's autopack obsoletes the packs the other planned (retry loop with a changed total).",
    "C08": "Unstack (set_stacked_on_url(None) / reconfigure) with and without faults, default stacking policy below a hosting directory (clone / sprout / init+push).",
    "C09": "Two-writer phase (two actors, separate tree objects, lock_tree_write / op / unlock interleaved at index.lock, index read and commit for git and at every store op for bzr; final tree must equal a serial order of the acknowledged operations); rename_one / move with after=True onto occupied targets.",
    "C10": "Redundant filters [D, path below D, sibling 'D-x'] compared with their minimal form; consecutive revision pairs and targeted filters naming an entry that stays under a moved ancestor.",
    "C11": "Several named directories per call including look-alike pairs (one path a string prefix of the other).",
    "C12": "User op 'recreate' (new file at a path the basis still versions); the territory of the remove defect fixed in c7126b4 is explored in every run.",
    "C13": "Interrupt faults: KeyboardInterrupt / SystemExit delivered before the k-th os call of apply(), judged by the same all-or-nothing oracle as I/O errors.",
    "C14": "Conflict injector 'duplicate content-less' and oracle duplicates_reported (two versioned trans ids with one final name and no conflict); apply() exceptions after a clean resolve are their own class.",
    "C15": "Runs that keep 10-12 shelves alive at once (ids unique and increasing, last_shelf, earlier shelf files byte-identical).",
    "C16": "About 20% of uncommits run with the local or the master tip write failing (err_before at the put of last-revision, or a pre_change_branch_tip hook raising TipChangeRejected): nothing may have changed.",
    "C17": "Edit shapes copy_then_move (git: byte-identical copy plus rename/removal of the source) and vacate_reuse (bzr: directory path vacated and re-used by a new directory with children).",
    "C19": "Conflicts without a BASE helper (file absent from the merge base) and helper files deleted by the user before resolve.",
    "C20": "Two-actor phase: resolve(paths) against add_conflicts / resolve from a second tree object, interleaved at storage ops; the final list must equal a serial order.",
    "C23": "Concurrent commits from two checkouts of one master (random interleaving and a template parking the first committer right before the master lock); pull --local followed by plain pull from an independent branch.",
    "C24": "Two-writer races: merge_to against set_tag/delete_tag on the same destination through separate objects, 6-12 rounds per run; a placement of the merge among the other writer's calls must explain final dict, returned (updates, conflicts) and each call's outcome.",
    "C25": "Nested lines (line branched from a merged revision, merges of merges), ranges whose limits are dotted revisions, every emitted revno compared with the branch's own, limit-prefix oracle at levels >= 2 for limits 1..8.",
    "C31": "Two-connection phase: two client actors, each with its own medium and server thread, pre-empted at store operations inside the request jail.",
    "C32": "Outer lock spans (lock_write; 2-5 operations; unlock), failed retransmissions (second reset), injected server disk errors, repetition of a failed operation inside the same lock (in place / after medium reset / after reopen); oracles false_success and inplace_retry.",
    "C33": "Ghost-fill sessions: a second process fetches a ghost into the served repository at an RPC boundary or interleaved at store ops after the client has learnt it as missing; every recipe must still replay to the client's seen set.",
    "C35": "Commits that free a path (remove / rename away / swap) and move an unchanged file or directory onto it.",
    "C40": "Side lines of 9-13 revisions merged back inside one v4 bundle (inventory cache eviction in the installer).",
    "C41": "Whitespace-only sibling perturbations (trailing/leading blanks and tabs on message and property lines, blank-only lines).",
    "C43": "Freed-path shapes (rename X away or delete a non-empty directory, new directory with a new file id at X) and renames with an exec flip of an unchanged text.",
    "C44": "Renames followed by an exec flip with unchanged text.",
    "C45": "Tree formats 2a / 1.14 / 1.14-rich-root (knit-pack: one chunk per line), 33-100 KiB files with line ends on 32 KiB block boundaries and NULs only in later blocks, binaries with a NUL-free first line, a merge op.",
    "C46": "Nested git checkouts linked by a .git file; a second actor adding a listed path while clean-tree waits at its confirmation prompt (the prompt is a scheduling point).",
    "C49": "err_before faults (PermissionDenied, TransportError, ConnectionError, NoSuchFile when really absent) on the n-th read of a get/set/remove/save script: unrelated durable options must survive.",
    "C51": "Fault points (crash before/after, err_before, torn append) enumerated over the storage ops of write_plan / remove_plan: a fresh process sees no plan or the complete plan.",
    "C52": "Non-ancestor revisions in the repository that a conversion destroys (dead head, tag on a non-ancestor, pending merge); knit (format-3) working trees behind a LocalTransport-subclass seam with fault points enumerated over the tree conversion.",
}
