"""Which properties are claimed, at what level, and why the others are not."""

HOOK_COMMITS = []

_PURE = "pure function of its arguments (no storage, stream, clock, retry, schedule or fault in the statement or the anchored code): deciding it means generating inputs, which is not deterministic simulation (DESIGN.md section 6)"

NOT_APPLICABLE = {
    "C18": "merge decision rules are static finite-domain functions; " + _PURE,
    "C34": "import_commit/export_commit map in-memory commit objects; " + _PURE,
    "C36": "escaping / id / ref-name / URL mappings are string functions; " + _PURE,
    "C39": "diff generation, patch parsing and application on in-memory line lists; " + _PURE,
    "C47": "path containment, line splitting, date formatting; " + _PURE,
    "C48": "glob translation and matching; " + _PURE,
    "C50": "command-line splitting; " + _PURE,
}

NOT_BUILT = {}

CLAIMED = {
    "C26": {
        "level": "exploration",
        "text": "Seeded search over interleavings of 2-4 simulated lockers (attempt/wait/confirm/unlock/peek->force_break/steal-dead/die, optional crash point) pre-empted at every transport operation of the real LockDir; ghost-state mutual exclusion, break-only-examined and steal-policy oracles after every operation. Sampling, not proof.",
        "note": "Assumes atomic rename/mkdir with rename-onto-existing failing (memory transport semantics); liveness decided by the real Rust code on real token processes; one address space, per-actor LockDir objects.",
        "technique": "deterministic simulation: seeded scheduler pre-empting real LockDir code at every transport op, ghost-state invariants",
    },
}
