"""Which properties are claimed, at what level, and why the others are not."""

HOOK_COMMITS = []

_PURE = "pure function of its arguments (no storage, stream, clock, retry, schedule or fault in the statement or the anchored code): deciding it means generating inputs, which is not deterministic simulation (DESIGN.md section 6)"

NOT_APPLICABLE = {
    "C18": "merge decision rules are static finite-domain functions; " + _PURE,
    "C34": "import_commit/export_commit map in-memory commit objects; " + _PURE,
    "C36": "escaping / id / ref-name / URL mappings are string functions; " + _PURE,
    "C39": "diff generation, patch parsing and application on in-memory line lists; " + _PURE,
    "C47": "path containment, line splitting, date formatting; " + _PURE,
    "C48": "glob translation and matching; " + _PURE,
    "C50": "command-line splitting; " + _PURE,
}

NOT_BUILT = {}

CLAIMED = {
    "C04": {
        "level": "fault_enumeration",
        "text": "Per run a generated pre-state (packs near the autopack threshold, 2a or pack-0.92) and one scenario (commit, pull of k revisions, pack, pack+clean) are fixed; a fault-free pass counts the scenario's mutating store operations, then the scenario is re-executed from the identical pre-state with the process crashed at operation k (dropped / applied / torn tail) - thorough: every k, quick: a seeded sample - and a fresh process checks old-or-new revision set, full readability against the model, check(), and that re-running the scenario and new commits succeed.",
        "note": "Crash = process stop with ordered durable ops; put/rename/move/mkdir atomic, append and stream writes tearable; break_lock applied before re-use; source repository fault-free.",
        "technique": "deterministic simulation: per-run enumeration of crash points at the transport seam, recovery oracle by a fresh simulated process",
    },
    "C05": {
        "level": "exploration",
        "text": "Seeded search over interleavings of 2-3 simulated processes (commit, pull, pack, read; private objects, one shared pack repository) pre-empted at every store operation, with virtual-clock lock polling and optional crash of one actor; oracles: durability of acknowledged write groups (fresh process lists and reads everything, check() clean), readers never fail on listed revisions, each pack-names write equals (disk before + produced - consumed) derived at the seam, no pack leaves packs/ while listed.",
        "note": "Processes share one interpreter but no objects; acknowledged = the committing call returned; two open findings recorded in known_findings.json.",
        "technique": "deterministic simulation: seeded scheduler over real pack-repository code, seam-level monitors, model-based final oracle",
    },
    "C07": {
        "level": "exploration",
        "text": "Run-time monitor on every autopack planner call reached by simulated single-process and two-process histories whose batch sizes cross the digit-sum bound: no exception, empty plan within the bound, single combination of >=2 packs whose count is the sum, pack count after execution within the bound (single-process histories).",
        "note": "Only inputs that histories produce are judged; the input-quantified part of C07 beyond reachable states is not claimed.",
        "technique": "deterministic simulation with an invariant monitor on the planner inside simulated histories",
    },
    "C26": {
        "level": "exploration",
        "text": "Seeded search over interleavings of 2-4 simulated lockers (attempt/wait/confirm/unlock/peek->force_break/steal-dead/die, optional crash point) pre-empted at every transport operation of the real LockDir; ghost-state mutual exclusion, break-only-examined and steal-policy oracles after every operation. Sampling, not proof.",
        "note": "Assumes atomic rename/mkdir with rename-onto-existing failing (memory transport semantics); liveness decided by the real Rust code on real token processes; one address space, per-actor LockDir objects.",
        "technique": "deterministic simulation: seeded scheduler pre-empting real LockDir code at every transport op, ghost-state invariants",
    },
}
