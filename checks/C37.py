"""C37 — Conditional git ref updates honour the expected old value.

A real `TransportRefsContainer` on a simulated store whose refs start absent / loose /
packed / loose+packed / symbolic (HEAD -> refs/heads/s -> refs/heads/b).

mode "seq":  3-10 seeded set_if_equals / remove_if_equals / add_if_new calls with `old`
             drawn from {current, stale, previous value, zero, None}; after every call the
             return value and the state read back through a FRESH container must equal
             the compare-and-swap model `MRefs`.
mode "conc": two updaters (own container objects over clones of the transport), 1-3
             calls each on the same 1-2 refs, pre-empted at every store operation; the
             invoke/return history plus the final state must be linearizable w.r.t. MRefs
             (brute force; values are unique)."""

from simkit import world
from simkit.sim import SimCrash

from . import gitsim
from .gitsim import OPNAME, ZERO, sha

PROPERTY = "C37"
LEVEL = "exploration"
RULE = (
    "one case = one seeded run: an initial ref layout (absent/loose/packed/both/symbolic chain, memory or local-path store) "
    "plus either a sequence of 3-10 conditional updates or two updaters with 1-3 conditional updates each and a schedule; "
    "non-trivial (seq) = at least one call carried a stale expected value against an existing ref or add_if_new met an existing ref; "
    "non-trivial (conc) = both updaters performed a mutating store operation and the scheduler switched between them; "
    "a third kind of run (mode push) lets the real push path (InterToLocalGitRepository.fetch_refs of a small native branch) update a ref while a "
    "second updater performs one conditional update of that ref before / between the push's refs snapshot and its ref update / after it "
    "(non-trivial = the second updater succeeded between snapshot and update); "
    "distinct = distinct event-log digests of such runs"
)
COMPONENTS = {
    "real": [
        "breezy.git.transportgit.TransportRefsContainer (set_if_equals, remove_if_equals, add_if_new, lock_ref, packed-refs handling)",
        "dulwich.refs.RefsContainer (follow/read_ref) and packed-refs parser/writer",
        "dulwich.file._GitFile O_EXCL lock files (local-path store only; not routed through the seam)",
        "dromedary MemoryTransport / LocalTransport under the seam",
        "mode push: breezy.git.interrepo.InterToLocalGitRepository.fetch_refs/fetch_revs, BazaarObjectStore (Dict cache), a 2a source repository",
    ],
    "simulated": ["process scheduling of the two updaters (baton-passing threads, pre-emption at every store op)"],
    "stub": ["initial repository layout and packed-refs file written directly to the store"],
}
ASSUMPTIONS = [
    "put_bytes/delete/rename of the store are atomic; open_write_stream + write + close are three separate steps (as on the real transports)",
    "an updater that fails to obtain the ref lock (LockContention) gives up; that outcome must have no effect",
    "an updater call that raises anything else counts as 'may or may not have taken effect'",
    "reads by the updaters are not part of the checked history (the property is about conditional updates); the state read back after both updaters finished is",
    "store kind 'memory' stands for every transport without local paths: there lock_ref is has()+put_bytes() (the code calls it racy); store kind 'local' is a directory, where lock_ref creates O_EXCL lock files; the kind is the 4th element of the concurrent signature",
    "remove_if_equals does not follow symbolic refs (its documented contract): on a symbolic ref it is only called with old=None or a stale sha",
    "old=ZERO_SHA on an absent ref may either match (dulwich convention) or fail",
]
STEP_CAP = 6000
ISOLATION = "thread"

NAMES = ["refs/heads/a", "refs/heads/b", "refs/tags/t"]
ALL = NAMES + ["refs/heads/s", "HEAD"]


def warm():
    gitsim.warm_common()
    from breezy.git.transportgit import TransportRefsContainer, TransportRepo  # noqa: F401


def config(tier):
    if tier == "thorough":
        return {"budget_s": 600, "run_timeout": 60, "selftest": 64}
    return {"budget_s": 40, "run_timeout": 30, "selftest": 32}


# -- generation ---------------------------------------------------------------------------------


def _gen_init(rng, ctr):
    init = {}
    for n in NAMES:
        k = rng.choice(["absent", "loose", "loose", "packed", "packed", "both"])
        if k == "loose":
            init[n] = {"loose": ctr.next()}
        elif k == "packed":
            init[n] = {"packed": ctr.next()}
        elif k == "both":
            init[n] = {"loose": ctr.next(), "packed": ctr.next()}
    if rng.random() < 0.5:
        init["refs/heads/s"] = {"sym": "refs/heads/b"}
    r = rng.random()
    if r < 0.6:
        init["HEAD"] = {"sym": rng.choice(NAMES[:2])}
    elif r < 0.75 and "refs/heads/s" in init:
        init["HEAD"] = {"sym": "refs/heads/s"}
    elif r < 0.85:
        init["HEAD"] = {"loose": ctr.next()}
    return init


class _Ctr:
    def __init__(self):
        self.n = 0

    def next(self):
        self.n += 1
        return self.n


def _gen_push(rng, ctr):
    """A push (InterToLocalGitRepository.fetch_refs) of a small native branch onto one ref,
    and a second updater acting on the same ref before / during (between the push's refs
    snapshot and its ref update) / after it."""
    name = rng.choice(NAMES[:2])
    init = _gen_init(rng, ctr)
    init.pop("refs/heads/s", None)
    if init.get("HEAD", {}).get("sym") in (name, "refs/heads/s"):
        init.pop("HEAD")
    if rng.random() < 0.55:
        init.pop(name, None)
    return {
        "mode": "push",
        "store": rng.choice(["memory", "local"]),
        "header": rng.random() < 0.7,
        "init": init,
        "ref": name,
        "history": gitsim.gen_history(rng, rng.randint(1, 2)),
        "when": rng.choice(["before", "during", "during", "during", "after"]),
        "b_op": [rng.choice(["add", "add", "set", "remove"]), rng.choice(["cur", "cur", "cur", "stale", "none"]), ctr.next(), ctr.next()],
    }


def generate(rng, tier):
    ctr = _Ctr()
    if rng.random() < 0.12:
        return _gen_push(rng, ctr)
    plan = {
        "mode": "seq" if rng.random() < 0.5 else "conc",
        "store": rng.choice(["memory", "local"]),
        "header": rng.random() < 0.7,
        "init": _gen_init(rng, ctr),
    }
    if plan["mode"] == "seq":
        ops = []
        for _ in range(rng.randint(3, 10)):
            kind = rng.choice(["set"] * 5 + ["add"] * 2 + ["remove"] * 3)
            name = rng.choice(NAMES * 3 + ["HEAD", "HEAD", "refs/heads/s"])
            oldk = rng.choice(["cur"] * 4 + ["stale"] * 3 + ["prev"] * 2 + ["none"] * 2 + ["zero"])
            # the value written: unique, or (often together with a stale/zero expected value)
            # the value the ref already holds - "somebody else already made my update"
            newk = "fresh"
            if kind == "set" and rng.random() < (0.45 if oldk in ("stale", "prev", "zero") else 0.15):
                newk = "cur"
            ops.append([kind, name, oldk, ctr.next(), ctr.next(), rng.random() < 0.3, newk])
            if kind == "set" and oldk == "cur" and newk == "fresh" and rng.random() < 0.3:
                # two updaters performing the same A->B update one after the other: the second
                # one's expected value is stale, its new value is already current
                ops.append(["set", name, "prev", ctr.next(), ctr.next(), False, "cur"])
        plan["ops"] = ops
        return plan
    focus = rng.sample(NAMES, rng.choice([1, 1, 2]))
    plan["init"].pop("refs/heads/s", None)
    packed_heavy = rng.random() < 0.35  # updaters that share the packed-refs file
    if packed_heavy:
        focus = rng.sample(NAMES, 2)
        for n in focus:
            plan["init"][n] = {"packed": ctr.next()} if rng.random() < 0.6 else {"loose": ctr.next(), "packed": ctr.next()}
    if rng.random() < 0.4:
        plan["init"]["HEAD"] = {"sym": focus[0]}
    elif plan["init"].get("HEAD", {}).get("sym") == "refs/heads/s":
        plan["init"].pop("HEAD")
    alias = ["HEAD"] if plan["init"].get("HEAD", {}).get("sym") in focus else []
    counts = {a: rng.randint(1, 3) for a in ("A", "B")}
    news = {a: [ctr.next() for _ in range(counts[a])] for a in counts}
    actors = {}
    for a in ("A", "B"):
        other = "B" if a == "A" else "A"
        script = []
        for i in range(counts[a]):
            kind = rng.choice(["set"] * 5 + ["add"] * 2 + ["remove"] * (12 if packed_heavy else 2))
            name = rng.choice(focus * 3 + alias)
            if packed_heavy and i == 0:
                name = focus[0] if a == "A" else focus[1]
            r = rng.random()
            if r < 0.3:
                old = ["init"]
            elif r < 0.65:
                old = ["seen"]
            elif r < 0.9:
                old = ["val", rng.choice(news[other] + news[a][:i] + [ctr.next()])]
            else:
                old = ["none"]
            script.append([kind, name, old, news[a][i], rng.random() < 0.25 and name != "HEAD"])
        actors[a] = script
    plan["actors"] = actors
    plan["policy"] = rng.choice(["random", "random", "pct", "pct", "rr"])
    if plan["policy"] == "pct":
        plan["preempt_at"] = sorted(rng.sample(range(1, 90), rng.randint(1, 4)))
    return plan


# -- execution ------------------------------------------------------------------------------------


def execute(sim, plan):
    warm()
    world.setup_sim(sim)
    t = gitsim.new_git_store(plan["store"])
    gitsim.write_initial_refs(t, plan["init"], plan.get("header", True))
    model = gitsim.initial_model(plan["init"])
    names = [n.encode() for n in ALL]
    _check_state(sim, t, model, names, "initial", None)
    if plan["mode"] == "seq":
        _run_seq(sim, plan, t, model, names)
    elif plan["mode"] == "push":
        _run_push(sim, plan, t, model, names)
    else:
        _run_conc(sim, plan, t, model, names)


def _run_push(sim, plan, t, model, names):
    """Updater A pushes a native branch onto plan['ref'] through the real push path; updater
    B (own refs container = another process) performs one conditional update of the same
    ref at a chosen moment.  A's ref update is a conditional update relative to the refs it
    read at the start (absent -> add-if-new, else set-if-equals); nobody's acknowledged
    update may be lost."""
    from breezy.controldir import ControlDir
    from breezy.git.transportgit import TransportRefsContainer
    from breezy.repository import InterRepository
    from breezy.transport import get_transport

    nameb = plan["ref"].encode()
    when = plan["when"]
    kind, oldk, newi, stalei = plan["b_op"]
    branch = gitsim.build_history(get_transport(world.new_store("src")).clone("br"), plan["history"])
    tip = plan["history"][-1]["revid"].encode()
    b_refs = TransportRefsContainer(t.clone())
    seen = {}

    def do_b():
        cur = model.d.get(nameb)
        if kind == "add" or oldk == "none" or (oldk == "cur" and cur is None):
            old = None
        elif oldk == "cur":
            old = cur
        else:
            old = sha(stalei)
        op = (kind, nameb, old, sha(newi))
        try:
            got = bool(gitsim.call_op(b_refs, op))
        except SimCrash:
            raise
        except Exception as e:  # noqa: BLE001 - nothing may fail: no two calls overlap
            sim.fail("cas", ["cas", "push", f"second-updater:{OPNAME[kind]}:raised:{type(e).__name__}"], f"{OPNAME[kind]}({plan['ref']}) by the second updater raised {type(e).__name__}: {e}")
        want = model.apply(op)
        seen["b"] = (op, got, want)
        sim.event("B", OPNAME[kind], plan["ref"], "old" if old else "none", got)

    with gitsim.dict_git_cache():
        git = ControlDir.open_from_transport(t.clone()).open_repository()
        inter = InterRepository.get(branch.repository, git)
        orig_snap, orig_fetch = inter._get_target_either_refs, inter.fetch_revs

        def snap_w():
            r = orig_snap()
            seen["snapshot"] = r.get(nameb, (None, None))[0] or None
            seen["model_at_snapshot"] = model.d.get(nameb)
            return r

        def fetch_w(*a, **k):
            r = orig_fetch(*a, **k)
            if when == "during":
                do_b()
            return r

        inter._get_target_either_refs = snap_w
        inter.fetch_revs = fetch_w
        if when == "before":
            do_b()
        try:
            _revidmap, _old, new_refs = inter.fetch_refs(lambda old_refs: {nameb: (None, tip)}, lossy=True, overwrite=True)
        except SimCrash:
            raise
        except Exception as e:  # noqa: BLE001
            sim.fail("cas", ["cas", "push", f"push-raised:{type(e).__name__}"], f"the push onto {plan['ref']} raised {type(e).__name__}: {str(e)[:300]}")
        g = new_refs[nameb][0]
        if seen["snapshot"] != seen["model_at_snapshot"]:
            sim.fail("cas", ["cas", "push", "snapshot"], f"the push read {plan['ref']} = {_s(seen['snapshot'])}, the ref held {_s(seen['model_at_snapshot'])}")
        a_op = ("add", nameb, None, g) if seen["snapshot"] is None else ("set", nameb, seen["snapshot"], g)
        a_took = model.apply(a_op)
        sim.event("A", "push", plan["ref"], OPNAME[a_op[0]], a_took)
        if when == "after":
            do_b()
    op, got, want = seen["b"]
    detail = (
        f"push onto {plan['ref']} (read it as {_s(seen['snapshot'])}, writes {_s(g)}); second updater {when} the push: "
        f"{OPNAME[op[0]]}(old={_s(op[2])}, new={_s(op[3]) if op[0] != 'remove' else None}) returned {got}"
    )
    sim.probe(f"push:{when}:{op[0]}:{got}")
    if got != want:
        sim.fail("cas", ["cas", "push", f"second-updater:{OPNAME[op[0]]}:result"], f"{detail}, the model says {want}")
    diff = _check_state(sim, t, model, names, "push", True)
    if diff is not None:
        lost = got and when != "after" and gitsim.read_back(t, [nameb])[0][nameb] == g
        tag = "acknowledged-update-lost" if lost else "final-state"
        sim.fail("cas", ["cas", "push", tag], f"{detail}; afterwards {diff}")
    sim.state_seen((model.key(), when, op[0], got, a_took))
    sim.nontrivial = when == "during" and got


def _check_state(sim, t, model, names, where, sig):
    rawvals, followed = gitsim.read_back(t, names)
    want_raw = {n: model.d.get(n) for n in names}
    want_f = {n: model.follow(n)[1] for n in names}
    if rawvals != want_raw or followed != want_f:
        if sig is None:
            raise AssertionError(f"harness: state after {where} differs from the model: {rawvals} / {want_raw}")
        bad = sorted(n.decode() for n in names if rawvals[n] != want_raw[n] or followed[n] != want_f[n])
        return f"refs {bad}: store has {[_s(rawvals[n.encode()]) for n in bad]}, model {[_s(want_raw[n.encode()]) for n in bad]}"
    return None


def _s(v):
    if v is None:
        return None
    return v.decode("ascii", "replace")[:12] if not v.startswith(gitsim.SYMREF) else v.decode()


def _run_seq(sim, plan, t, model, names):
    from breezy.git.transportgit import TransportRefsContainer

    # Two long-lived containers (two processes that take turns, never concurrently) whose
    # caches were filled before the sequence starts; an op goes through one of them, or
    # through a fresh container.  The reference model stays purely sequential.
    containers = [TransportRefsContainer(t), TransportRefsContainer(t.clone())]
    for c in containers:
        try:
            c.get_packed_refs()
            c.as_dict()
        except Exception:  # noqa: BLE001 - priming only
            pass
    prev = {}  # name -> earlier values
    last_writer = {}  # container index -> another container changed refs since this one was created
    interesting = False
    for i, opspec in enumerate(plan["ops"]):
        kind, name, oldk, newi, stalei, fresh = opspec[:6]
        newk = opspec[6] if len(opspec) > 6 else "fresh"
        nameb = name.encode()
        which = (stalei + i) % 2
        if fresh:
            containers[which] = TransportRefsContainer(t.clone())
        refs = containers[which]
        cur = model.target_value(kind, nameb)
        is_sym = cur is not None and cur.startswith(gitsim.SYMREF)
        cls = None
        old = None
        if kind == "add":
            cls = "exists" if cur is not None else "absent"
        elif oldk == "none" or (oldk == "cur" and (cur is None or is_sym)):
            cls = "unconditional"
        elif oldk == "cur":
            old, cls = cur, "matching-old"
        elif oldk == "zero":
            old = ZERO
            cls = "stale-old" if cur is not None else "zero-on-absent"
        else:
            cands = [v for v in prev.get(nameb, []) if v != cur] if oldk == "prev" else []
            old = cands[-1] if cands else sha(stalei)
            cls = "stale-old"
        newv = sha(newi)
        if newk == "cur" and kind == "set" and cur is not None and not is_sym:
            newv = cur
            cls += ":new=current"
        op = (kind, nameb, old, newv)
        before = model.copy()
        try:
            got = gitsim.call_op(refs, op)
        except SimCrash:
            raise
        except Exception as e:  # noqa: BLE001 - nothing may fail in a sequential run
            sim.fail(
                "cas",
                ["cas", "sequential", f"{OPNAME[kind]}:{cls}:raised:{type(e).__name__}"],
                f"op {i} {OPNAME[kind]}({name}, old={_s(old)}) raised {type(e).__name__}: {e}",
            )
        if fresh:
            last_writer[which] = False
        stale_possible = bool(last_writer.get(which))
        if cls == "zero-on-absent":
            want = got  # either reading of ZERO_SHA on an absent ref is accepted
            if got:
                model.apply((kind, nameb, None, op[3]))
        elif stale_possible and not got and model.copy().apply(op):
            # The property is a safety statement ("succeeds ONLY IF ..."): a container whose
            # cached view predates another process's update may refuse an update that would
            # have been legal.  It must then have changed nothing (checked below).
            want = False
            sim.probe("spurious_refusal_with_stale_view")
        else:
            want = model.apply(op)
        if got:
            last_writer[1 - which] = True  # the other container's cached view is now out of date
        if cls.startswith("stale-old") and cur is not None or cls == "exists":
            interesting = True
        sim.event("op", i, OPNAME[kind], name, cls, got)
        sim.probe(f"{kind}:{cls}:{bool(got)}")
        detail = f"op {i}: {OPNAME[kind]}({name}, old={_s(old)}, new={_s(op[3]) if kind != 'remove' else None}) with current value {_s(cur)} [{cls}]"
        if bool(got) != want:
            sim.fail("cas", ["cas", "sequential", f"{OPNAME[kind]}:{cls}"], f"{detail} returned {got!r}, the model says {want!r}")
        diff = _check_state(sim, t, model, names, f"op {i}", True)
        if diff is not None:
            tag = f"{OPNAME[kind]}:{cls}:state"
            if kind == "remove" and want and gitsim.read_back(t, [nameb])[0][nameb] is not None and before.d.get(nameb) is not None:
                tag = "remove_if_equals:ref-survives"
            sim.fail("cas", ["cas", "sequential", tag], f"{detail} returned {got!r} as expected, but {diff}")
        if cur is not None and not is_sym and model.target_value(kind, nameb) != cur:
            prev.setdefault(nameb, []).append(cur)
        sim.state_seen((model.key(), gitsim.storage_shape(t, names)))
    left = gitsim.lock_files(t)
    if left:
        sim.fail("cas", ["cas", "sequential", "lock-left-behind"], f"lock files remain after the sequence: {left}")
    sim.nontrivial = interesting


def _run_conc(sim, plan, t, model0, names):
    from breezy.errors import LockContention
    from breezy.git.transportgit import TransportRefsContainer

    history = []
    clock = [0]
    mutators = set()

    def monitor(sim_, actor, phase, op, path, extra):
        if phase == "before" and op in ("put", "delete", "open_write_stream", "stream_write", "rename", "put_na", "mkdir"):
            if op != "mkdir":
                mutators.add(actor.name)

    sim.monitors.append(monitor)
    init_vals = {n: model0.follow(n)[1] for n in names}

    def tick():
        clock[0] += 1
        return clock[0]

    def run_script(aname, script):
        me = sim.actors[aname]
        refs = TransportRefsContainer(t.clone())
        for i, (kind, name, oldspec, newi, locked) in enumerate(script):
            if me.dead:
                return
            nameb = name.encode()
            if oldspec[0] == "init":
                old = init_vals[nameb] if kind != "remove" else model0.d.get(nameb)
            elif oldspec[0] == "seen":
                fresh = TransportRefsContainer(t.clone())
                try:
                    old = fresh.read_ref(nameb) if kind == "remove" else fresh.follow(nameb)[1]
                except Exception as e:  # noqa: BLE001 - a read racing with a writer
                    sim.event(aname, i, "read-raised", type(e).__name__)
                    old = None
                old = old or None
            elif oldspec[0] == "val":
                old = sha(oldspec[1])
            else:
                old = None
            if kind == "add" or (old is not None and old.startswith(gitsim.SYMREF)):
                old = None  # add_if_new takes no expected value; remove on a symbolic ref: unconditional only
            op = (kind, nameb, old, sha(newi))
            rec = {"actor": aname, "i": i, "op": op, "inv": tick(), "steps_inv": sim.steps}
            lock = None
            try:
                if locked:
                    lock = refs.lock_ref(nameb)
                got = gitsim.call_op(refs, op)
                rec["outcome"] = ("ok", bool(got))
            except SimCrash:
                raise
            except LockContention:
                rec["outcome"] = ("noeffect",)
                sim.probe("lock_contention")
            except Exception as e:  # noqa: BLE001 - an outcome under races; effect unknown
                if me.dead:
                    return
                rec["outcome"] = ("unknown", type(e).__name__)
                sim.probe("raised:" + type(e).__name__)
            finally:
                if lock is not None:
                    try:
                        lock.unlock()
                    except Exception as e:  # noqa: BLE001
                        sim.event(aname, i, "unlock-raised", type(e).__name__)
                        sim.probe("unlock_raised:" + type(e).__name__)
            rec["ret"] = tick()
            rec["steps_ret"] = sim.steps
            history.append(rec)
            sim.event(aname, i, OPNAME[kind], name, "old" if old else "none", *rec["outcome"])

    for aname, script in sorted(plan["actors"].items()):
        sim.spawn(aname, (lambda n=aname, s=script: run_script(n, s)))
    sim.run_actors()
    for aname in plan["actors"]:
        a = sim.actors[aname]
        if a.exc is not None and not isinstance(a.exc, SimCrash):
            raise a.exc
    try:
        final_raw, _ = gitsim.read_back(t, names)
        shape = gitsim.storage_shape(t, names)
    except Exception as e:  # noqa: BLE001 - the refs can no longer be read at all
        sim.fail(
            "cas",
            ["cas", "concurrent", "final-state-unreadable", plan["store"]],
            f"after the two updaters finished a fresh container cannot read the refs: {type(e).__name__}: {str(e)[:300]}",
        )
    sim.state_seen((tuple(sorted(final_raw.items(), key=lambda kv: kv[0])), shape))
    sim.nontrivial = len(mutators) >= 2 and sim.switches >= 1
    for h in history:
        sim.probe("conc_outcome:" + h["outcome"][0])
    witness = gitsim.linearizable(model0, history, final_raw)
    if witness is None:
        lines = []
        for h in sorted(history, key=lambda h: h["inv"]):
            k, n, o, v = h["op"]
            lines.append(
                f"{h['actor']}{h['i']} {OPNAME[k]}({n.decode()}, old={_s(o)}, new={_s(v) if k != 'remove' else None}) "
                f"-> {h['outcome']} [inv {h['inv']} (step {h['steps_inv']}), ret {h['ret']} (step {h['steps_ret']})]"
            )
        init = {n.decode(): _s(model0.d.get(n)) for n in names if model0.d.get(n) is not None}
        fin = {n.decode(): _s(v) for n, v in final_raw.items() if v is not None}
        sim.fail(
            "cas",
            ["cas", "concurrent", "not-linearizable", plan["store"]],
            "no sequential order of the calls consistent with real time explains the results and the final state\n"
            f"initial {init}\n" + "\n".join(lines) + f"\nfinal {fin}",
        )
