"""C51 — Rebase plans replay exactly the branch's own revisions onto the new base.

One run = one generated DAG history in a shared 2a repository on a simulated store (common
trunk, an upstream branch, 'my' branch forked from the trunk, a side line; my branch and
upstream may merge the side line, my branch may merge upstream), one seeded choice of
(stop, onto, start, skip_full_merged, revid generator), the plan computed exactly the way
`brz rebase` computes it (find_difference -> generate_simple_plan), a transpose plan
(generate_transpose_plan) for a seeded replacement, marshalling round trips (pure and
through RebaseState1 on a lightweight checkout whose control files go through the seam),
and one execution of `rebase()` with the real CommitBuilderRevisionRewriter: first
uninterrupted (new revids ...'a), then with a crash or injected transport error at a seeded
store operation (new revids ...'b), resumed by a fresh process from the stored plan; both
results are compared revision by revision."""

import os

from simkit import world
from simkit.sim import SimCrash

from . import gitsim, storesim
from .storesim import MHist, replay_model

PROPERTY = "C51"
LEVEL = "exploration"
RULE = (
    "one case = one seeded (DAG history with merges, stop/onto/start choice, skip_full_merged, revid generator, "
    "transpose replacement, fault kind and store-op position inside write_plan+rebase) together with its enumeration of "
    "crash-before / crash-after / error / torn points over the storage ops of RebaseState1.write_plan and remove_plan "
    "(every op on the plan file, a seeded sample of the lock/format ops in the quick tier, all in thorough); non-trivial = the simple plan "
    "rewrites at least two revisions or a merge, and - when a fault is planned - it fired before the rebase finished "
    "and the rebase was resumed from the stored plan; distinct = distinct event-log digests of such runs"
)
COMPONENTS = {
    "real": ["breezy.plugins.rewrite.rebase: generate_simple_plan, generate_transpose_plan, marshall/unmarshall_rebase_plan, RebaseState1, rebase_todo, rebase(), CommitBuilderRevisionRewriter, regenerate_default_revid", "vcsgraph Graph.find_difference/heads/iter_topo_order on the real repository graph", "2a pack repository commit builder (write groups) for the replayed revisions", "WorkingTree6 control files (format feature flags, rebase-plan) of a lightweight checkout"],
    "simulated": ["disk of the shared repository and branches (SimTransport over memory transport)", "control files of the checkout (SimTransport over the local transport)", "crash / transport error at the k-th mutating store op", "clock of breezy.lockdir", "fresh process after the fault"],
    "stub": ["UI", "the plan is computed by the same lines as cmd_rebase.run (find_difference, the two early exits, generate_simple_plan) without going through the command object", "replay by CommitBuilderRevisionRewriter (the command's WorkingTreeRevisionRewriter needs a populated working tree and may stop on content conflicts, which is outside the property)"],
}
ASSUMPTIONS = [
    "revision ids contain no whitespace (bzr rejects them); they range over UTF-8, quotes, backslash, %,#=:@ and, for the pure marshalling round trip, arbitrary non-whitespace bytes",
    "with skip_full_merged the plan may leave out merge revisions (>= 2 parents) only; every non-merge revision of the domain must be rewritten",
    "with an explicit start revision the domain must contain every revision of (ancestry(stop) - ancestry(onto)) that descends from start, nothing outside (ancestry(stop) - ancestry(onto)) and no proper ancestor of start; revisions unrelated to start inside that set are 'ignored or rebased' as the docstring allows",
    "a new parent may be an unchanged old revision only if that revision is outside the rewritten domain as defined above (references to ignored revisions are preserved)",
    "CommitBuilderRevisionRewriter (map_ids=True, its only working mode: with map_ids=False wrap_iter_changes calls new_id on a plain tree) requires equal old/new parent counts; when the uninterrupted replay itself refuses the history (parent-count mismatch, inconsistent delta caused by path clashes) the execution part of the run is skipped",
    "after a crash the documented manual step break_lock is applied to repository, branch and checkout",
    "plan file: put_bytes is atomic (old or new content); append/put_na/stream writes may be torn at the crash point; after a crash or a failed write a fresh process must find no plan or the complete plan",
]
ISOLATION = "thread"  # runs are well under a second; all state (stores, scratch tree, caches) is rebuilt per run
STEP_CAP = 120000


def warm():
    storesim.warm()
    gitsim.install_scratch_transport()
    import breezy.plugins.rewrite  # noqa: F401 - registers the rebase-v1 feature
    from breezy.plugins.rewrite import rebase as rb  # noqa: F401

    global _warmed
    if _warmed:
        return
    _warmed = True
    import random
    import shutil
    import tempfile

    from simkit.sim import Sim

    d = tempfile.mkdtemp(prefix="c51warm", dir="/dev/shm")
    old = os.environ.get("VERIF_SCRATCH")
    os.environ["VERIF_SCRATCH"] = d
    try:
        sim = Sim(0)
        plan = generate(random.Random(3), "quick")
        plan.pop("faults", None)
        plan["fault"] = None
        try:
            execute(sim, plan)
        except Exception:  # noqa: BLE001 - warm-up only
            pass
    finally:
        if old is None:
            os.environ.pop("VERIF_SCRATCH", None)
        else:
            os.environ["VERIF_SCRATCH"] = old
        shutil.rmtree(d, ignore_errors=True)
        world.reset_stores()


_warmed = False


def config(tier):
    if tier == "thorough":
        return {"budget_s": 600, "run_timeout": 120, "selftest": 48}
    return {"budget_s": 45, "run_timeout": 120, "selftest": 16}


# -- generation ------------------------------------------------------------------------------

TAG_STYLES = [
    {"c": "c", "x": "x", "u": "u", "m": "m", "alt": "alt"},
    {"c": "c", "x": "x", "u": "u", "m": "m", "alt": "alt"},
    {"c": "c\u00e9@h:1", "x": "x%,#=", "u": "u\U0001f600", "m": "m'\"\\", "alt": "alt;&"},
    {"c": "trunk.1", "x": "x+side", "u": "up~stream", "m": "my{feature}", "alt": "alt|x"},
]


def gen_line(rng, mh, base, n, tag, prefix, merge_from=None):
    """n revisions `tag-1..n` on top of `base` (None = new root).  New files get names that
    start with `prefix` (one prefix per line of development, so that lines never clash on
    a path); a revision adds files, modifies any file it sees, and renames / unversions
    only files of its own line.  With merge_from some revisions become merges (the tree of
    a merge is its first parent's tree plus its own actions, as in storesim).  Pure."""
    specs = []
    prev = base
    for i in range(1, n + 1):
        rid = f"{tag}-{i}"
        parents = [prev] if prev else []
        if merge_from and prev and rng.random() < 0.35:
            cand = [m for m in merge_from if m not in mh.ancestry(prev)]
            if cand:
                parents.append(rng.choice(cand))
        tree = dict(mh.tree(prev)) if prev else {}
        actions = []
        if "" not in tree:
            actions.append(["add", "", storesim.ROOT_ID, "directory", None])
            tree[""] = [storesim.ROOT_ID, "directory", None]
        touched = set()
        for _ in range(rng.choice([1, 1, 2, 2, 3])):
            files = sorted(p for p, v in tree.items() if v[1] == "file" and p not in touched)
            own = [p for p in files if p.rsplit("/", 1)[-1].startswith(prefix)]
            dirs = sorted(p for p, v in tree.items() if v[1] == "directory" and (p == "" or p.rsplit("/", 1)[-1].startswith(prefix)))
            r = rng.random()
            if r < 0.45 or not files:
                d = rng.choice(dirs)
                if d.count("/") >= 1:
                    d = ""
                mh.nfid += 1
                name = f"{prefix}{mh.nfid}"
                path = f"{d}/{name}" if d else name
                fid = f"{rid}-f{mh.nfid}"
                if rng.random() < 0.2:
                    actions.append(["add", path, fid, "directory", None])
                    tree[path] = [fid, "directory", None]
                else:
                    c = storesim._content(rng, rid)
                    actions.append(["add", path, fid, "file", c])
                    tree[path] = [fid, "file", c]
                touched.add(path)
            elif r < 0.8:
                p = rng.choice(files)
                c = storesim._content(rng, rid)
                if c == tree[p][2]:
                    c += "x\n"
                actions.append(["modify", p, c])
                tree[p] = [tree[p][0], "file", c]
                touched.add(p)
            elif r < 0.9 and own:
                p = rng.choice(own)
                actions.append(["unversion", p])
                tree.pop(p)
                touched.add(p)
            elif own:
                p = rng.choice(own)
                mh.nfid += 1
                new = f"{prefix}{mh.nfid}"
                actions.append(["rename", p, new])
                tree[new] = tree.pop(p)
                touched.update((p, new))
        if len(actions) == (1 if not prev else 0):
            mh.nfid += 1
            name = f"{prefix}{mh.nfid}"
            actions.append(["add", name, f"{rid}-f{mh.nfid}", "file", storesim._content(rng, rid)])
        spec = {"id": rid, "parents": [p for p in parents if p], "actions": actions, "ts": 1_500_000_000 + len(mh.revs) * 10, "msg": f"commit {rid}"}
        mh.add(spec)
        specs.append(spec)
        prev = rid
    return specs


def generate(rng, tier):
    tags = rng.choice(TAG_STYLES)
    mh = MHist()
    n0 = rng.randint(1, 3)
    c = gen_line(rng, mh, None, n0, tags["c"], "c")
    cids = [s["id"] for s in c]
    unrelated = rng.random() < 0.03
    x = gen_line(rng, mh, cids[0], rng.choice([0, 0, 1, 2]), tags["x"], "x")
    xids = [s["id"] for s in x]
    nu = rng.choice([0, 1, 1, 2, 2, 3, 3, 4])
    u = gen_line(rng, mh, cids[-1], nu, tags["u"], "u", merge_from=xids)
    uids = [s["id"] for s in u]
    fork = None if unrelated else rng.choice(cids)
    nm = rng.choice([1, 2, 2, 3, 3, 4, 5, 6])
    # my branch merges the side line, older upstream revisions, sometimes the upstream tip
    mf = xids + uids[:-1] + (uids[-1:] if rng.random() < 0.15 else [])
    m = gen_line(rng, mh, fork, nm, tags["m"], "m", merge_from=mf if not unrelated else None)
    mids = [s["id"] for s in m]
    specs = c + x + u + m
    up_tip = uids[-1] if uids else cids[-1]
    # a replacement revision for the transpose plan: same left parent as the replaced one
    reach = mh.ancestry(mids[-1]) | mh.ancestry(up_tip)
    pool = [s for s in specs if s["parents"] and s["id"] in reach]
    alt = None
    if pool:
        victim = rng.choice(pool)
        alt_spec = gen_line(rng, mh, victim["parents"][0], 1, tags["alt"], "alt")[0]
        alt = {"old": victim["id"], "spec": alt_spec}
    plan = {
        "specs": specs,
        "mine": mids,
        "up_tip": up_tip,
        "stop": rng.choice([None, None, None, rng.randrange(len(mids))]),
        "onto": rng.choice([None, None, None, None, rng.randrange(1000)]),
        "start": rng.choice([None, None, None, None, rng.randrange(1000)]),
        "skip": rng.random() < 0.5,
        "revid_gen": rng.choice(["suffix", "suffix", "default"]),
        "alt": alt,
        "exec": rng.choice(["simple", "simple", "simple", "transpose"]),
        "unusual": rng.randrange(1 << 30),
        "fault": None,
    }
    if rng.random() < 0.7:
        plan["fault"] = {"kind": rng.choice(["crash", "crash", "err_before"]), "frac": rng.random(), "applied": rng.random() < 0.5, "err": rng.choice(["transport", "enospc"])}
    return plan


# -- helpers ---------------------------------------------------------------------------------


def tree_of(repo, revid):
    """path -> [file_id, kind, text]"""
    t = repo.revision_tree(revid)
    out = {}
    for path, ie in t.iter_entries_by_dir():
        out[path] = [ie.file_id.decode(), ie.kind, t.get_file_text(path).decode() if ie.kind == "file" else None]
    return out


UNUSUAL = [b"\xc3\xa9", b":", b"@h", b"%20", b"#", b"=", b",", b"'", b'"', b"\\", b"\x7f", b"\xff\xfe", b"\x00", b"\xf0\x9f\x98\x80", b"-", b"."]


def execute(sim, plan):
    import random

    from breezy import errors
    from breezy.errors import UnrelatedBranches
    from breezy.plugins.rewrite import rebase as rb
    from breezy.workingtree import WorkingTree

    warm()
    sim.disarm()
    world.setup_sim(sim)
    world.install_clock(sim, ["breezy.lockdir"])
    specs = plan["specs"]
    mh = replay_model(specs)
    if plan["alt"]:
        mh.add(plan["alt"]["spec"])
    url = world.new_store("rb")
    storesim.make_shared_repo(url, "2a")
    mine = storesim.make_branch(url + "mine", "2a")
    up = storesim.make_branch(url + "up", "2a")
    storesim.commit_specs(mine, specs + ([plan["alt"]["spec"]] if plan["alt"] else []))
    mine_tip = plan["mine"][-1]
    mine.generate_revision_history(mine_tip.encode())
    up.generate_revision_history(plan["up_tip"].encode())
    wt_url = "simx+file://" + os.path.join(os.environ["VERIF_SCRATCH"], "wt")
    mine.create_checkout(wt_url, revision_id=b"null:", lightweight=True)
    del mine, up
    storesim.clear_caches()

    def fresh():
        storesim.clear_caches()
        wt = WorkingTree.open(wt_url)
        return wt, wt.branch, wt.branch.repository

    fkind = plan["fault"]["kind"] if plan["fault"] else "none"

    def fail(oracle, site, detail):
        sim.fail(oracle, [oracle, fkind if oracle in ("resume", "stored_plan", "result") else "none", site], detail)

    # -- the command's computation ------------------------------------------------------------
    wt, branch, repo = fresh()
    stop = plan["mine"][plan["stop"]] if plan["stop"] is not None else mine_tip
    up_anc = sorted(mh.ancestry(plan["up_tip"]))
    onto = up_anc[plan["onto"] % len(up_anc)] if plan["onto"] is not None else plan["up_tip"]
    D = mh.ancestry(stop) - mh.ancestry(onto)
    start = None
    if plan["start"] is not None and D:
        start = sorted(D)[plan["start"] % len(D)]
    skip = plan["skip"]
    suffix = {"A": b"'a", "B": b"'b"}

    def make_gen(which):
        if plan["revid_gen"] == "default":
            return lambda old, parents: rb.regenerate_default_revid(repo, old)
        return lambda old, parents: old + suffix[which]

    def compute(which):
        """cmd_rebase.run, from 'stop_revid is None' to generate_simple_plan."""
        stop_revid, onto_revid = stop.encode(), onto.encode()
        start_revid = start.encode() if start else None
        repo_graph = repo.get_graph()
        our_new, onto_unique = repo_graph.find_difference(stop_revid, onto_revid)
        if start_revid is None:
            if not onto_unique:
                return "nothing", our_new, None
            if not our_new:
                return "pull", our_new, None
        return "plan", our_new, rb.generate_simple_plan(our_new, start_revid, stop_revid, onto_revid, repo_graph, make_gen(which), skip)

    sim.event("case", stop, onto, start, skip, plan["revid_gen"], plan["exec"], fkind)
    related = bool(mh.ancestry(stop) & mh.ancestry(onto))
    with repo.lock_read():
        try:
            what, our_new, pa = compute("A")
        except UnrelatedBranches:
            if related:
                fail("plan_raises", "UnrelatedBranches-for-related", f"UnrelatedBranches although {stop} and {onto} share {sorted(mh.ancestry(stop) & mh.ancestry(onto))[:3]}")
            sim.probe("unrelated_refused")
            return
        except Exception as e:  # noqa: BLE001
            import traceback

            fail("plan_raises", f"{type(e).__name__}", f"computing the plan for stop={stop} onto={onto} start={start} skip={skip} raised {type(e).__name__}: {e}\n{traceback.format_exc()[-1200:]}")
        got_new = {r.decode() for r in our_new}
        if got_new != D:
            fail("domain", "find_difference", f"find_difference({stop},{onto}) = {sorted(got_new)}, model ancestry difference {sorted(D)}")
        if what != "plan":
            want = "nothing" if onto in mh.ancestry(stop) else "pull"
            if what != want:
                fail("domain", "early-exit", f"command path '{what}' but the model says '{want}' (D={sorted(D)})")
            sim.probe("no_plan_" + what)
            sim.state_seen(("noplan", what))
            return
        if not related and start is None:
            fail("plan_raises", "unrelated-accepted", f"a plan was produced for unrelated {stop} and {onto}")
        _, _, pb2 = compute("B")
        # the plan executed second: the same plan with other new ids
        gen_b = make_gen("B")
        a2b = {v[0]: gen_b(k, v[1]) for k, v in pa.items()}
        pb = {k: (a2b[v[0]], tuple(a2b.get(p, p) for p in v[1])) for k, v in pa.items()}
    check_plan(sim, fail, mh, pa, D, stop, onto, start, skip, "simple")
    # computed twice: the same plan modulo the generated ids and the (unspecified) entry order.
    # (With an explicit start the slice of the arbitrary topological order decides which
    # unrelated revisions are included, so two computations may legitimately differ.)
    if plan["revid_gen"] == "suffix" and start is None and pb2 != pb:
        fail("plan", "not-deterministic", f"two computations of the plan differ: {pa} vs {pb2}")
    if pb2 is not None and set(pb2) != set(pa):
        sim.probe("start_slice_depends_on_topo_tiebreak")
    merges_in_plan = sum(1 for k in pa if len(mh.revs[k.decode()]["parents"]) > 1)
    sim.probe("plan_entries", len(pa))
    if merges_in_plan:
        sim.probe("plan_has_merge")
    if set(pa) != {d.encode() for d in D}:
        sim.probe("plan_skips_revisions")
    plan_nontrivial = len(pa) >= 2 or merges_in_plan > 0

    # -- transpose plan -----------------------------------------------------------------------
    pt = None
    if plan["alt"]:
        pt = transpose(sim, fail, mh, repo, plan, mine_tip, rb)

    # -- marshalling --------------------------------------------------------------------------
    last_info = branch.last_revision_info()
    for label, p in (("simple", pa), ("transpose", pt)):
        if p is None:
            continue
        text = rb.marshall_rebase_plan(last_info, p)
        back = rb.unmarshall_rebase_plan(text)
        if back != (last_info, p):
            fail("marshal", f"{label}:roundtrip", f"unmarshall(marshall(plan)) differs: {back} vs {(last_info, p)}")
        if list(back[1]) != list(p):
            fail("marshal", f"{label}:order", f"entry order changed: {list(back[1])} vs {list(p)}")
    # unusual revids (pure)
    urng = random.Random(plan["unusual"])
    names = {}

    def odd(r):
        if r not in names:
            names[r] = r + b"".join(urng.choice(UNUSUAL) for _ in range(urng.randint(1, 3))) + b"%d" % len(names)
        return names[r]

    podd = {odd(k): (odd(v[0]), tuple(odd(q) for q in v[1])) for k, v in pa.items()}
    info_odd = (last_info[0], odd(last_info[1]))
    try:
        back = rb.unmarshall_rebase_plan(rb.marshall_rebase_plan(info_odd, podd))
    except Exception as e:  # noqa: BLE001
        fail("marshal", f"unusual:raises:{type(e).__name__}", f"round trip of a plan with unusual revids raised {type(e).__name__}: {e}")
    if back != (info_odd, podd):
        bad = [k for k in podd if back[1].get(k) != podd[k]][:2]
        fail("marshal", "unusual:roundtrip", f"plan with unusual revision ids does not survive marshalling: entries {bad}; last_info {back[0]} vs {info_odd}")
    sim.probe("marshal_roundtrips")

    # -- the plan file under faults -------------------------------------------------------------
    del wt, branch
    plan_file_faults(sim, plan, fresh, rb, pa, last_info)
    wt, branch, repo = fresh()

    # -- execution ----------------------------------------------------------------------------
    if plan["exec"] == "transpose" and pt:
        gen_t = lambda which: {k: (v[0][:-2] + suffix[which], tuple((q[:-2] + suffix[which]) if q.endswith(b"'t") else q for q in v[1])) for k, v in pt.items()}  # noqa: E731
        exec_a, exec_b = gen_t("A"), gen_t("B")
    else:
        exec_a, exec_b = pa, pb
    del wt, branch
    existing = {r.decode() for r in repo.all_revision_ids()}

    def run_rebase(repo_, rmap):
        with repo_.lock_write():
            rb.rebase(repo_, rmap, rb.CommitBuilderRevisionRewriter(repo_))

    sim.arm([])
    try:
        run_rebase(repo, exec_a)
    except Exception as e:  # noqa: BLE001
        # the history itself cannot be replayed by delta (parent counts, path clashes): not our subject
        if sim.violation is not None:
            raise
        sim.event("replay-inapplicable", type(e).__name__)
        sim.probe("replay_inapplicable")
        sim.nontrivial = plan_nontrivial and plan["fault"] is None
        sim.state_seen(("inapplicable", len(pa), skip, start is not None))
        return
    n_a = sim.current().nmut
    sim.event("uninterrupted", len(exec_a), n_a)
    wt, branch, repo = fresh()
    with repo.lock_read():
        res_a = result_of(sim, fail, repo, exec_a, "uninterrupted")
    sim.probe("rebase_uninterrupted_ok")

    state = rb.RebaseState1(wt)
    outcome = "completed"
    if plan["fault"]:
        f = plan["fault"]
        at = 1 + int(f["frac"] * (n_a + 14))
        sim.arm([{"kind": f["kind"], "at": at, "count": "mut", "applied": f["applied"], "err": f["err"]}])
    try:
        state.write_plan(exec_b)
        run_rebase(repo, exec_b)
        state.remove_plan()
    except SimCrash:
        outcome = "crash"
    except Exception as e:  # noqa: BLE001
        sim.disarm()
        if sim.violation is not None:
            raise
        if not sim.faults_fired:
            import traceback

            fail("result", f"second-run-raises:{type(e).__name__}", f"the same rebase with other new ids failed without a fault: {type(e).__name__}: {e}\n{traceback.format_exc()[-1200:]}")
        outcome = "error"
        sim.event("rebase-failed", type(e).__name__)
    sim.disarm()
    if sim.current().dead:
        outcome = "crash"
    sim.probe("second_run_" + outcome)
    resumed = False
    if sim.faults_fired:
        del wt, branch, repo, state
        sim.restart_main()
        wt, branch, repo = fresh()
        for obj in (repo, branch, wt):
            try:
                obj.break_lock()
            except Exception as e:  # noqa: BLE001
                fail("resume", "break_lock", f"break_lock failed after the fault: {type(e).__name__}: {e}")
        wt, branch, repo = fresh()
        state = rb.RebaseState1(wt)
        try:
            has = state.has_plan()
        except Exception as e:  # noqa: BLE001
            fail("stored_plan", f"has_plan-raises:{type(e).__name__}", f"has_plan raised after {fkind}: {type(e).__name__}: {e}")
        if has:
            try:
                info, stored = state.read_plan()
            except Exception as e:  # noqa: BLE001
                fail("stored_plan", f"read_plan-raises:{type(e).__name__}", f"the stored plan cannot be read after {fkind}: {type(e).__name__}: {e}")
            if stored != exec_b or list(stored) != list(exec_b) or info != last_info:
                fail("stored_plan", "differs", f"plan read back after {fkind} differs from the plan written: {info} {stored} vs {last_info} {exec_b}")
            with repo.lock_read():
                todo = set(rb.rebase_todo(repo, stored))
                want_todo = {k for k, v in stored.items() if not repo.has_revision(v[0])}
            if todo != want_todo:
                fail("resume", "rebase_todo", f"rebase_todo lists {sorted(todo)}, revisions whose new id is absent: {sorted(want_todo)}")
            sim.probe("resumed_with_%d_left" % min(len(todo), 3))
            resumed = bool(todo) and len(todo) < len(stored) or outcome != "completed"
        else:
            # the fault hit before the plan was stored (or after it was removed): `brz rebase` again
            sim.probe("no_stored_plan_after_fault")
            stored = exec_b
            with repo.lock_read():
                left = [k for k, v in stored.items() if not repo.has_revision(v[0])]
            if outcome == "completed" or not left:
                stored = None
            else:
                if len(left) != len(exec_b):
                    fail("stored_plan", "lost-midway", f"no stored plan although the rebase was under way ({len(exec_b) - len(left)} of {len(exec_b)} replayed)")
                state.write_plan(stored)
        if stored is not None:
            try:
                run_rebase(repo, stored)
                state.remove_plan()
            except Exception as e:  # noqa: BLE001
                if sim.violation is not None:
                    raise
                import traceback

                fail("resume", f"raises:{type(e).__name__}", f"resuming the rebase from the stored plan failed: {type(e).__name__}: {e}\n{traceback.format_exc()[-1200:]}")
            if state.has_plan():
                fail("resume", "plan-not-removed", "has_plan() is still true after the resumed rebase finished and remove_plan()")
        wt, branch, repo = fresh()
    elif outcome != "completed":
        raise AssertionError("no fault fired but the run did not complete")
    with repo.lock_read():
        res_b = result_of(sim, fail, repo, exec_b, "resumed" if sim.faults_fired else "second")
        listed = {r.decode() for r in repo.all_revision_ids()}
    # same result as uninterrupted (modulo the generated ids)
    ren = {exec_a[k][0].decode(): exec_b[k][0].decode() for k in exec_a}
    for k in exec_a:
        a, b = res_a[k], res_b[k]
        pa_m = [ren.get(p, p) for p in a["parents"]]
        if pa_m != b["parents"]:
            fail("result", "parents-differ", f"{k!r}: parents after resume {b['parents']} vs uninterrupted {pa_m}")
        ta = {p: [v[0], v[1], v[2]] for p, v in a["tree"].items()}
        if ta != b["tree"]:
            diff = sorted(set(map(str, ta.items())) ^ set(map(str, b["tree"].items())))[:4]
            fail("result", "trees-differ", f"{k!r}: tree of the new revision differs between resumed and uninterrupted rebase: {diff}")
        if a["meta"] != b["meta"]:
            fail("result", "metadata-differs", f"{k!r}: {a['meta']} vs {b['meta']}")
    want_listed = existing | set(ren) | set(ren.values())
    if listed != want_listed:
        fail("result", "revision-set", f"revisions listed at the end: unexpected {sorted(listed - want_listed)}, missing {sorted(want_listed - listed)}")
    prob = storesim.check_clean(repo)
    if prob:
        fail("result", "check", prob)
    sim.nontrivial = plan_nontrivial and (plan["fault"] is None or (bool(sim.faults_fired) and (resumed or outcome != "completed")))
    sim.state_seen((len(pa), merges_in_plan, skip, start is not None, plan["exec"], fkind, outcome, resumed))


def result_of(sim, fail, repo, rmap, label):
    """Every plan entry exists with the planned parents; returns per old revid the new
    revision's parents, tree and copied metadata."""
    out = {}
    for old, (new, parents) in rmap.items():
        try:
            rev = repo.get_revision(new)
            orev = repo.get_revision(old)
            tree = tree_of(repo, new)
        except Exception as e:  # noqa: BLE001
            fail("result", f"{label}:new-revision-unreadable", f"{label}: new revision {new!r} of {old!r}: {type(e).__name__}: {e}")
        if tuple(rev.parent_ids) != tuple(parents):
            fail("result", f"{label}:parents-not-as-planned", f"{label}: {new!r} has parents {rev.parent_ids}, the plan says {parents}")
        if rev.properties.get("rebase-of") != old.decode("utf-8"):
            fail("result", f"{label}:rebase-of", f"{label}: {new!r} rebase-of={rev.properties.get('rebase-of')!r}, expected {old!r}")
        meta = [rev.message, rev.committer, rev.timestamp, rev.timezone]
        if meta != [orev.message, orev.committer, orev.timestamp, orev.timezone]:
            fail("result", f"{label}:metadata", f"{label}: {new!r} metadata {meta} differs from the original's")
        out[old] = {"parents": [p.decode() for p in rev.parent_ids], "tree": tree, "meta": meta}
    return out


def check_plan(sim, fail, mh, pmap, D, stop, onto, start, skip, label):
    """Domain, topological order, uniqueness of a simple plan."""
    dom = [k.decode() for k in pmap]
    domset = set(dom)
    if len(domset) != len(dom):
        fail("domain", "duplicate-entry", f"plan lists a revision twice: {dom}")
    outside = domset - D
    if outside:
        in_onto = sorted(outside & mh.ancestry(onto))
        fail("domain", "rewrites-revision-already-in-onto" if in_onto else "rewrites-foreign-revision", f"plan rewrites {sorted(outside)} which are not in ancestry({stop}) - ancestry({onto}) = {sorted(D)}")
    if start is None:
        must = set(D)
    else:
        must = {r for r in D if start in mh.ancestry(r)}
        below = [r for r in dom if r != start and r in mh.ancestry(start)]
        if below:
            fail("domain", "rewrites-ancestor-of-start", f"plan rewrites {below}, proper ancestors of start {start}")
    missing = must - domset
    if missing:
        nonmerge = sorted(r for r in missing if len(mh.revs[r]["parents"]) < 2)
        if not skip:
            fail("domain", "revision-not-rewritten", f"plan (skip_full_merged=False) leaves out {sorted(missing)} of the branch's own revisions {sorted(must)}")
        if nonmerge:
            fail("domain", "non-merge-skipped", f"plan (skip_full_merged=True) leaves out non-merge revisions {nonmerge}")
    # topological: new parents are onto, earlier new ids, or unchanged revisions outside the domain
    new_of = {}
    seen_new = set()
    for old in dom:
        new, parents = pmap[old.encode()]
        new = new.decode()
        if new in seen_new or new in mh.revs:
            fail("unique", "new-revid-reused", f"new revision id {new!r} of {old} is already used")
        seen_new.add(new)
        if not parents:
            fail("topological", "no-parents", f"{old} -> {new} has no parents at all")
        for p in (q.decode() for q in parents):
            if p == onto or p in new_of.values():
                continue
            if p in seen_new:
                continue
            later = [o for o in dom if pmap[o.encode()][0].decode() == p]
            if later:
                fail("topological", "parent-rewritten-later", f"{old} -> {new} has new parent {p}, the new id of {later[0]} which comes later in the plan")
            if p in domset:
                fail("topological", "parent-is-old-id-of-rewritten-revision", f"{old} -> {new} keeps parent {p} although the plan rewrites {p} to {pmap[p.encode()][0]!r}")
            if p in must:
                site = "parent-is-skipped-merge" if len(mh.revs[p]["parents"]) > 1 else "parent-is-unrewritten-own-revision"
                fail("topological", site, f"{old} -> {new} has parent {p}: an old revision of the branch's own history that the plan does not rewrite (new parents {[q.decode() for q in parents]}, onto {onto})")
            if p not in mh.revs:
                fail("topological", "unknown-parent", f"{old} -> {new} has unknown parent {p}")
        new_of[old] = new
    if stop in must and stop not in domset and not (skip and len(mh.revs[stop]["parents"]) > 1):
        fail("domain", "stop-not-rewritten", f"stop revision {stop} is not rewritten")


def transpose(sim, fail, mh, repo, plan, mine_tip, rb):
    """generate_transpose_plan for {old: alt}: every descendant of old (inside the given
    ancestry) is rewritten with old replaced by alt / rewritten parents by their new ids."""
    old = plan["alt"]["old"]
    alt = plan["alt"]["spec"]["id"]
    tips = [mine_tip, plan["up_tip"]]
    with repo.lock_read():
        graph = repo.get_graph()
        ancestry = list(graph.iter_ancestry([t.encode() for t in tips]))
        try:
            pt = rb.generate_transpose_plan(ancestry, {old.encode(): alt.encode()}, graph, lambda o, ps: o + b"'t")
        except Exception as e:  # noqa: BLE001
            import traceback

            fail("plan_raises", f"transpose:{type(e).__name__}", f"generate_transpose_plan({old}->{alt}) raised {type(e).__name__}: {e}\n{traceback.format_exc()[-1000:]}")
    anc = set()
    for t in tips:
        anc |= mh.ancestry(t)
    want = {}
    desc = {r for r in anc if old in mh.ancestry(r) and r != old}
    for r in desc:
        ps = []
        for p in mh.revs[r]["parents"]:
            ps.append(alt if p == old else (p + "'t") if p in desc else p)
        want[r] = (r + "'t", tuple(ps))
    got = {k.decode(): (v[0].decode(), tuple(q.decode() for q in v[1])) for k, v in pt.items()}
    if set(got) != set(want):
        fail("domain", "transpose:domain", f"transpose plan for {old}->{alt} rewrites {sorted(got)}, descendants of {old} are {sorted(want)}")
    for r in sorted(want):
        if got[r] != want[r]:
            fail("topological", "transpose:parents", f"transpose plan entry {r}: {got[r]} expected {want[r]}")
    sim.probe("transpose_entries", len(pt))
    return pt


def shrink_candidates(plan):
    import copy

    if plan.get("fault"):
        p = copy.deepcopy(plan)
        p["fault"] = None
        yield p
    if plan.get("exec") == "transpose":
        p = copy.deepcopy(plan)
        p["exec"] = "simple"
        yield p


READ_OPS = ("get", "has", "stat", "list_dir", "readv", "iter_files_recursive", "stream_close", "readlink")
TEARABLE = ("put_na", "append", "stream_write")


def plan_file_faults(sim, plan, fresh, rb, rmap, last_info):
    """Crash / error points over the storage operations of RebaseState1.write_plan and
    remove_plan.  A dry pass lists the mutating ops of each; then every op that touches
    the plan file - and a seeded sample of the others (all of them in the thorough tier)
    - is hit with: crash before the op, crash after the op, an injected error before the
    op and, for tearable writes, a torn write followed by a crash.  After each, a fresh
    process (break_lock) must see NO plan or the COMPLETE plan: has_plan() false, or
    read_plan() == (last revision info, all N entries in order) - never a parseable part."""
    import random

    want = (last_info, rmap)

    def observe(fn):
        ops = []

        def mon(s, actor, phase, op, path, extra):
            if phase == "before" and op not in READ_OPS:
                ops.append((op, path))

        sim.monitors.append(mon)
        sim.arm([])
        try:
            fn()
        finally:
            sim.monitors.remove(mon)
        return ops

    def state_now():
        wt, _branch, _repo = fresh()
        return wt, rb.RebaseState1(wt)

    def judge(phase, label, fkind):
        def bad(site, detail):
            sim.fail("stored_plan", ["stored_plan", fkind, f"{phase}:{site}"], f"[{label}] {detail}")

        try:
            wt, st = state_now()
        except Exception as e:  # noqa: BLE001
            bad(f"checkout-unopenable:{type(e).__name__}", f"the checkout cannot be opened after the fault: {type(e).__name__}: {e}")
        for obj in (wt.branch, wt):
            try:
                obj.break_lock()
            except Exception as e:  # noqa: BLE001
                bad("break_lock", f"break_lock failed: {type(e).__name__}: {e}")
        wt, st = state_now()
        try:
            has = st.has_plan()
            got = st.read_plan() if has else None
        except Exception as e:  # noqa: BLE001
            bad(f"unreadable-plan:{type(e).__name__}", f"has_plan/read_plan raised {type(e).__name__}: {e}")
        if has:
            if got != want or list(got[1]) != list(rmap):
                n = len(got[1]) if isinstance(got, tuple) else "?"
                site = "partial-plan" if isinstance(got, tuple) and got[0] == last_info and all(got[1].get(k) == v for k, v in got[1].items() if k in rmap) and len(got[1]) < len(rmap) else "wrong-plan"
                bad(site, f"a fresh process finds a plan that is neither absent nor complete: {n} of {len(rmap)} entries, last-revision line {got[0]!r} (expected {last_info!r}); read_plan() raised no error")
            sim.probe(f"plan_after_{phase}_fault_complete")
        else:
            sim.probe(f"plan_after_{phase}_fault_absent")
        return st

    wt, st = state_now()
    w_ops = observe(lambda: st.write_plan(rmap))
    wt, st = state_now()
    if not st.has_plan() or st.read_plan() != want:
        sim.fail("stored_plan", ["stored_plan", "none", "write_plan:roundtrip"], f"plan read back through a fresh checkout object differs: {st.read_plan() if st.has_plan() else None} vs {want}")
    r_ops = observe(st.remove_plan)
    wt, st = state_now()
    if st.has_plan():
        sim.fail("stored_plan", ["stored_plan", "none", "remove_plan:still-there"], "has_plan() is true after remove_plan()")
    sim.event("plan-file-ops", len(w_ops), len(r_ops))
    points = []
    for phase, ops in (("write_plan", w_ops), ("remove_plan", r_ops)):
        for k, (op, path) in enumerate(ops, 1):
            onfile = path.endswith("/" + rb.REBASE_PLAN_FILENAME)
            variants = [("crash", False, None), ("crash", True, None), ("err_before", False, None)]
            if op in TEARABLE:
                variants += [("crash", True, 0.0), ("crash", True, 0.5)]
            for v in variants:
                points.append((onfile, phase, k, op, v))
    aimed = [pt for pt in points if pt[0]]
    rest = [pt for pt in points if not pt[0]]
    if getattr(sim, "tier", "quick") != "thorough":
        random.Random(plan["unusual"]).shuffle(rest)
        rest = rest[:8]
    chosen = sorted(aimed + rest, key=lambda pt: (pt[1], pt[2], str(pt[4])))
    for _onfile, phase, k, op, (fkind, applied, torn) in chosen:
        wt, st = state_now()
        if phase == "remove_plan":
            st.write_plan(rmap)
            wt, st = state_now()
        fault = {"kind": fkind, "at": k, "count": "mut", "applied": applied, "err": "enospc" if applied is False and k % 2 else "transport"}
        if torn is not None:
            fault["torn"] = torn
        label = f"{phase} op {k} ({op}) {fkind}{'+applied' if applied else ''}{'' if torn is None else f'+torn{torn}'}"
        sim.arm([fault])
        crashed = False
        try:
            if phase == "write_plan":
                st.write_plan(rmap)
            else:
                st.remove_plan()
        except SimCrash:
            crashed = True
        except Exception as e:  # noqa: BLE001 - the write may fail under an injected error
            if not sim.faults_fired.get(fkind) or sim.violation is not None:
                raise
            sim.event("plan-op-failed", phase, k, type(e).__name__)
        sim.disarm()
        if sim.current().dead:
            crashed = True
        if crashed:
            sim.restart_main()
        sim.notes["evaluations"] = sim.notes.get("evaluations", 1) + 1
        if onfile_probe(op, _onfile):
            sim.probe("fault_at_plan_file_op")
        st = judge(phase, label, fkind)
        # and the state is usable again: back to 'no plan' for the next point
        try:
            st.remove_plan()
        except Exception as e:  # noqa: BLE001
            sim.fail("stored_plan", ["stored_plan", fkind, f"{phase}:unusable-afterwards"], f"[{label}] remove_plan after recovery failed: {type(e).__name__}: {e}")
    sim.probe("plan_file_fault_points", len(chosen))


def onfile_probe(op, onfile):
    return bool(onfile)
