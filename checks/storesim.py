"""storesim: shared pieces of the repository world (C02-C08, C21, C22, C25, C40, C41 ...).

Real: the whole commit / fetch / pack / autopack pipeline of breezy on the real
bzrformats pack + index code.  Simulated: the disk (SimTransport over the memory
transport), process scheduling and crashes, the clock of lockdir.

Pure part (no breezy imports): `MHist`, a model of a revision DAG with a tree per
revision, and the history generator `gen_chain`."""

import hashlib

from simkit import world

FORMATS = ["2a", "pack-0.92"]
COMMITTER = "Sim User <sim@example.com>"
ROOT_ID = "TREE_ROOT"

# ------------------------------------------------------------------------------------
# model


class MHist:
    """revid -> {"parents": [...], "tree": {path: [file_id, kind, content]}, "ts": int,
    "msg": str}.  Trees of merge revisions are first-parent tree + the listed actions
    (that is also how the real revision is built)."""

    def __init__(self):
        self.revs = {}
        self.nfid = 0

    def tree(self, rid):
        return self.revs[rid]["tree"] if rid else {}

    def ancestry(self, rid):
        seen = set()
        todo = [rid]
        while todo:
            r = todo.pop()
            if r is None or r in seen or r not in self.revs:
                continue
            seen.add(r)
            todo.extend(self.revs[r]["parents"])
        return seen

    def add(self, spec):
        base = dict(self.tree(spec["parents"][0])) if spec["parents"] else {}
        tree = apply_actions(base, spec["actions"])
        self.revs[spec["id"]] = {"parents": list(spec["parents"]), "tree": tree, "ts": spec["ts"], "msg": spec["msg"]}


def apply_actions(tree, actions):
    tree = dict(tree)
    for act in actions:
        kind = act[0]
        if kind == "add":
            _, path, fid, k, content = act
            tree[path] = [fid, k, content]
        elif kind == "modify":
            _, path, content = act
            tree[path] = [tree[path][0], tree[path][1], content]
        elif kind == "unversion":
            tree.pop(act[1])
        elif kind == "rename":
            _, old, new = act
            moved = {}
            for p in list(tree):
                if p == old or p.startswith(old + "/"):
                    moved[new + p[len(old) :]] = tree.pop(p)
            tree.update(moved)
    return tree


NAMES = ["a", "b", "c", "d", "e", "f"]


def _content(rng, tag):
    n = rng.choice([0, 1, 8, 8, 20, 20, 60, 300, 2500])
    body = "".join(rng.choice("ab\n xyz") for _ in range(n))
    return f"{tag}:{body}\n"


def gen_spec(rng, mh, rid, parents, ts, nchanges=None):
    """One revision on top of parents[0] (None = root revision).  Pure."""
    base = mh.tree(parents[0]) if parents else {}
    tree = dict(base)
    actions = []
    if "" not in tree:
        actions.append(["add", "", ROOT_ID, "directory", None])
        tree[""] = [ROOT_ID, "directory", None]
    k = nchanges if nchanges is not None else rng.choice([1, 1, 1, 2, 2, 3, 4])
    touched = set()
    for _ in range(k):
        files = sorted(p for p, v in tree.items() if v[1] == "file" and p not in touched)
        dirs = sorted(p for p, v in tree.items() if v[1] == "directory")
        r = rng.random()
        if r < 0.45 or not files:
            d = rng.choice(dirs)
            if d.count("/") >= 2:
                d = ""
            name = rng.choice(NAMES)
            path = f"{d}/{name}" if d else name
            if path in tree or any(p.startswith(path + "/") for p in tree):
                continue
            mh.nfid += 1
            fid = f"{rid}-f{mh.nfid}"
            if rng.random() < 0.25:
                actions.append(["add", path, fid, "directory", None])
                tree[path] = [fid, "directory", None]
            else:
                c = _content(rng, rid)
                actions.append(["add", path, fid, "file", c])
                tree[path] = [fid, "file", c]
            touched.add(path)
        elif r < 0.8:
            p = rng.choice(files)
            c = _content(rng, rid)
            if c == tree[p][2]:
                c += "x\n"
            actions.append(["modify", p, c])
            tree[p] = [tree[p][0], "file", c]
            touched.add(p)
        elif r < 0.9:
            p = rng.choice(files)
            actions.append(["unversion", p])
            tree.pop(p)
            touched.add(p)
        else:
            p = rng.choice(files)
            d = rng.choice(dirs)
            if d.count("/") >= 2:
                d = ""
            name = rng.choice(NAMES)
            new = f"{d}/{name}" if d else name
            if new in tree or any(q.startswith(new + "/") for q in tree) or new == p:
                continue
            actions.append(["rename", p, new])
            tree[new] = tree.pop(p)
            touched.update((p, new))
    if not actions and parents:
        # make sure the revision changes something
        mh.nfid += 1
        name = f"z{mh.nfid}"
        c = _content(rng, rid)
        actions.append(["add", name, f"{rid}-f{mh.nfid}", "file", c])
    spec = {"id": rid, "parents": [p for p in parents if p], "actions": actions, "ts": ts, "msg": f"commit {rid}"}
    mh.add(spec)
    return spec


def gen_chain(rng, mh, base, n, tag, ts0=1_500_000_000, merge_from=None):
    """n revisions `tag-1..n` on top of `base`; with merge_from (list of revids) some
    become merges.  Pure."""
    specs = []
    prev = base
    for i in range(1, n + 1):
        rid = f"{tag}-{i}"
        parents = [prev] if prev else []
        if merge_from and prev and rng.random() < 0.3:
            cand = [m for m in merge_from if m not in mh.ancestry(prev)]
            if cand:
                parents.append(rng.choice(cand))
        specs.append(gen_spec(rng, mh, rid, parents, ts0 + len(mh.revs) * 10))
        prev = rid
    return specs


def replay_model(specs):
    mh = MHist()
    for s in specs:
        mh.add(s)
    return mh


# ------------------------------------------------------------------------------------
# real world

_warmed = False


def warm():
    global _warmed
    if _warmed:
        return
    world.quiet_breezy()
    import breezy.lockdir  # noqa: F401
    from breezy import branchbuilder, controldir  # noqa: F401
    from breezy.bzr import groupcompress_repo, knitpack_repo  # noqa: F401
    from simkit.sim import Sim

    install_pins()
    # exercise lazy imports once, pre-fork
    sim = Sim(0)
    world.setup_sim(sim)
    for fmt in FORMATS:
        url = world.new_store("warm" + fmt.replace(".", "").replace("-", ""))
        b = make_branch(url + "b", fmt)
        mh = MHist()
        import random

        specs = gen_chain(random.Random(1), mh, None, 2, "w")
        commit_specs(b, specs)
        r = open_repo(url + "b")
        with r.lock_read():
            readable(r, mh, None)
        check_clean(r)
    world.reset_stores()
    _warmed = True


class _Keyed(tuple):
    """(revision_count, pack) tuple ordered by (count, pack.name): the planner's sort
    otherwise falls back to comparing Pack objects, which is address-dependent."""

    def _k(self):
        return (self[0], self[1].name)

    def __lt__(self, o):
        return self._k() < o._k()

    def __gt__(self, o):
        return self._k() > o._k()

    def __le__(self, o):
        return self._k() <= o._k()

    def __ge__(self, o):
        return self._k() >= o._k()


_pins = {}


def install_pins():
    """Determinism pin + observation point on the autopack planner.  The planner under
    test is the current function object from /repo; only the tie-break of equal revision
    counts becomes content-determined, and each call is reported to the run's
    `plan_observer` if one is set (C07)."""
    from breezy.bzr import pack_repo
    from simkit.sim import CTX

    if _pins:
        return
    orig = pack_repo.RepositoryPackCollection.plan_autopack_combinations
    _pins["plan"] = orig

    def plan_autopack_combinations(self, existing_packs, pack_distribution):
        existing_packs[:] = [_Keyed(t) for t in existing_packs]
        counts = [t[0] for t in existing_packs]
        dist = list(pack_distribution)
        sim = getattr(CTX, "sim", None)
        obs = getattr(sim, "plan_observer", None) if sim is not None else None
        try:
            result = orig(self, existing_packs, pack_distribution)
        except BaseException as e:  # noqa: B036
            if obs:
                obs(self, counts, dist, None, e)
            raise
        if obs:
            obs(self, counts, dist, result, None)
        return result

    pack_repo.RepositoryPackCollection.plan_autopack_combinations = plan_autopack_combinations

    # knitpack_repo sorts (index, key, value[, refs]) node tuples; index objects compare
    # by address, so the order in which source packs are read (and hence the name of the
    # pack written) would depend on the heap layout.  Shadow `sorted` in that module only:
    # same sort, index objects ordered by the file name they were opened with.
    import builtins

    from breezy.bzr import knitpack_repo

    def det_sorted(iterable, *args, **kwargs):
        items = list(iterable)
        if args or kwargs or not items:
            return builtins.sorted(items, *args, **kwargs)
        first = items[0]
        if isinstance(first, tuple) and first and hasattr(first[0], "_name") and hasattr(first[0], "iter_all_entries"):
            return builtins.sorted(items, key=lambda n: (n[0]._name,) + tuple(n[1:3]))
        return builtins.sorted(items)

    knitpack_repo.sorted = det_sorted

    # The index classes themselves order by address (and the Rust record-stream code
    # sorts read requests by index object): give them a content-determined order.
    from bzrformats import btree_index
    from bzrformats import index as _index

    def _key(ix):
        try:
            return (str(ix._name), str(ix._transport.base))
        except Exception:  # noqa: BLE001
            return ("", "")

    for cls in (_index.GraphIndex, btree_index.BTreeGraphIndex):
        cls.__lt__ = lambda a, b: _key(a) < _key(b)
        cls.__gt__ = lambda a, b: _key(a) > _key(b)
        cls.__le__ = lambda a, b: _key(a) <= _key(b)
        cls.__ge__ = lambda a, b: _key(a) >= _key(b)


def fmt_obj(fmt):
    from breezy import controldir

    return controldir.format_registry.make_controldir(fmt)


def make_branch(url, fmt):
    from breezy import controldir

    return controldir.ControlDir.create_branch_convenience(url, format=fmt_obj(fmt), force_new_tree=False)


def make_shared_repo(url, fmt):
    from breezy import controldir
    from breezy.transport import get_transport

    t = get_transport(url)
    t.ensure_base()
    cd = fmt_obj(fmt).initialize_on_transport(t)
    return cd.create_repository(shared=True)


def open_repo(url):
    from breezy.repository import Repository

    return Repository.open(url)


def open_branch(url):
    from breezy.branch import Branch

    return Branch.open(url)


def to_actions(spec):
    out = []
    for act in spec["actions"]:
        k = act[0]
        if k == "add":
            _, path, fid, kind, content = act
            out.append(("add", (path, fid.encode(), kind, content.encode() if content is not None else None)))
        elif k == "modify":
            out.append(("modify", (act[1], act[2].encode())))
        elif k == "unversion":
            out.append(("unversion", act[1]))
        elif k == "rename":
            out.append(("rename", (act[1], act[2])))
        out.append(("flush", None))  # BranchBuilder otherwise reorders actions by kind
    return out


def commit_specs(branch, specs, builder=None):
    """Commit the given model revisions through the real commit pipeline."""
    from breezy import branchbuilder

    bb = builder or branchbuilder.BranchBuilder(branch=branch)
    bb.start_series()
    try:
        for spec in specs:
            bb.build_snapshot(
                [p.encode() for p in spec["parents"]],
                to_actions(spec),
                message=spec["msg"],
                timestamp=spec["ts"],
                timezone=0,
                committer=COMMITTER,
                revision_id=spec["id"].encode(),
            )
    finally:
        try:
            bb.finish_series()
        except BaseException:  # noqa: B036 - a crashed actor cannot unlock; nothing to add
            pass
    return bb


def clear_caches():
    from bzrformats import chk_map

    chk_map.clear_cache()


def readable(repo, mh, revids):
    """Every revision is fully readable and equals the model.  Returns a problem string
    or None.  `revids` None = everything the repository lists."""
    ids = sorted(repo.all_revision_ids()) if revids is None else sorted(r.encode() if isinstance(r, str) else r for r in revids)
    for rid in ids:
        name = rid.decode()
        try:
            rev = repo.get_revision(rid)
            tree = repo.revision_tree(rid)
            got = {}
            for path, ie in tree.iter_entries_by_dir():
                if ie.kind == "file":
                    got[path] = [ie.file_id.decode(), "file", tree.get_file_text(path).decode()]
                else:
                    got[path] = [ie.file_id.decode(), ie.kind, None]
        except Exception as e:  # noqa: BLE001
            return f"revision {name} listed but not readable: {type(e).__name__}: {e}"
        if mh is not None and name in mh.revs:
            want = mh.revs[name]
            if [p.decode() for p in rev.parent_ids] != want["parents"]:
                return f"revision {name} parents {rev.parent_ids} != model {want['parents']}"
            if got != want["tree"]:
                diff = sorted(set(map(str, got.items())) ^ set(map(str, want["tree"].items())))[:4]
                return f"revision {name} tree differs from what was committed: {diff}"
    return None


def check_clean(repo):
    """Run the repository consistency check; returns a problem string or None."""
    try:
        res = repo.check()
    except Exception as e:  # noqa: BLE001
        return f"check() raised {type(e).__name__}: {e}"
    probs = []
    if res.missing_inventory_sha_cnt:
        probs.append(f"{res.missing_inventory_sha_cnt} revisions missing inventory sha")
    if res.missing_revision_cnt:
        probs.append(f"{res.missing_revision_cnt} revisions mentioned but not present")
    if res.missing_parent_links:
        probs.append(f"missing parent links {dict(res.missing_parent_links)}")
    if res.inconsistent_parents:
        probs.append(f"inconsistent per-file parents {res.inconsistent_parents[:3]}")
    if getattr(res, "revs_with_bad_parents_in_index", None):
        probs.append(f"bad parents in revision index {res.revs_with_bad_parents_in_index[:3]}")
    if res._report_items:
        probs.append(f"check items {res._report_items[:3]}")
    return "; ".join(probs) or None


def path_class(path):
    """Normalise a store path for fault-site signatures."""
    import re

    p = path
    p = re.sub(r"^.*/\.bzr/", "", p)
    p = re.sub(r"[0-9a-f]{32}", "<hash>", p)
    p = re.sub(r"upload/[a-z0-9]{20}", "upload/<rand>", p)
    p = re.sub(r"lock/[a-z0-9]{10}\.tmp", "lock/<rand>.tmp", p)
    p = re.sub(r"(releasing|broken)\.[a-z0-9]{20}\.tmp", r"\1.<rand>.tmp", p)
    return p


def digest_of(*parts):
    return hashlib.sha1(repr(parts).encode()).hexdigest()[:20]
