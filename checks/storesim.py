"""storesim: shared pieces of the repository world (C02-C08, C21, C22, C25, C40, C41 ...).

Real: the whole commit / fetch / pack / autopack pipeline of breezy on the real
bzrformats pack + index code.  Simulated: the disk (SimTransport over the memory
transport), process scheduling and crashes, the clock of lockdir.

Pure part (no breezy imports): `MHist`, a model of a revision DAG with a tree per
revision, and the history generator `gen_chain`."""

import hashlib

from simkit import world

FORMATS = ["2a", "pack-0.92"]
COMMITTER = "Sim User <sim@example.com>"
ROOT_ID = "TREE_ROOT"

# ------------------------------------------------------------------------------------
# model


class MHist:
    """revid -> {"parents": [...], "tree": {path: [file_id, kind, content]}, "ts": int,
    "msg": str}.  Trees of merge revisions are first-parent tree + the listed actions
    (that is also how the real revision is built)."""

    def __init__(self):
        self.revs = {}
        self.nfid = 0

    def tree(self, rid):
        return self.revs[rid]["tree"] if rid else {}

    def ancestry(self, rid):
        seen = set()
        todo = [rid]
        while todo:
            r = todo.pop()
            if r is None or r in seen or r not in self.revs:
                continue
            seen.add(r)
            todo.extend(self.revs[r]["parents"])
        return seen

    def add(self, spec):
        base = dict(self.tree(spec["parents"][0])) if spec["parents"] else {}
        tree = apply_actions(base, spec["actions"])
        self.revs[spec["id"]] = {"parents": list(spec["parents"]), "tree": tree, "ts": spec["ts"], "msg": spec["msg"]}


def apply_actions(tree, actions):
    tree = dict(tree)
    for act in actions:
        kind = act[0]
        if kind == "add":
            _, path, fid, k, content = act
            tree[path] = [fid, k, content]
        elif kind == "modify":
            _, path, content = act
            tree[path] = [tree[path][0], tree[path][1], content]
        elif kind == "unversion":
            tree.pop(act[1])
        elif kind == "rename":
            _, old, new = act
            moved = {}
            for p in list(tree):
                if p == old or p.startswith(old + "/"):
                    moved[new + p[len(old) :]] = tree.pop(p)
            tree.update(moved)
    return tree


NAMES = ["a", "b", "c", "d", "e", "f"]


def _content(rng, tag):
    n = rng.choice([0, 1, 8, 8, 20, 20, 60, 300, 2500])
    body = "".join(rng.choice("ab\n xyz") for _ in range(n))
    return f"{tag}:{body}\n"


def gen_spec(rng, mh, rid, parents, ts, nchanges=None):
    """One revision on top of parents[0] (None = root revision).  Pure."""
    base = mh.tree(parents[0]) if parents else {}
    tree = dict(base)
    actions = []
    if "" not in tree:
        actions.append(["add", "", ROOT_ID, "directory", None])
        tree[""] = [ROOT_ID, "directory", None]
    k = nchanges if nchanges is not None else rng.choice([1, 1, 1, 2, 2, 3, 4])
    touched = set()
    for _ in range(k):
        files = sorted(p for p, v in tree.items() if v[1] == "file" and p not in touched)
        dirs = sorted(p for p, v in tree.items() if v[1] == "directory")
        r = rng.random()
        if r < 0.45 or not files:
            d = rng.choice(dirs)
            if d.count("/") >= 2:
                d = ""
            name = rng.choice(NAMES)
            path = f"{d}/{name}" if d else name
            if path in tree or any(p.startswith(path + "/") for p in tree):
                continue
            mh.nfid += 1
            fid = f"{rid}-f{mh.nfid}"
            if rng.random() < 0.25:
                actions.append(["add", path, fid, "directory", None])
                tree[path] = [fid, "directory", None]
            else:
                c = _content(rng, rid)
                actions.append(["add", path, fid, "file", c])
                tree[path] = [fid, "file", c]
            touched.add(path)
        elif r < 0.8:
            p = rng.choice(files)
            c = _content(rng, rid)
            if c == tree[p][2]:
                c += "x\n"
            actions.append(["modify", p, c])
            tree[p] = [tree[p][0], "file", c]
            touched.add(p)
        elif r < 0.9:
            p = rng.choice(files)
            actions.append(["unversion", p])
            tree.pop(p)
            touched.add(p)
        else:
            p = rng.choice(files)
            d = rng.choice(dirs)
            if d.count("/") >= 2:
                d = ""
            name = rng.choice(NAMES)
            new = f"{d}/{name}" if d else name
            if new in tree or any(q.startswith(new + "/") for q in tree) or new == p:
                continue
            actions.append(["rename", p, new])
            tree[new] = tree.pop(p)
            touched.update((p, new))
    if not actions and parents:
        # make sure the revision changes something
        mh.nfid += 1
        name = f"z{mh.nfid}"
        c = _content(rng, rid)
        actions.append(["add", name, f"{rid}-f{mh.nfid}", "file", c])
    spec = {"id": rid, "parents": [p for p in parents if p], "actions": actions, "ts": ts, "msg": f"commit {rid}"}
    mh.add(spec)
    return spec


def gen_chain(rng, mh, base, n, tag, ts0=1_500_000_000, merge_from=None):
    """n revisions `tag-1..n` on top of `base`; with merge_from (list of revids) some
    become merges.  Pure."""
    specs = []
    prev = base
    for i in range(1, n + 1):
        rid = f"{tag}-{i}"
        parents = [prev] if prev else []
        if merge_from and prev and rng.random() < 0.3:
            cand = [m for m in merge_from if m not in mh.ancestry(prev)]
            if cand:
                parents.append(rng.choice(cand))
        specs.append(gen_spec(rng, mh, rid, parents, ts0 + len(mh.revs) * 10))
        prev = rid
    return specs


def replay_model(specs):
    mh = MHist()
    for s in specs:
        mh.add(s)
    return mh


# ------------------------------------------------------------------------------------
# real world

_warmed = False


def warm():
    global _warmed
    if _warmed:
        return
    world.quiet_breezy()
    import breezy.lockdir  # noqa: F401
    from breezy import branchbuilder, controldir  # noqa: F401
    from breezy.bzr import groupcompress_repo, knitpack_repo  # noqa: F401
    from simkit.sim import Sim

    install_pins()
    # exercise lazy imports once, pre-fork
    sim = Sim(0)
    world.setup_sim(sim)
    for fmt in FORMATS:
        url = world.new_store("warm" + fmt.replace(".", "").replace("-", ""))
        b = make_branch(url + "b", fmt)
        mh = MHist()
        import random

        specs = gen_chain(random.Random(1), mh, None, 2, "w")
        commit_specs(b, specs)
        r = open_repo(url + "b")
        with r.lock_read():
            readable(r, mh, None)
        check_clean(r)
    world.reset_stores()
    _warmed = True


class _Keyed(tuple):
    """(revision_count, pack) tuple ordered by (count, pack.name): the planner's sort
    otherwise falls back to comparing Pack objects, which is address-dependent."""

    def _k(self):
        return (self[0], self[1].name)

    def __lt__(self, o):
        return self._k() < o._k()

    def __gt__(self, o):
        return self._k() > o._k()

    def __le__(self, o):
        return self._k() <= o._k()

    def __ge__(self, o):
        return self._k() >= o._k()


_pins = {}


def install_pins():
    """Determinism pin + observation point on the autopack planner.  The planner under
    test is the current function object from /repo; only the tie-break of equal revision
    counts becomes content-determined, and each call is reported to the run's
    `plan_observer` if one is set (C07)."""
    from breezy.bzr import pack_repo
    from simkit.sim import CTX

    if _pins:
        return
    orig = pack_repo.RepositoryPackCollection.plan_autopack_combinations
    _pins["plan"] = orig

    def plan_autopack_combinations(self, existing_packs, pack_distribution):
        existing_packs[:] = [_Keyed(t) for t in existing_packs]
        counts = [t[0] for t in existing_packs]
        dist = list(pack_distribution)
        sim = getattr(CTX, "sim", None)
        obs = getattr(sim, "plan_observer", None) if sim is not None else None
        try:
            result = orig(self, existing_packs, pack_distribution)
        except BaseException as e:  # noqa: B036
            if obs:
                obs(self, counts, dist, None, e)
            raise
        if obs:
            obs(self, counts, dist, result, None)
        return result

    pack_repo.RepositoryPackCollection.plan_autopack_combinations = plan_autopack_combinations

    # knitpack_repo sorts (index, key, value[, refs]) node tuples; index objects compare
    # by address, so the order in which source packs are read (and hence the name of the
    # pack written) would depend on the heap layout.  Shadow `sorted` in that module only:
    # same sort, index objects ordered by the file name they were opened with.
    import builtins

    from breezy.bzr import knitpack_repo

    def det_sorted(iterable, *args, **kwargs):
        items = list(iterable)
        if args or kwargs or not items:
            return builtins.sorted(items, *args, **kwargs)
        first = items[0]
        if isinstance(first, tuple) and first and hasattr(first[0], "_name") and hasattr(first[0], "iter_all_entries"):
            return builtins.sorted(items, key=lambda n: (n[0]._name,) + tuple(n[1:3]))
        return builtins.sorted(items)

    knitpack_repo.sorted = det_sorted

    # The index classes themselves order by address (and the Rust record-stream code
    # sorts read requests by index object): give them a content-determined order.
    from bzrformats import btree_index
    from bzrformats import index as _index

    def _key(ix):
        try:
            return (str(ix._name), str(ix._transport.base))
        except Exception:  # noqa: BLE001
            return ("", "")

    for cls in (_index.GraphIndex, btree_index.BTreeGraphIndex):
        cls.__lt__ = lambda a, b: _key(a) < _key(b)
        cls.__gt__ = lambda a, b: _key(a) > _key(b)
        cls.__le__ = lambda a, b: _key(a) <= _key(b)
        cls.__ge__ = lambda a, b: _key(a) >= _key(b)


def fmt_obj(fmt):
    from breezy import controldir

    return controldir.format_registry.make_controldir(fmt)


def make_branch(url, fmt):
    from breezy import controldir

    return controldir.ControlDir.create_branch_convenience(url, format=fmt_obj(fmt), force_new_tree=False)


def make_shared_repo(url, fmt):
    from breezy import controldir
    from breezy.transport import get_transport

    t = get_transport(url)
    t.ensure_base()
    cd = fmt_obj(fmt).initialize_on_transport(t)
    return cd.create_repository(shared=True)


def open_repo(url):
    from breezy.repository import Repository

    return Repository.open(url)


def open_branch(url):
    from breezy.branch import Branch

    return Branch.open(url)


def to_actions(spec):
    out = []
    for act in spec["actions"]:
        k = act[0]
        if k == "add":
            _, path, fid, kind, content = act
            out.append(("add", (path, fid.encode(), kind, content.encode() if content is not None else None)))
        elif k == "modify":
            out.append(("modify", (act[1], act[2].encode())))
        elif k == "unversion":
            out.append(("unversion", act[1]))
        elif k == "rename":
            out.append(("rename", (act[1], act[2])))
        out.append(("flush", None))  # BranchBuilder otherwise reorders actions by kind
    return out


def commit_specs(branch, specs, builder=None):
    """Commit the given model revisions through the real commit pipeline."""
    from breezy import branchbuilder

    bb = builder or branchbuilder.BranchBuilder(branch=branch)
    bb.start_series()
    try:
        for spec in specs:
            bb.build_snapshot(
                [p.encode() for p in spec["parents"]],
                to_actions(spec),
                message=spec["msg"],
                timestamp=spec["ts"],
                timezone=0,
                committer=COMMITTER,
                revision_id=spec["id"].encode(),
            )
    finally:
        try:
            bb.finish_series()
        except BaseException:  # noqa: B036 - a crashed actor cannot unlock; nothing to add
            pass
    return bb


def clear_caches():
    from bzrformats import chk_map

    chk_map.clear_cache()


def readable(repo, mh, revids):
    """Every revision is fully readable and equals the model.  Returns a problem string
    or None.  `revids` None = everything the repository lists."""
    ids = sorted(repo.all_revision_ids()) if revids is None else sorted(r.encode() if isinstance(r, str) else r for r in revids)
    for rid in ids:
        name = rid.decode()
        try:
            rev = repo.get_revision(rid)
            tree = repo.revision_tree(rid)
            got = {}
            for path, ie in tree.iter_entries_by_dir():
                if ie.kind == "file":
                    got[path] = [ie.file_id.decode(), "file", tree.get_file_text(path).decode()]
                else:
                    got[path] = [ie.file_id.decode(), ie.kind, None]
        except Exception as e:  # noqa: BLE001
            return f"revision {name} listed but not readable: {type(e).__name__}: {e}"
        if mh is not None and name in mh.revs:
            want = mh.revs[name]
            if [p.decode() for p in rev.parent_ids] != want["parents"]:
                return f"revision {name} parents {rev.parent_ids} != model {want['parents']}"
            if got != want["tree"]:
                diff = sorted(set(map(str, got.items())) ^ set(map(str, want["tree"].items())))[:4]
                return f"revision {name} tree differs from what was committed: {diff}"
    return None


def check_clean(repo, unreferenced=False, ignore_ghost_introduced=False):
    """Run the repository consistency check; returns a problem string or None.
    unreferenced=True also reports text versions no inventory refers to.
    ignore_ghost_introduced=True drops 'inconsistent parents' reports about text versions
    whose introducing revision the repository does not hold: check() then has nothing to
    derive their parents from and expects none, whatever parents the text really has."""
    try:
        res = repo.check()
    except (KeyboardInterrupt, SystemExit, MemoryError):
        raise
    except BaseException as e:  # noqa: B036 - pyo3 panics are BaseExceptions
        if type(e).__name__ in ("SimCrash", "Violation", "HarnessTruncated"):
            raise
        return f"check() raised {type(e).__name__}: {e}"
    probs = []
    if res.missing_inventory_sha_cnt:
        probs.append(f"{res.missing_inventory_sha_cnt} revisions missing inventory sha")
    if res.missing_revision_cnt:
        probs.append(f"{res.missing_revision_cnt} revisions mentioned but not present")
    if res.missing_parent_links:
        probs.append(f"missing parent links {dict(res.missing_parent_links)}")
    inconsistent = list(res.inconsistent_parents)
    if ignore_ghost_introduced and inconsistent:
        with repo.lock_read():
            held = repo.has_revisions({item[0] for item in inconsistent})
        inconsistent = [item for item in inconsistent if item[0] in held]
    if inconsistent:
        probs.append(f"inconsistent per-file parents {inconsistent[:3]}")
    if getattr(res, "revs_with_bad_parents_in_index", None):
        probs.append(f"bad parents in revision index {res.revs_with_bad_parents_in_index[:3]}")
    if res._report_items:
        probs.append(f"check items {res._report_items[:3]}")
    if unreferenced and res.unreferenced_versions:
        probs.append(f"unreferenced text versions {sorted(res.unreferenced_versions)[:3]}")
    return "; ".join(probs) or None


def path_class(path):
    """Normalise a store path for fault-site signatures."""
    import re

    p = path
    p = re.sub(r"^.*/\.bzr/", "", p)
    p = re.sub(r"[0-9a-f]{32}", "<hash>", p)
    p = re.sub(r"upload/[a-z0-9]{20}", "upload/<rand>", p)
    p = re.sub(r"lock/[a-z0-9]{10}\.tmp", "lock/<rand>.tmp", p)
    p = re.sub(r"(releasing|broken)\.[a-z0-9]{20}\.tmp", r"\1.<rand>.tmp", p)
    return p


def digest_of(*parts):
    return hashlib.sha1(repr(parts).encode()).hexdigest()[:20]


# ====================================================================================
# DAG model with per-file history (C02, C03, C08, C41)
#
# Trees are keyed by file id: {fid: [parent_fid | None, name, kind, content, exec]} where
# content is the text of a file, the target of a symlink, None for a directory and exec
# is 0/1 (always 0 for non-files).  The root has parent None and name "".
# Pure part first (no breezy imports).

TZS = [0, 0, 3600, -18000, 19800]


def ft_path(tree, fid):
    parts = []
    seen = 0
    while tree[fid][0] is not None:
        parts.append(tree[fid][1])
        fid = tree[fid][0]
        seen += 1
        if seen > 64:
            raise ValueError("cycle")
    return "/".join(reversed(parts))


def ft_paths(tree):
    return {fid: ft_path(tree, fid) for fid in tree}


def ft_valid(tree):
    """Root present, parents are directories of the tree, names unique per directory,
    no cycles."""
    roots = [f for f, e in tree.items() if e[0] is None]
    if len(roots) != 1 or tree[roots[0]][1] != "" or tree[roots[0]][2] != "directory":
        return False
    names = set()
    for fid, e in tree.items():
        if e[0] is None:
            continue
        if e[0] not in tree or tree[e[0]][2] != "directory" or not e[1]:
            return False
        if (e[0], e[1]) in names:
            return False
        names.add((e[0], e[1]))
    try:
        for fid in tree:
            ft_path(tree, fid)
    except ValueError:
        return False
    return True


def ft_subtree(tree, fid):
    out = {fid}
    grew = True
    while grew:
        grew = False
        for f, e in tree.items():
            if e[0] in out and f not in out:
                out.add(f)
                grew = True
    return out


class MDag:
    """Model of a revision DAG with a tree per revision and the per-file graph that C02
    states: a revision R records a new version of file f iff f's (parent dir, name, kind,
    content, exec) differs from the entry carried by the single per-file head among R's
    parents, or the number of per-file heads is not 1."""

    def __init__(self):
        self.revs = {}  # rid -> spec
        self.ver = {}  # rid -> {fid: last-changed rid}
        self.fpar = {}  # (fid, rid) -> tuple of per-file parent rids
        self.order = []
        self.tips = {}  # branch -> rid   (generator state)
        self.nfid = 0
        self.nrev = {}
        self.nghost = 0

    def tree(self, rid):
        return self.revs[rid]["tree"] if rid in self.revs else {}

    def present_parents(self, rid):
        return [p for p in self.revs[rid]["parents"] if p in self.revs]

    def ancestry(self, rid):
        seen = set()
        todo = [rid]
        while todo:
            r = todo.pop()
            if r in seen or r not in self.revs:
                continue
            seen.add(r)
            todo.extend(self.revs[r]["parents"])
        return seen

    def fancestry(self, fid, rid):
        seen = set()
        todo = [rid]
        while todo:
            r = todo.pop()
            if r in seen:
                continue
            seen.add(r)
            todo.extend(self.fpar.get((fid, r), ()))
        return seen

    def fheads(self, fid, cands):
        out = []
        for c in cands:
            if not any(o != c and c in self.fancestry(fid, o) for o in cands):
                out.append(c)
        return out

    def file_rule(self, fid, ent, parents):
        """(heads, carried) for an entry `ent` of file `fid` in a revision whose present
        parents are `parents`: carried = the version it carries over, or None = the
        revision records a new version with per-file parents `heads`."""
        cands = []
        carriers = {}
        for p in parents:
            pt = self.revs[p]["tree"]
            if fid in pt:
                v = self.ver[p][fid]
                if v not in cands:
                    cands.append(v)
                carriers.setdefault(v, pt[fid])
        heads = self.fheads(fid, cands)
        if len(heads) == 1 and list(carriers[heads[0]]) == list(ent):
            return heads, heads[0]
        return heads, None

    def add(self, spec):
        rid = spec["id"]
        parents = [p for p in spec["parents"] if p in self.revs]
        ver = {}
        for fid, ent in spec["tree"].items():
            heads, carried = self.file_rule(fid, ent, parents)
            if carried is not None:
                ver[fid] = carried
            else:
                ver[fid] = rid
                self.fpar[(fid, rid)] = tuple(heads)
        self.revs[rid] = spec
        self.ver[rid] = ver
        self.order.append(rid)

    def attested(self, rid, cls="strict3"):
        """What a testament of class `cls` (v1 | strict | strict3) attests, per the
        format definitions in breezy/bzr/testament.py."""
        s = self.revs[rid]
        tree = s["tree"]
        paths = ft_paths(tree)
        ents = []
        for fid in sorted(tree, key=lambda f: paths[f]):
            par, name, kind, content, ex = tree[fid]
            if par is None and cls != "strict3":
                continue
            row = [kind, paths[fid], fid, content if kind != "directory" else None]
            if cls != "v1":
                row += [self.ver[rid][fid], bool(ex)]
            ents.append(tuple(row))
        props = tuple(sorted((k, tuple(v.splitlines())) for k, v in s.get("props", {}).items()))
        return (rid, s["committer"], int(s["ts"]), s.get("tz", 0) or 0, tuple(sorted(s["parents"])), tuple(s["msg"].splitlines()), tuple(ents), props)


def replay_dag(specs):
    mh = MDag()
    for s in specs:
        if all(p in mh.revs or p in s.get("ghosts", []) for p in s["parents"]):
            mh.add(s)
    return mh


class DagGen:
    """Seeded generator of DAG histories over 1-4 branches.  Pure: uses only rng and the
    model.  Each generated spec carries "tags" naming the situations it creates."""

    def __init__(self, rng, mh=None, ts0=1_500_000_000, kinds=("file", "file", "file", "directory", "symlink"), exec_bits=True, ghosts=0.0, nick=None, prefix="", octopus=0.0, side_merges=0.0, twins=0.0, dup_content=0.0):
        self.rng = rng
        self.twins = twins  # probability per step of a merge in which two files end up with identical content
        self.dup_content = dup_content  # probability that a modified file copies another file's content
        self.octopus = octopus  # probability per step of an octopus merge (3-4 parents)
        self.side_merges = side_merges  # probability per step of merging a short-lived side branch
        self.ntmp = 0
        self.mh = mh or MDag()
        self.ts0 = ts0
        self.kinds = kinds
        self.exec_bits = exec_bits
        self.ghosts = ghosts
        self.prefix = prefix
        self.specs = []

    # -- helpers -----------------------------------------------------------------
    def _rid(self, branch):
        mh = self.mh
        mh.nrev[branch] = mh.nrev.get(branch, 0) + 1
        return f"{self.prefix}{branch}-{mh.nrev[branch]}"

    def _fid(self):
        self.mh.nfid += 1
        return f"{self.prefix}f{self.mh.nfid}"

    def _content(self, rid):
        return _content(self.rng, rid)

    def _emit(self, branch, parents, tree, tags, ghosts=()):
        mh = self.mh
        rid = self._rid(branch)
        spec = {
            "id": rid,
            "branch": branch,
            "parents": list(parents),
            "ghosts": list(ghosts),
            "tree": {f: list(e) for f, e in tree.items()},
            "ts": self.ts0 + 10 * len(mh.revs),
            "tz": self.rng.choice(TZS),
            "msg": f"commit {rid}\n\n{' '.join(tags)}",
            "committer": COMMITTER,
            "props": {"branch-nick": branch},
            "tags": sorted(tags),
        }
        mh.add(spec)
        mh.tips[branch] = rid
        self.specs.append(spec)
        return spec

    def _dirs(self, tree):
        return sorted(f for f, e in tree.items() if e[2] == "directory")

    def _free_name(self, tree, parent):
        used = {e[1] for e in tree.values() if e[0] == parent}
        cand = [n for n in NAMES if n not in used]
        if cand:
            return self.rng.choice(cand)
        return f"n{self.mh.nfid}_{len(used)}"

    def _new_entry(self, tree, rid, kind=None):
        rng = self.rng
        dirs = [d for d in self._dirs(tree) if ft_path(tree, d).count("/") < 2]
        parent = rng.choice(dirs)
        kind = kind or rng.choice(self.kinds)
        name = self._free_name(tree, parent)
        if kind == "file":
            return [parent, name, "file", self._content(rid), int(self.exec_bits and rng.random() < 0.25)]
        if kind == "directory":
            return [parent, name, "directory", None, 0]
        return [parent, name, "symlink", rng.choice(["a", "b/c", "../x", "target " + rid]), 0]

    def edit(self, tree, rid, tags, n=None):
        """Apply 1-4 random edits to `tree` (in place)."""
        rng = self.rng
        n = n or rng.choice([1, 1, 2, 2, 3, 4])
        for _ in range(n):
            files = sorted(f for f, e in tree.items() if e[2] == "file")
            nonroot = sorted(f for f, e in tree.items() if e[0] is not None)
            r = rng.random()
            trial = {f: list(e) for f, e in tree.items()}
            tag = None
            if r < 0.25 or not nonroot:
                trial[self._fid()] = self._new_entry(trial, rid)
                tag = "add"
            elif r < 0.50 and files:
                f = rng.choice(files)
                old = self._old_contents(f)
                others = sorted({trial[g][3] for g in files if g != f and trial[g][3] != trial[f][3]}) if self.dup_content else []
                if others and rng.random() < self.dup_content:
                    c = rng.choice(others)
                    tag = "copy_content"
                elif old and rng.random() < 0.25:
                    c = rng.choice(old)
                    tag = "revert_content"
                else:
                    c = self._content(rid)
                    tag = "modify"
                if c == trial[f][3]:
                    c += "x\n"
                trial[f][3] = c
            elif r < 0.58 and files and self.exec_bits:
                f = rng.choice(files)
                trial[f][4] = 1 - trial[f][4]
                tag = "exec"
            elif r < 0.70:
                f = rng.choice(nonroot)
                if rng.random() < 0.5:
                    trial[f][1] = self._free_name(trial, trial[f][0])
                    tag = "rename"
                else:
                    dirs = [d for d in self._dirs(trial) if d not in ft_subtree(trial, f) and ft_path(trial, d).count("/") < 2]
                    if dirs:
                        d = rng.choice(dirs)
                        trial[f][0] = d
                        trial[f][1] = self._free_name(trial, d) if rng.random() < 0.5 or any(e[0] == d and e[1] == trial[f][1] for g, e in trial.items() if g != f) else trial[f][1]
                        tag = "move"
                if tag and trial[f][2] == "directory":
                    tag += "_dir"
            elif r < 0.80:
                f = rng.choice(nonroot)
                for g in ft_subtree(trial, f):
                    trial.pop(g)
                tag = "delete"
            elif r < 0.90:
                f = rng.choice(nonroot)
                has_children = any(e[0] == f for e in trial.values())
                if not has_children:
                    kinds = [k for k in ("file", "directory", "symlink") if k != trial[f][2] and k in self.kinds]
                    if kinds:
                        k = rng.choice(kinds)
                        trial[f][2] = k
                        trial[f][3] = self._content(rid) if k == "file" else (None if k == "directory" else "lnk " + rid)
                        trial[f][4] = 0
                        tag = "kind_change"
            else:
                # resurrect a file id that existed in some earlier revision of the model
                gone = sorted({(f, tuple(e)) for s in self.mh.revs.values() for f, e in s["tree"].items() if f not in trial and e[0] is not None}, key=repr)
                if gone:
                    f, e = rng.choice(gone)
                    e = list(e)
                    if e[0] in trial and trial[e[0]][2] == "directory":
                        if any(x[0] == e[0] and x[1] == e[1] for x in trial.values()):
                            e[1] = self._free_name(trial, e[0])
                        trial[f] = e
                        tag = "resurrect"
            if tag and ft_valid(trial):
                tree.clear()
                tree.update(trial)
                tags.add(tag)
        return tree

    def _old_contents(self, fid):
        out = sorted({s["tree"][fid][3] for s in self.mh.revs.values() if fid in s["tree"] and s["tree"][fid][2] == "file"})
        return out

    def merged_tree(self, this, other, rid, tags):
        """Per-file merge decisions: keep this side, take the other side, mix, or a new
        text.  Returns a valid tree."""
        rng = self.rng
        tree = {f: list(e) for f, e in this.items()}
        for fid in sorted(set(this) | set(other)):
            trial = {f: list(e) for f, e in tree.items()}
            tag = None
            if fid in this and fid not in tree:
                continue  # went away with a directory deleted by an earlier decision
            if fid in this and fid in other:
                if list(this[fid]) == list(other[fid]):
                    continue
                r = rng.random()
                if r < 0.40:
                    tag = "merge_keep_this"  # includes "revert one file after merge"
                elif r < 0.80:
                    trial[fid] = list(other[fid])
                    tag = "merge_take_other"
                elif r < 0.90:
                    trial[fid][2:] = list(other[fid][2:])
                    tag = "merge_mix"
                else:
                    if trial[fid][2] == "file":
                        trial[fid][3] = self._content(rid)
                        tag = "merge_new_text"
            elif fid in other:
                if rng.random() < 0.7:
                    trial[fid] = list(other[fid])
                    tag = "merge_add_from_other"
            else:
                if rng.random() < 0.2 and this[fid][0] is not None:
                    for g in ft_subtree(trial, fid):
                        trial.pop(g)
                    tag = "merge_delete"
            if tag and ft_valid(trial):
                tree = trial
                tags.add(tag)
        # directories that lost their parent in a delete were removed with it; make sure
        assert ft_valid(tree)
        return tree

    # -- operations --------------------------------------------------------------------
    def op_root(self, branch):
        tree = {ROOT_ID: [None, "", "directory", None, 0]}
        tags = {"root"}
        rid_preview = f"{self.prefix}{branch}-{self.mh.nrev.get(branch, 0) + 1}"
        for _ in range(self.rng.randint(1, 4)):
            tree[self._fid()] = self._new_entry(tree, rid_preview)
        return self._emit(branch, [], tree, tags)

    def op_edit(self, branch, base=None):
        """One ordinary commit on `branch` (forked from revision `base` if new)."""
        mh = self.mh
        p0 = mh.tips.get(branch, base)
        tags = {"edit"} if branch in mh.tips else {"edit", "fork"}
        rid_preview = f"{self.prefix}{branch}-{mh.nrev.get(branch, 0) + 1}"
        tree = {f: list(e) for f, e in mh.tree(p0).items()}
        self.edit(tree, rid_preview, tags)
        parents = [p0]
        ghosts = []
        if self.ghosts and self.rng.random() < self.ghosts:
            mh.nghost += 1
            g = f"{self.prefix}ghost-{mh.nghost}"
            parents.append(g)
            ghosts.append(g)
            tags.add("ghost_parent")
        return self._emit(branch, parents, tree, tags, ghosts)

    def op_merge(self, branch, other_rid, extra_tags=()):
        mh = self.mh
        p0 = mh.tips[branch]
        tags = {"merge"} | set(extra_tags)
        rid_preview = f"{self.prefix}{branch}-{mh.nrev.get(branch, 0) + 1}"
        tree = self.merged_tree(mh.tree(p0), mh.tree(other_rid), rid_preview, tags)
        if self.rng.random() < 0.25:
            self.edit(tree, rid_preview, tags, n=1)
        return self._emit(branch, [p0, other_rid], tree, tags)

    def op_side_merge(self, b):
        """A short-lived side branch (1-2 commits forked from some revision) merged into
        `b` and never continued; the merge keeps at least one file version that the side
        branch introduced.  Such merged-in revisions are what a repository may lack
        (ghosts) while still carrying the texts they introduced."""
        rng = self.rng
        mh = self.mh
        tip = mh.tips[b]
        self.ntmp += 1
        name = f"y{self.ntmp}"
        self.op_edit(name, base=rng.choice(sorted(mh.ancestry(tip))) if rng.random() < 0.7 else rng.choice(mh.order))
        if rng.random() < 0.3:
            self.op_edit(name)
        g = mh.tips.pop(name)
        if g in mh.ancestry(tip):
            return None
        tags = {"merge", "side_merge"}
        rid_preview = f"{self.prefix}{b}-{mh.nrev.get(b, 0) + 1}"
        tree = self.merged_tree(mh.tree(tip), mh.tree(g), rid_preview, tags)
        side = {r for r in mh.ancestry(g) if r not in mh.ancestry(tip)}
        own = sorted(f for f, e in mh.tree(g).items() if mh.ver[g][f] in side and list(tree.get(f, [])) != list(e))
        rng.shuffle(own)
        for f in own[:2]:
            trial = {k: list(v) for k, v in tree.items()}
            trial[f] = list(mh.tree(g)[f])
            if ft_valid(trial):
                tree = trial
                tags.add("merge_take_other")
        return self._emit(b, [tip, g], tree, tags)

    def op_twin_shape(self, b):
        """Three commits: the OTHER branch writes the same text C into files fa and fb;
        THIS branch writes C into fb too (identical parallel change) or something else
        (conflict); the merge takes the other side's fa unchanged (carry-over from the
        non-first parent) and ends with fb = C as well: a carried-over file and a file
        that needs a new version have byte-identical content in one merge commit."""
        rng = self.rng
        mh = self.mh
        live = sorted(mh.tips)
        others = [o for o in live if o != b and mh.tips[o] not in mh.ancestry(mh.tips[b]) and mh.tips[b] not in mh.ancestry(mh.tips[o])]
        if not others:
            return None
        o = rng.choice(others)
        t1 = {f: list(e) for f, e in mh.tree(mh.tips[b]).items()}
        t2 = {f: list(e) for f, e in mh.tree(mh.tips[o]).items()}
        same = sorted(f for f, e in t1.items() if e[2] == "file" and f in t2 and list(t2[f]) == e)
        if len(same) < 2:
            return None
        fa, fb = rng.sample(same, 2)
        c = self._content("twin" + str(len(mh.revs)))
        t2[fa][3] = c
        t2[fb][3] = c
        conflict = rng.random() < 0.4
        t1[fb][3] = self._content("conflict" + str(len(mh.revs))) if conflict else c
        self._emit(o, [mh.tips[o]], t2, {"edit", "twin_content_other"})
        self._emit(b, [mh.tips[b]], t1, {"edit", "twin_content_this"})
        tree = {f: list(e) for f, e in t1.items()}
        tree[fa] = list(t2[fa])
        tree[fb][3] = c
        return self._emit(b, [mh.tips[b], mh.tips[o]], tree, {"merge", "twin_content", "twin_conflict" if conflict else "twin_parallel"})

    def op_same_change(self, b1, b2):
        """The identical change committed independently on two branches."""
        mh = self.mh
        t1 = {f: list(e) for f, e in mh.tree(mh.tips[b1]).items()}
        t2 = {f: list(e) for f, e in mh.tree(mh.tips[b2]).items()}
        common = sorted(f for f in t1 if f in t2 and t1[f][0] is not None and t1[f][2] == t2[f][2])
        if not common:
            return None
        f = self.rng.choice(common)
        r = self.rng.random()
        if t1[f][2] == "file" and r < 0.6:
            c = self._content("same" + str(len(mh.revs)))
            t1[f][3] = t2[f][3] = c
            tag = "same_content_change"
        elif t1[f][2] == "file" and r < 0.8 and self.exec_bits:
            t1[f][4] = t2[f][4] = 1 - t1[f][4]
            tag = "same_exec_change"
        else:
            name = f"s{len(mh.revs)}"
            t1[f][1] = t2[f][1] = name
            tag = "same_rename"
        if not (ft_valid(t1) and ft_valid(t2)):
            return None
        a = self._emit(b1, [mh.tips[b1]], t1, {tag, "identical_parallel"})
        b = self._emit(b2, [mh.tips[b2]], t2, {tag, "identical_parallel"})
        return a, b

    def op_cherrypick(self, branch, rid):
        """Apply the delta of revision `rid` (against its first parent) to the tip."""
        mh = self.mh
        p0 = mh.tips[branch]
        src = mh.tree(rid)
        pp = mh.present_parents(rid)
        old = mh.tree(pp[0]) if pp else {}
        tree = {f: list(e) for f, e in mh.tree(p0).items()}
        tags = {"cherrypick"}
        changed = False
        for fid in sorted(set(src) | set(old)):
            trial = {f: list(e) for f, e in tree.items()}
            if fid in src and list(src[fid]) != list(old.get(fid, [])):
                trial[fid] = list(src[fid])
            elif fid not in src and fid in trial and trial[fid][0] is not None:
                for g in ft_subtree(trial, fid):
                    trial.pop(g)
            else:
                continue
            if ft_valid(trial) and trial != tree:
                tree = trial
                changed = True
        if not changed:
            self.edit(tree, f"{branch}-cp", tags, n=1)
        return self._emit(branch, [p0], tree, tags)

    def op_octopus(self, branch, others, route=None, extra_tags=()):
        """A merge with len(others)+1 parents; the tree is merged parent by parent with
        per-file decisions.  route "builder" = committed through the commit builder with
        the explicit parent list (a working tree drops right-hand parents that are not
        heads among the parents)."""
        mh = self.mh
        p0 = mh.tips[branch]
        tags = {"merge", "octopus"} | set(extra_tags)
        rid_preview = f"{self.prefix}{branch}-{mh.nrev.get(branch, 0) + 1}"
        tree = {f: list(e) for f, e in mh.tree(p0).items()}
        for o in others:
            tree = self.merged_tree(tree, mh.tree(o), rid_preview, tags)
        parents = [p0] + list(others)
        redundant = any(p in mh.ancestry(q) for i, p in enumerate(parents) if i > 0 for q in parents if q != p)
        if redundant:
            tags.add("octopus_redundant_parent")
            route = "builder"
        spec = self._emit(branch, parents, tree, tags)
        if route == "builder":
            spec["route"] = "builder"
        return spec

    def op_octopus_auto(self, b):
        """One of: two fresh sibling branches forked from another branch's tip and both
        merged (two right-hand parents carry the SAME versions of the files they did not
        touch); several unrelated tips; a right-hand parent that is an ancestor of
        another parent.  Returns None when the history offers no candidates."""
        rng = self.rng
        mh = self.mh
        tip = mh.tips[b]
        anc = mh.ancestry(tip)
        foreign = [o for o in sorted(mh.tips) if o != b and mh.tips[o] not in anc]
        mode = rng.choice(["siblings", "siblings", "tips", "redundant"])
        if not foreign:
            return None
        if mode == "siblings":
            u = mh.tips[rng.choice(foreign)]
            if rng.random() < 0.3:
                cand = [x for x in mh.order if x not in anc]
                u = rng.choice(cand)
            names = []
            for _ in range(rng.choice([2, 2, 3])):
                self.ntmp += 1
                name = f"x{self.ntmp}"
                self.op_edit(name, base=u)
                if rng.random() < 0.3:
                    self.op_edit(name)
                names.append(name)
            others = [mh.tips[n] for n in names]
            for n in names:
                del mh.tips[n]
            if rng.random() < 0.3:
                rng.shuffle(others)
            return self.op_octopus(b, others, route=rng.choice([None, None, "builder"]), extra_tags=("octopus_siblings",))
        if mode == "tips":
            others = []
            for o in foreign:
                t = mh.tips[o]
                if all(t not in mh.ancestry(x) and x not in mh.ancestry(t) for x in others):
                    others.append(t)
            if len(others) < 2:
                return None
            return self.op_octopus(b, others[:3], route=rng.choice([None, None, "builder"]))
        big = mh.tips[rng.choice(foreign)]
        small = [x for x in mh.order if x in mh.ancestry(big)] if rng.random() < 0.7 else [x for x in mh.order if x in anc]
        small = [x for x in small if x not in (tip, big)]  # never the same parent twice
        if not small:
            return None
        others = [rng.choice(small), big]
        if rng.random() < 0.5:
            others.reverse()
        return self.op_octopus(b, others)

    def run(self, nrev, nbranch=None, merge_p=0.3):
        """Generate about `nrev` revisions."""
        rng = self.rng
        mh = self.mh
        nbranch = nbranch or rng.choice([2, 2, 3, 3, 4])
        names = [chr(ord("p") + i) for i in range(nbranch)]  # p q r s
        if not mh.tips:
            self.op_root(names[0])
        while len(self.specs) < nrev:
            live = sorted(mh.tips)
            r = rng.random()
            unborn = [n for n in names if n not in mh.tips]
            if unborn and (r < 0.25 or len(live) < 2):
                if rng.random() < 0.12:
                    self.op_root(unborn[0])  # unrelated history with the same root id
                else:
                    self.op_edit(unborn[0], base=rng.choice(mh.order))
                continue
            b = rng.choice(live)
            others = [o for o in live if o != b and mh.tips[o] not in mh.ancestry(mh.tips[b])]
            if self.octopus and rng.random() < self.octopus and self.op_octopus_auto(b) is not None:
                continue
            if self.side_merges and rng.random() < self.side_merges and self.op_side_merge(b) is not None:
                continue
            if self.twins and rng.random() < self.twins and self.op_twin_shape(b) is not None:
                continue
            r = rng.random()
            if r < merge_p and others:
                o = rng.choice(others)
                a_tip, b_tip = mh.tips[b], mh.tips[o]
                if rng.random() < 0.3 and a_tip not in mh.ancestry(b_tip):
                    # criss-cross: both sides merge the other's tip
                    self.op_merge(b, b_tip, ("crisscross",))
                    self.op_merge(o, a_tip, ("crisscross",))
                else:
                    self.op_merge(b, b_tip)
            elif r < merge_p + 0.12 and len(live) >= 2:
                o = rng.choice([x for x in live if x != b])
                self.op_same_change(b, o)
            elif r < merge_p + 0.20:
                cand = [x for x in mh.order if x not in mh.ancestry(mh.tips[b])]
                if cand:
                    self.op_cherrypick(b, rng.choice(cand))
                else:
                    self.op_edit(b)
            else:
                self.op_edit(b)
        return self.specs


def gen_dag(rng, nrev, mh=None, **kw):
    """Seeded DAG history (list of specs) with merges, criss-cross merges, reverts after
    merge, identical parallel changes, cherry-picks, kind changes, renames, exec-bit
    changes, resurrected file ids and (ghosts=p) ghost right-hand parents."""
    nbranch = kw.pop("nbranch", None)
    merge_p = kw.pop("merge_p", 0.3)
    g = DagGen(rng, mh, **kw)
    g.run(nrev, nbranch=nbranch, merge_p=merge_p)
    return g.specs


# -- real world: committing model trees through a real working tree -------------------


def model_inventory(tree):
    """A bzrformats Inventory for a model tree (revision fields unset)."""
    from bzrformats.inventory import Inventory, InventoryDirectory, InventoryFile, InventoryLink

    inv = Inventory(root_id=None)
    paths = ft_paths(tree)
    for fid in sorted(tree, key=lambda f: (paths[f].count("/") if paths[f] else -1, paths[f])):
        par, name, kind, content, ex = tree[fid]
        f = fid.encode()
        p = par.encode() if par is not None else None
        if kind == "directory":
            e = InventoryDirectory(f, name, p)
        elif kind == "file":
            e = InventoryFile(f, name, p, executable=bool(ex))
        else:
            e = InventoryLink(f, name, p, symlink_target=content)
        inv.add(e)
    return inv


def sync_wt(wt, tree):
    """Make the working tree (disk + inventory) equal to the model tree."""
    import os
    import shutil

    root = wt.basedir
    for n in os.listdir(root):
        if n == ".bzr":
            continue
        p = os.path.join(root, n)
        if os.path.isdir(p) and not os.path.islink(p):
            shutil.rmtree(p)
        else:
            os.unlink(p)
    paths = ft_paths(tree)
    for fid in sorted(tree, key=lambda f: paths[f]):
        par, name, kind, content, ex = tree[fid]
        if par is None:
            continue
        p = os.path.join(root, paths[fid])
        if kind == "directory":
            os.mkdir(p)
        elif kind == "file":
            with open(p, "wb") as f:
                f.write(content.encode())
            os.chmod(p, 0o755 if ex else 0o644)
        else:
            os.symlink(content, p)
    with wt.lock_tree_write():
        wt._write_inventory(model_inventory(tree))


class DagBuilder:
    """Commits specs of an MDag through real working trees (lightweight checkouts on
    local scratch disk of branches that live on simulated stores).

    layout "shared": every branch in one shared repository at `url`;
    layout "separate": one standalone repository per branch (`url`+name), revisions a
    commit needs from elsewhere are fetched first (Repository.fetch)."""

    def __init__(self, url, fmt, layout="shared", scratch=None, tag="w", make_repo=True):
        import os

        self.url = url
        self.fmt = fmt
        self.layout = layout
        self.scratch = scratch or os.environ["VERIF_SCRATCH"]
        self.tag = tag
        self.wts = {}
        _install_canonical_digest()
        self.home = {}  # rid -> branch name whose repository certainly has it
        self.done = []
        if layout == "shared" and make_repo:
            make_shared_repo(url, fmt)

    def branch_url(self, name):
        return getattr(self, "urls", {}).get(name) or self.url + "b_" + name

    def repo_urls(self):
        if self.layout == "shared":
            return [self.url]
        return [self.branch_url(n) for n in sorted(self.wts)]

    def forget(self):
        """Drop every cached object (the next commit re-opens tree and branch)."""
        for name in list(self.wts):
            self.wts[name] = None

    def _wt(self, name):
        import os

        from breezy.workingtree import WorkingTree

        wt = self.wts.get(name)
        if wt is None:
            wt = WorkingTree.open(os.path.join(self.scratch, f"{self.tag}_{name}"))
            self.wts[name] = wt
        return wt

    def _ensure_revs(self, repo, revids):
        """Fetch parents the repository lacks: from the per-branch repositories of this
        builder (layout "separate") or from `self.sources` (branch URLs, opened with
        their fallbacks)."""
        for r in revids:
            if repo.has_revision(r.encode()):
                continue
            if self.layout == "separate" and r in self.home:
                src = open_repo(self.branch_url(self.home[r]))
                repo.fetch(src, revision_id=r.encode())
                continue
            for u in getattr(self, "sources", ()):
                src = open_branch(u).repository
                if src.has_revision(r.encode()):
                    repo.fetch(src, revision_id=r.encode())
                    break

    def adopt(self, name, branch):
        """Use an existing branch (e.g. a stacked one) under `name`: commits of specs
        with that branch name go into it through a new lightweight checkout."""
        import os

        path = os.path.join(self.scratch, f"{self.tag}_{name}")
        self.urls = getattr(self, "urls", {})
        self.urls[name] = branch.base
        self.wts[name] = branch.create_checkout(path, lightweight=True)
        return self.wts[name]

    def _create(self, name, p0):
        import os

        b = make_branch(self.branch_url(name), self.fmt)
        if p0 is not None:
            self._ensure_revs(b.repository, [p0])
            b.generate_revision_history(p0.encode())
        path = os.path.join(self.scratch, f"{self.tag}_{name}")
        wt = b.create_checkout(path, lightweight=True)
        self.wts[name] = wt
        return wt

    raise_errors = False  # True: commit() lets exceptions of the code under test through

    def commit(self, spec):
        """Commit `spec`.  An exception escaping from the code under test (including pyo3
        PanicException, a BaseException) is a property violation, not a harness error:
        unless `raise_errors` is set it is reported through the run's Sim as op_failed."""
        from simkit.sim import HarnessTruncated, SimCrash, Violation, cur_sim

        try:
            return self._commit(spec)
        except (SimCrash, Violation, HarnessTruncated, KeyboardInterrupt, SystemExit, MemoryError):
            raise
        except BaseException as e:  # noqa: B036
            if self.raise_errors:
                if isinstance(e, Exception):
                    raise
                raise OpFailed("commit", e) from e
            try:
                sim = cur_sim()
            except RuntimeError:
                raise e from None
            report_op_failure(sim, "commit", self.fmt, e, f"commit of {spec['id']} (parents {spec['parents']}, tags {spec.get('tags')})")

    def _commit(self, spec):
        name = spec["branch"]
        parents = spec["parents"]
        p0 = parents[0] if parents else None
        if name not in self.wts:
            wt = self._create(name, p0)
        else:
            wt = self._wt(name)
        self._ensure_revs(wt.branch.repository, parents)
        props = dict(spec.get("props") or {})
        props.setdefault("branch-nick", name)
        if spec.get("route") == "builder":
            self._commit_direct(wt, spec, props)
            self.home[spec["id"]] = name
            self.done.append(spec["id"])
            return
        wt.set_parent_ids([p.encode() for p in parents])
        sync_wt(wt, spec["tree"])
        wt.commit(
            message=spec["msg"],
            rev_id=spec["id"].encode(),
            timestamp=spec["ts"],
            timezone=spec.get("tz", 0),
            committer=spec.get("committer", COMMITTER),
            revprops=props,
        )
        self.home[spec["id"]] = name
        self.done.append(spec["id"])


def _commit_direct(self, wt, spec, props):
    """Commit through Branch.get_commit_builder + record_iter_changes with the explicit
    parent list (what breezy.commit.Commit does, minus the working tree's filtering of
    right-hand parents that are not heads)."""
    parents = [p.encode() for p in spec["parents"]]
    rid = spec["id"].encode()
    wt.set_parent_ids(parents[:1])
    sync_wt(wt, spec["tree"])
    branch = wt.branch
    with wt.lock_write():
        basis = wt.basis_tree()
        with basis.lock_read():
            builder = branch.get_commit_builder(parents, None, spec["ts"], spec.get("tz", 0), spec.get("committer", COMMITTER), props, rid)
            try:
                for _ in builder.record_iter_changes(wt, parents[0], wt.iter_changes(basis)):
                    pass
                builder.finish_inventory()
                builder.commit(spec["msg"])
            except BaseException:  # noqa: B036
                builder.abort()
                raise
        branch.generate_revision_history(rid)


DagBuilder._commit_direct = _commit_direct


class OpFailed(Exception):
    """An operation of the code under test died with a BaseException that is not an
    Exception (e.g. pyo3 PanicException); wrapped so that ordinary handlers see it."""

    def __init__(self, op, cause):
        Exception.__init__(self, f"{op} died with {type(cause).__name__}: {cause}")
        self.op = op
        self.cause = cause


def report_op_failure(sim, op, conf, exc, what):
    """sim.fail for an exception that escaped an operation of the code under test."""
    import traceback

    cause = exc.cause if isinstance(exc, OpFailed) else exc
    frames = [f.name for f in traceback.extract_tb(cause.__traceback__) if "/breezy/" in f.filename or "/bzrformats/" in f.filename]
    sim.fail("op_failed", ["op_failed", conf, op, f"{type(cause).__name__}:{frames[-1] if frames else '?'}"], f"{what} failed: {type(cause).__name__}: {cause}\n" + "".join(traceback.format_exception(cause))[-1800:])


def real_tree(repo, rid):
    """{fid: [parent_fid, name, kind, content, exec, last_changed]} of a stored revision."""
    tree = repo.revision_tree(rid.encode() if isinstance(rid, str) else rid)
    out = {}
    for path, ie in tree.iter_entries_by_dir():
        fid = ie.file_id.decode()
        par = ie.parent_id.decode() if ie.parent_id is not None else None
        if ie.kind == "file":
            content = tree.get_file_text(path).decode()
            ex = int(bool(ie.executable))
        elif ie.kind == "symlink":
            content = ie.symlink_target
            ex = 0
        else:
            content = None
            ex = 0
        out[fid] = [par, ie.name, ie.kind, content, ex, ie.revision.decode() if ie.revision else None, tree.get_file_revision(path).decode()]
    return out


def dag_problems(repo, mh, revids, per_file=True, root_too=None):
    """Compare stored revisions with the model: tree content, revision parents, and (C02)
    last-changed revisions and per-file parents.  Yields (kind, rid, fid, detail)."""
    rich = repo.supports_rich_root() if root_too is None else root_too
    for rid in revids:
        spec = mh.revs[rid]
        try:
            rev = repo.get_revision(rid.encode())
            got = real_tree(repo, rid)
        except (KeyboardInterrupt, SystemExit, MemoryError):
            raise
        except BaseException as e:  # noqa: B036 - pyo3 panics are BaseExceptions
            if type(e).__name__ in ("SimCrash", "Violation", "HarnessTruncated"):
                raise
            yield ("unreadable", rid, None, f"{type(e).__name__}: {e}")
            continue
        if [p.decode() for p in rev.parent_ids] != spec["parents"]:
            yield ("parents", rid, None, f"{rev.parent_ids} != {spec['parents']}")
        want = spec["tree"]
        if {f: e[:5] for f, e in got.items()} != {f: list(e) for f, e in want.items()}:
            diff = sorted(set(map(repr, ((f, e[:5]) for f, e in got.items()))) ^ set(map(repr, ((f, list(e)) for f, e in want.items()))))[:4]
            yield ("tree", rid, None, f"stored tree differs from the committed one: {diff}")
            continue
        if not per_file:
            continue
        keys = []
        for fid, e in sorted(got.items()):
            if e[0] is None and not rich:
                continue  # the root of a non-rich-root format has no per-file history
            mv = mh.ver[rid][fid]
            if e[5] != mv or e[6] != mv:
                yield ("last_changed", rid, fid, f"{ft_path(want, fid)!r} ({fid}) last-changed {e[5]}/{e[6]}, model {mv} (model per-file parents {mh.fpar.get((fid, rid))}, revision parents {spec['parents']})")
            if mv == rid:
                keys.append((fid.encode(), rid.encode()))
        pm = repo.texts.get_parent_map(keys)
        for key in keys:
            fid = key[0].decode()
            want_p = tuple((key[0], p.encode()) for p in mh.fpar[(fid, rid)])
            if key not in pm:
                yield ("text_missing", rid, fid, f"no text key {key}")
            elif tuple(pm[key]) != want_p:
                yield ("text_parents", rid, fid, f"{ft_path(want, fid)!r} ({fid}) per-file parents {pm[key]}, model heads {want_p}")


_dag_warmed = False


def warm_dag(fmts=("2a", "pack-0.92")):
    """Exercise the working-tree commit route once per format, pre-fork."""
    global _dag_warmed
    warm()
    if _dag_warmed:
        return
    import os
    import random
    import shutil
    import tempfile

    from simkit.sim import Sim

    sim = Sim(0)
    world.setup_sim(sim)
    scratch = tempfile.mkdtemp(prefix="warmdag", dir=os.environ.get("VERIF_SCRATCH_BASE") or "/dev/shm")
    try:
        for i, fmt in enumerate(fmts):
            url = world.new_store(f"warmdag{i}")
            rng = random.Random(5)
            specs = gen_dag(rng, 6, ghosts=0.2)
            mh = replay_dag(specs)
            db = DagBuilder(url, fmt, "shared", scratch=scratch, tag=f"w{i}")
            for s in specs:
                db.commit(s)
            db.forget()
            r = open_repo(url)
            with r.lock_read():
                list(dag_problems(r, mh, mh.order))
            check_clean(r)
            with r.lock_write():
                r.pack()
    finally:
        shutil.rmtree(scratch, ignore_errors=True)
        world.reset_stores()
    _dag_warmed = True


def stacked_local_problems(url, mh, info=None):
    """The strong local statement of C08 for the stacked repository at `url`, judged on
    Repository.open(url) (no fallbacks attached): inventories of own revisions and of
    their non-ghost parents iterate, and every entry of an own revision whose text key no
    present parent carries has its text locally.  Yields (what, detail).  `info["split"]`
    is set when some own revision has a parent that lives only in the fallback."""
    from breezy.repository import Repository

    from breezy.controldir import ControlDir

    full = open_branch(url).repository
    alone = ControlDir.open(url).find_repository()  # the branch's repository (own or shared), no fallbacks
    if alone._fallback_repositories:
        raise RuntimeError("Repository.open unexpectedly attached fallbacks")
    rich = alone.supports_rich_root()
    with alone.lock_read(), full.lock_read():
        own = sorted(k[0].decode() for k in alone.revisions.keys())
        for rid in own:
            if rid not in mh.revs:
                continue
            parents = [p for p in mh.revs[rid]["parents"] if full.has_revision(p.encode())]
            carried = set()
            mine = None
            for p in [rid] + parents:
                try:
                    t = alone.revision_tree(p.encode())
                    ents = [(ie.file_id, ie.revision, ie.kind, ie.parent_id) for _path, ie in t.iter_entries_by_dir()]
                except Exception as e:  # noqa: BLE001
                    what = "own-inventory" if p == rid else "parent-inventory"
                    yield (what + ":" + type(e).__name__, f"with fallbacks detached the {what} {p} of own revision {rid} cannot be read: {type(e).__name__}: {str(e)[:300]} (own revisions {own}, local inventories {sorted(k[0].decode() for k in alone.inventories.keys())})")
                    return
                if p == rid:
                    mine = ents
                else:
                    carried.update((f, r) for f, r, _k, _p in ents)
            need = [(f, r) for f, r, k, par in mine if (f, r) not in carried and not (par is None and not rich)]
            present = alone.texts.get_parent_map(need)
            missing = sorted(k for k in need if k not in present)
            if missing:
                yield ("text-missing", f"with fallbacks detached, texts {missing[:4]} that own revision {rid} introduces relative to its parents {parents} are not in the stacked repository")
                return
            for rec in alone.texts.get_record_stream(need, "unordered", True):
                if rec.storage_kind == "absent":
                    yield ("text-unreadable", f"text {rec.key} of own revision {rid} absent from the stacked repository alone")
                    return
                try:
                    rec.get_bytes_as("fulltext")
                except Exception as e:  # noqa: BLE001
                    yield ("text-unreadable:" + type(e).__name__, f"text {rec.key} of own revision {rid} cannot be reconstructed without the fallback: {type(e).__name__}: {str(e)[:300]}")
                    return
            if info is not None and any(not alone.has_revision(p.encode()) for p in parents):
                info["split"] = True


def canonical_reads(sim):
    """Order-insensitive canonical form of batched reads in the event log.

    The record-stream code of the pack formats (Rust) issues the readv requests of ONE
    batch read pack by pack in an order that depends on object addresses, hence on the
    heap layout of the run child (which can differ between a run and its re-run through
    pid- or time-dependent allocations of the local working-tree code).  The set of reads
    is the same; reads do not change the simulated world.  Each maximal run of consecutive
    readv events of one actor on packs/ or indices/ files is therefore sorted before the
    log is hashed.  Call it at the end of execute (in a finally clause)."""
    log = sim.log
    vol = sim.vol
    i = 0
    n = len(log)

    def batched(e, actor):
        return len(e) >= 3 and e[0] == actor and e[1] == "readv" and ("/packs/" in e[2] or "/indices/" in e[2]) and "FAULT:" not in "".join(e[3:])

    while i < n:
        e = log[i]
        if len(e) >= 3 and e[1] == "readv" and batched(e, e[0]):
            j = i
            while j < n and batched(log[j], e[0]):
                j += 1
            if j - i > 1:
                pairs = sorted(((log[k], vol.get(k)) for k in range(i, j)), key=lambda p: p[0])
                for k, (ev, v) in zip(range(i, j), pairs):
                    log[k] = ev
                    if v is None:
                        vol.pop(k, None)
                    else:
                        vol[k] = v
            i = j
        else:
            i += 1


def _install_canonical_digest():
    """Checks that commit through local working trees (DagBuilder) hash the canonical form
    of the event log (see canonical_reads): the digest method of the current run's Sim is
    wrapped once."""
    from simkit.sim import cur_sim

    try:
        sim = cur_sim()
    except RuntimeError:
        return
    if getattr(sim, "_canonical_digest", False):
        return
    orig = sim.digest

    def digest():
        canonical_reads(sim)
        return orig()

    sim.digest = digest
    sim._canonical_digest = True
