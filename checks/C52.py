"""C52 — format upgrades and reconfigurations preserve history and trees.

Two kinds of run:

* upgrade: a generated history (merges, renames, kind changes, symlinks, exec bits, tags) is
  committed through a working tree in one of the creatable source formats (knit, pack-0.92,
  rich-root-pack, 1.9, 1.9-rich-root, 1.14, 1.14-rich-root, 2a), pending changes (modified,
  added, renamed, removed files) are left in the tree, and `breezy.upgrade.upgrade(url,
  format=target)` converts the location through the storage seam (`sim+file://`), optionally
  with an `err_before` fault at a seeded mutating store operation.  After a failed conversion
  the location must still show the original state, or a plain retry must complete, or the
  documented recovery (put `backup.bzr` back) must restore the original.
* reconfigure: the same kind of location (standalone tree inside a shared repository, with a
  sibling branch in sync) is taken through a seeded chain of `Reconfigure.to_tree /
  to_branch / to_checkout / to_lightweight_checkout / to_standalone / to_use_shared /
  set_repository_trees` transitions, with pending changes in the tree.

Oracle: branch tip, the testament of every revision of the ancestry (same testament class
before and after), tags, working-tree content and the normalised pending changes."""

import os
import re
import shutil

from simkit import world
from simkit.sim import SimCrash, Violation

from . import histsim, storesim
from .histsim import DIR, FILE, LINK

PROPERTY = "C52"
LEVEL = "exploration"
ISOLATION = "fork"
STEP_CAP = 400000
RULE = (
    "one case = one seeded (history, tags, pending tree changes, source format, target format, err_before fault index) "
    "upgrade, or one seeded chain of reconfigure transitions on a generated location; every transition / conversion "
    "attempt counts as one evaluation; non-trivial = a conversion or at least one transition was actually applied on a "
    "history of >= 2 revisions with pending changes; distinct = distinct event-log digests"
)
COMPONENTS = {
    "real": [
        "breezy.upgrade.upgrade / smart_upgrade / Convert (backup.bzr)",
        "breezy.bzr.bzrdir converters (ConvertMetaToMeta: repository, branch and working-tree format conversion)",
        "breezy.reconfigure.Reconfigure (to_tree, to_branch, to_checkout, to_lightweight_checkout, to_standalone, to_use_shared, set_repository_trees).apply",
        "breezy.bzr.testament, Tree.iter_changes, commit through WorkingTree in every source format",
    ],
    "simulated": ["control-directory storage of the converted location (SimTransport over the local transport): transport errors before a seeded mutating operation"],
    "stub": ["UI (silent)", "working-tree user files and dirstate I/O are real files (not behind the seam)"],
}
ASSUMPTIONS = [
    "testaments are compared with breezy.bzr.testament.Testament on both sides; StrictTestament3 additionally when source and target agree on rich roots (a rich-root upgrade assigns the root a per-revision identity)",
    "after a failed upgrade the check accepts: the original state still readable in place; or a fault-free retry of the same upgrade succeeds and preserves the state; or replacing .bzr by the newest backup.bzr.~N~ restores it (the recovery the upgrade notes name)",
    "reconfigure transitions that refuse (Already*, UncommittedChanges, NoBindLocation, UnsyncedBranches, ReconfigurationNotSupported) must leave the state unchanged; no faults are injected into reconfigure (it has no backup or recovery contract)",
    "to_branch is only applied with force when the run has no pending changes, since it destroys the tree",
    "histories for the knit format avoid kind changes (its working-tree format cannot commit them; not the subject of this property)",
]

PLAIN = ["knit", "pack-0.92", "1.9", "1.14"]
RICHF = ["rich-root-pack", "1.9-rich-root", "1.14-rich-root"]
ALL_SRC = PLAIN + RICHF + ["2a"]


def targets_for(src):
    """Newer formats only (an upgrade never goes back a branch / repository generation)."""
    if src in PLAIN:
        g = PLAIN.index(src)  # knit 0, pack-0.92 1, 1.9 2, 1.14 3
        return PLAIN[g + 1 :] + ["2a"] + RICHF[max(g - 1, 0) :]
    if src in RICHF:
        return RICHF[RICHF.index(src) + 1 :] + ["2a"]
    return []


def is_rich(fmt):
    return fmt in RICHF or fmt == "2a"


def warm():
    storesim.warm()
    import breezy.reconfigure  # noqa: F401
    import breezy.upgrade  # noqa: F401
    from breezy.bzr import bzrdir, knitrepo, workingtree_3, workingtree_4  # noqa: F401
    import breezy.bzr.testament  # noqa: F401
    from simkit.sim import Sim

    def dry(i, kind, src, tgt):
        import random

        rng = random.Random(31 + i)
        plan = generate(rng, "quick")
        while plan["kind"] != kind or (kind == "upgrade" and (plan["src"] == "knit") != (src == "knit")):
            plan = generate(rng, "quick")
        if kind == "upgrade":
            plan["src"], plan["tgt"] = src, tgt
            plan["faults"] = []
        sim = Sim(0, plan, step_cap=STEP_CAP)
        try:
            execute(sim, plan)
        except Violation:
            pass

    for i, (kind, src, tgt) in enumerate([("upgrade", "pack-0.92", "2a"), ("upgrade", "knit", "pack-0.92"), ("upgrade", "rich-root-pack", "2a"), ("upgrade", "1.9", "1.14"), ("reconfigure", None, None)]):
        histsim.warm_scratch(lambda i=i, kind=kind, src=src, tgt=tgt: dry(i, kind, src, tgt))
    world.reset_stores()


def config(tier):
    if tier == "thorough":
        return {"budget_s": 700, "run_timeout": 180, "selftest": 12}
    return {"budget_s": 50, "run_timeout": 180, "selftest": 6}


TRANSITIONS = ["to_tree", "to_branch", "to_checkout", "to_lightweight_checkout", "to_standalone", "to_use_shared", "trees_on", "trees_off"]
TAGS = ["v1", "rel-1.0", "ünï"]


def gen_pending(rng, tree):
    """Uncommitted changes (as histsim actions) on top of model tree `tree`."""
    acts = []
    t = {p: list(v) for p, v in tree.items()}
    files = sorted(p for p, v in t.items() if v[1] == FILE)
    k = rng.choice([0, 1, 2, 3])
    used = set()
    for _ in range(k):
        r = rng.random()
        if r < 0.4 and files:
            p = rng.choice(files)
            if p in used:
                continue
            acts.append(["modify", p, t[p][2] + "pending change\n"])
            used.add(p)
        elif r < 0.65:
            name = f"new{len(acts)}"
            if name in t:
                continue
            acts.append(["add", name, f"pending-{name}", FILE, f"pending {name}\n", rng.random() < 0.3])
            t[name] = [f"pending-{name}", FILE, "", False]
        elif r < 0.85 and files:
            p = rng.choice(files)
            new = f"moved{len(acts)}"
            if p in used or new in t:
                continue
            acts.append(["rename", p, new])
            t[new] = t.pop(p)
            files = sorted(q for q, v in t.items() if v[1] == FILE)
            used.update((p, new))
        elif files:
            p = rng.choice(files)
            if p in used:
                continue
            acts.append(["remove", p])
            t.pop(p)
            files.remove(p)
            used.add(p)
    return acts


def generate(rng, tier):
    kind = "upgrade" if rng.random() < 0.6 else "reconfigure"
    n = rng.choice([1, 2, 3, 4, 6]) if tier != "thorough" else rng.choice([2, 4, 6, 9])
    if kind == "upgrade":
        src = rng.choice([f for f in ALL_SRC if targets_for(f)] + ["knit"])  # format-3 trees twice as often
        tgt = rng.choice(targets_for(src))
    else:
        src = rng.choice(["2a", "2a", "pack-0.92", "1.14-rich-root"])
        tgt = None
    opts = {"odd_names": rng.random() < 0.2, "big": False, "props": rng.random() < 0.3}
    if src == "knit":
        opts["retype"] = False
    # an unmerged line leaves revisions that only the repository holds (dead head); one of them
    # may be tagged or be a pending merge of the working tree
    mh, specs = histsim.gen_history(rng, n, opts, dead_head=n >= 2 and rng.random() < 0.8)
    tip = f"m-{n}"
    anc = sorted(mh.ancestry(tip))
    outside = sorted(set(mh.revs) - set(anc))
    tags = {name: rng.choice(anc + outside + outside) for name in rng.sample(TAGS, rng.choice([0, 1, 2, 3]))}
    pending = gen_pending(rng, mh.tree(tip)) if rng.random() < 0.75 else []
    heads = histsim.heads_outside(mh, tip)
    pending_merge = rng.choice(heads) if heads and rng.random() < 0.6 else None
    plan = {"kind": kind, "specs": specs, "tip": tip, "tags": tags, "pending": pending, "pending_merge": pending_merge, "src": src, "tgt": tgt, "faults": []}
    if kind == "upgrade":
        if src == "knit":
            # format-3 working tree: enumerate fault points over the conversion
            plan["enum"] = rng.randrange(1, 1 << 30)
        elif rng.random() < 0.5:
            plan["faults"] = [{"kind": "err_before", "at": rng.choice([1, 2, 3, 5, 8, 12, 18, 25, 35, 50, 70, 100, 140]), "count": "mut", "err": rng.choice(["transport", "permission", "enospc"])}]
    else:
        plan["chain"] = [rng.choice(TRANSITIONS) for _ in range(rng.choice([1, 2, 3, 4]))]
    return plan


# ------------------------------------------------------------------------------------


def norm_changes(tree):
    """Pending changes of a working tree against its basis, normalised."""
    out = []
    with tree.lock_read():
        basis = tree.basis_tree()
        with basis.lock_read():
            for c in tree.iter_changes(basis):
                out.append(
                    (
                        c.file_id.decode() if c.file_id else None,
                        tuple(c.path),
                        bool(c.changed_content),
                        tuple(c.versioned),
                        tuple(c.kind),
                        tuple(c.executable),
                    )
                )
    return sorted(out, key=repr)


def location_state(path, strict):
    """What the property says must be preserved, read through the plain path."""
    from breezy import errors
    from breezy.branch import Branch
    from breezy.bzr.testament import StrictTestament3, Testament
    from breezy.workingtree import WorkingTree

    storesim.clear_caches()
    st = {}
    b = Branch.open(path)
    with b.lock_read():
        st["tip"] = b.last_revision().decode()
        st["tags"] = {k: v.decode() for k, v in b.tags.get_tag_dict().items()} if b.supports_tags() else {}
        repo = b.repository
        tests = {}
        graph = repo.get_graph()
        for rid, parents in graph.iter_ancestry([b.last_revision()]):
            if rid == b"null:" or parents is None:
                continue
            t = [Testament.from_revision(repo, rid).as_short_text().decode("utf-8", "replace")]
            if strict:
                t.append(StrictTestament3.from_revision(repo, rid).as_short_text().decode("utf-8", "replace"))
            tests[rid.decode()] = t
        st["testaments"] = tests
        # everything the location's repository holds (dead heads, tagged side revisions,
        # pending merges included)
        held = {}
        for rid in sorted(repo.all_revision_ids()):
            held[rid.decode()] = tests.get(rid.decode(), [None])[0] or Testament.from_revision(repo, rid).as_short_text().decode("utf-8", "replace")
        st["repo"] = held
    try:
        wt = WorkingTree.open(path)
    except (errors.NoWorkingTree, errors.NotBranchError):
        st["tree"] = None
    else:
        st["tree"] = histsim.tree_state(wt)
        st["changes"] = norm_changes(wt)
        with wt.lock_read():
            st["parents"] = [p.decode() for p in wt.get_parent_ids()]
    return st


def diff_state(a, b, ignore=(), ignore_revs=()):
    """Keys in which two location states differ (+ short detail)."""
    out = []
    for k in sorted(set(a) | set(b)):
        if k in ignore:
            continue
        if k == "repo":
            # revisions may be added (a shared repository holds more), never lost or changed
            lost = [r for r in sorted(a.get(k) or {}) if (b.get(k) or {}).get(r) != a[k][r] and r not in ignore_revs]
            if lost:
                out.append(f"repo: revisions {lost[:6]} are no longer available (or differ) in the location's repository")
            continue
        if a.get(k) != b.get(k):
            va, vb = a.get(k), b.get(k)
            if k == "testaments" and va and vb:
                bad = [r for r in sorted(set(va) | set(vb)) if va.get(r) != vb.get(r)]
                out.append(f"testaments of {bad[:4]}: {str(va.get(bad[0]))[:300]} -> {str(vb.get(bad[0]))[:300]}")
            elif k == "tree" and va and vb:
                out.append(f"tree: {histsim.diff_trees(vb, va)}")
            else:
                out.append(f"{k}: {str(va)[:300]} -> {str(vb)[:300]}")
    return out


def keys_of(diffs):
    return "+".join(sorted({d.split(":")[0].split(" ")[0] for d in diffs}))


def build_location(path, plan, mh, shared_parent=False):
    """Standalone tree at `path` with the plan's history, tags and pending changes."""
    from breezy.branch import Branch

    tree = histsim.make_tree(path, plan["src"])
    bld = histsim.Builder(tree, histsim.Hist())
    for s in plan["specs"]:
        bld.commit(s)
    if bld.tip != plan["tip"]:
        bld.switch_to(plan["tip"])
    b = Branch.open(path)
    histsim.check_built(b.repository, mh)
    if b.supports_tags():  # the knit-era branch format has no tags
        for name, rid in sorted(plan["tags"].items()):
            b.tags.set_tag(name, rid.encode())
    if plan["pending"]:
        bld.apply(plan["pending"])
    if plan.get("pending_merge"):
        with bld.tree.lock_write():
            bld.tree.set_parent_ids([plan["tip"].encode(), plan["pending_merge"].encode()])
    return bld


def norm_exc(e):
    s = f"{type(e).__name__}:{str(e).splitlines()[0] if str(e) else ''}"
    s = re.sub(r"/dev/shm/\S+", "<path>", s)
    s = re.sub(r"b?'[^']*'|b?\"[^\"]*\"", "<q>", s)
    s = re.sub(r"[0-9]{2,}", "N", s)
    return s[:80]


def execute(sim, plan):
    sim.disarm()
    world.setup_sim(sim)
    histsim.relativise_log(sim)
    os.chdir(os.environ["VERIF_SCRATCH"])
    mh = histsim.replay(plan["specs"])
    if plan["kind"] == "upgrade":
        _upgrade(sim, plan, mh)
    else:
        _reconfigure(sim, plan, mh)


# -- upgrade ---------------------------------------------------------------------------


_seam_cls = []


def seam_local_transport(url):
    """Format-3 working trees insist on `isinstance(transport, LocalTransport)`, so a decorator
    (sim+file://) makes the converter skip the tree silently.  For those locations the seam is
    a SUBCLASS of the local transport: every mutating call of it (and of its clones) goes
    through Sim.before_op/after_op exactly as in simkit.transport.SimTransport."""
    if not _seam_cls:
        from dromedary.local import LocalTransport
        from simkit.sim import cur_sim

        class SeamLocalTransport(LocalTransport):
            def clone(self, offset=None):
                return SeamLocalTransport(self.abspath(offset) if offset else self.base)

            def _do(self, op, relpath, fn, extra=""):
                p_ = self.local_abspath(relpath)
                sim = cur_sim()
                sim.before_op(op, p_, True, extra)
                try:
                    r = fn()
                except BaseException:
                    if sim.current().pending_crash_after:
                        sim.after_op(op, p_)
                    raise
                sim.after_op(op, p_)
                return r

            def put_bytes(self, relpath, raw_bytes, mode=None):
                return self._do("put", relpath, lambda: LocalTransport.put_bytes(self, relpath, raw_bytes, mode))

            def put_file(self, relpath, f, mode=None):
                data = f.read()
                return self._do("put", relpath, lambda: LocalTransport.put_bytes(self, relpath, data, mode))

            def put_bytes_non_atomic(self, relpath, raw_bytes, mode=None, create_parent_dir=False, dir_mode=None):
                return self._do("put_na", relpath, lambda: LocalTransport.put_bytes_non_atomic(self, relpath, raw_bytes, mode=mode, create_parent_dir=create_parent_dir, dir_mode=dir_mode))

            def put_file_non_atomic(self, relpath, f, mode=None, create_parent_dir=False, dir_mode=None):
                return self.put_bytes_non_atomic(relpath, f.read(), mode, create_parent_dir, dir_mode)

            def append_bytes(self, relpath, data, mode=None):
                return self._do("append", relpath, lambda: LocalTransport.append_bytes(self, relpath, data, mode))

            def append_file(self, relpath, f, mode=None):
                return self.append_bytes(relpath, f.read(), mode)

            def mkdir(self, relpath, mode=None):
                return self._do("mkdir", relpath, lambda: LocalTransport.mkdir(self, relpath, mode))

            def rename(self, rel_from, rel_to):
                return self._do("rename", rel_from, lambda: LocalTransport.rename(self, rel_from, rel_to), extra=rel_to)

            def move(self, rel_from, rel_to):
                return self._do("move", rel_from, lambda: LocalTransport.move(self, rel_from, rel_to), extra=rel_to)

            def delete(self, relpath):
                return self._do("delete", relpath, lambda: LocalTransport.delete(self, relpath))

            def rmdir(self, relpath):
                return self._do("rmdir", relpath, lambda: LocalTransport.rmdir(self, relpath))

            def copy(self, rel_from, rel_to):
                return self._do("copy", rel_from, lambda: LocalTransport.copy(self, rel_from, rel_to), extra=rel_to)

        _seam_cls.append(SeamLocalTransport)
    return _seam_cls[0](url)


def _run_upgrade(path, fmt, local_seam):
    """The upgrade driver: breezy.upgrade.upgrade(url), or - for format-3 trees - the same
    smart_upgrade on a control directory opened over the subclass seam."""
    from breezy import controldir
    from breezy.upgrade import smart_upgrade, upgrade

    if not local_seam:
        return upgrade("sim+file://" + path, format=fmt)
    t = seam_local_transport("file://" + path + "/")
    cd = controldir.ControlDir.open_unsupported(t.base, possible_transports=[t]) if False else controldir.ControlDir.open_from_transport(t)
    return smart_upgrade([cd], fmt)[2]


def _break_locks(path):
    from breezy.workingtree import WorkingTree

    for opener in (storesim.open_branch, storesim.open_repo, WorkingTree.open):
        try:
            opener(path).break_lock()
        except Exception:  # noqa: BLE001
            pass


def _attempt(sim, plan, mh, path, before, faults, strict, tree_phase, label):
    """One upgrade of the location at `path` with `faults` armed; judges the outcome.
    tree_phase: the fault sits in the working-tree conversion, every intermediate state of
    which is a readable tree: the location must then be intact IN PLACE and a retry must work
    (no recourse to backup.bzr)."""
    from breezy import controldir

    src, tgt = plan["src"], plan["tgt"]
    local_seam = src == "knit"
    upgrade = lambda _url, format=None: _run_upgrade(path, format, local_seam)  # noqa: E731
    url = "sim+file://" + path
    fmt = controldir.format_registry.make_controldir(tgt)
    sig = [f"{src}->{tgt}"]
    name = os.path.basename(path)
    sim.fault_filter = lambda a, op, p, mutating: f"/{name}/" in p
    n0 = sum(sim.faults_fired.values())
    sim.arm(faults)
    err = None
    crashed = False
    try:
        excs = upgrade(url, format=fmt)
        if excs:
            err = excs[0]
    except SimCrash:
        crashed = True
    except Exception as e:  # noqa: BLE001
        err = e
    fired = sum(sim.faults_fired.values()) - n0
    sim.disarm()
    if crashed:
        sim.restart_main()
    sim.notes["evaluations"] = sim.notes.get("evaluations", 0) + 1
    if err is not None and not fired:
        import traceback

        sim.fail("upgrade_fails", ["upgrade_fails"] + sig + [norm_exc(err)], f"upgrade {src} -> {tgt} failed without any fault: {type(err).__name__}: {err}\n{''.join(traceback.format_exception(err))[-1500:]}")
    if err is None and not crashed:
        after = _state_or_fail(sim, path, strict, ["unreadable_after_upgrade"] + sig, "after the upgrade")
        d = diff_state(before, after)
        if d:
            sim.fail("not_preserved", ["not_preserved"] + sig + [keys_of(d)], f"upgrade {src} -> {tgt} (pending {plan['pending']}, pending merge {plan.get('pending_merge')}, tags {plan['tags']}) changed: {d}")
        _check_format(sim, path, tgt, sig)
        sim.probe("upgrade_ok")
        if fired:
            sim.probe("fault_absorbed")
        sim.event("upgrade", label, src, tgt, "ok")
        return "ok"
    # the conversion failed under the injected fault
    sim.probe("upgrade_interrupted")
    sim.event("upgrade", label, src, tgt, "interrupted", "crash" if crashed else type(err).__name__)
    _break_locks(path)
    how = None
    problem = None
    try:
        now = location_state(path, strict)
        d = diff_state(before, now)
        if not d:
            how = "intact"
        else:
            problem = "state differs: " + "; ".join(d)[:600]
    except Exception as e:  # noqa: BLE001
        problem = f"unreadable: {type(e).__name__}: {e}"
        sim.event("after-failure", "unreadable", type(e).__name__)
    what = f"upgrade {src}->{tgt} interrupted at {label} ({'crash' if crashed else type(err).__name__ + ': ' + str(err)[:200]})"
    if tree_phase and how is None:
        sim.fail("tree_conversion_not_atomic", ["tree_conversion_not_atomic"] + sig + ["after-failure"], f"{what}: the fault hit the working-tree conversion, after which the location must still be a readable tree with basis, pending merges and changes intact, but: {problem}")
    # a retry must either complete or leave things recoverable
    retry_err = None
    try:
        excs = upgrade(url, format=fmt)
        if excs:
            retry_err = excs[0]
    except Exception as e:  # noqa: BLE001
        retry_err = e
    sim.notes["evaluations"] += 1
    if retry_err is None or type(retry_err).__name__ == "UpToDateFormat":
        try:
            now = location_state(path, strict)
            d = diff_state(before, now)
        except Exception as e:  # noqa: BLE001
            d = [f"unreadable: {type(e).__name__}: {e}"]
        if not d:
            how = (how + "+" if how else "") + "retry"
            sim.probe("retry_completes")
            retry_err = None
        else:
            sim.event("retry", "state-differs", keys_of(d))
            retry_err = RuntimeError("state differs after retry: " + "; ".join(d)[:600])
    if retry_err is not None and tree_phase:
        sim.fail("tree_conversion_not_atomic", ["tree_conversion_not_atomic"] + sig + ["retry"], f"{what}: the location was intact, but the retried upgrade does not complete: {type(retry_err).__name__}: {str(retry_err)[:600]}")
    if retry_err is not None and how is None:
        sim.event("retry", "failed", type(retry_err).__name__)
        # documented recovery: put the backup back (the first one holds the original)
        backups = sorted((n for n in os.listdir(path) if n.startswith("backup.bzr")), key=lambda n_: int(re.sub(r"\D", "", n_) or 0))
        if backups:
            shutil.rmtree(os.path.join(path, ".bzr"), ignore_errors=True)
            os.rename(os.path.join(path, backups[0]), os.path.join(path, ".bzr"))
            try:
                now = location_state(path, strict)
                d = diff_state(before, now)
            except Exception as e:  # noqa: BLE001
                d = [f"unreadable: {type(e).__name__}: {e}"]
            if not d:
                how = "backup"
                sim.probe("recovered_from_backup")
            else:
                sim.fail("unrecoverable", ["unrecoverable"] + sig + ["backup-differs"], f"{what}; retry failed ({type(retry_err).__name__}: {retry_err}); restoring {backups[0]} gives a different state: {d}")
        else:
            sim.fail("unrecoverable", ["unrecoverable"] + sig + ["no-backup"], f"{what}; the location is neither intact nor does a retry complete ({type(retry_err).__name__}: {str(retry_err)[:500]}) and there is no backup.bzr")
    sim.event("recovery", label, how)
    return how


def _upgrade(sim, plan, mh):
    src, tgt = plan["src"], plan["tgt"]
    strict = is_rich(src) == is_rich(tgt)
    path = histsim.scratch("loc")
    build_location(path, plan, mh)
    before = location_state(path, strict)
    sim.nontrivial = len(mh.revs) >= 2 and bool(plan["pending"])
    if not plan.get("enum"):
        how = _attempt(sim, plan, mh, path, before, plan.get("faults", []), strict, False, "single")
        sim.nontrivial = sim.nontrivial or how != "ok"
        sim.state_seen((src, tgt, bool(plan["pending"]), bool(plan["tags"]), how))
        return
    # enumeration over the store operations of the conversion (format-3 working trees): a
    # fault-free pass on a copy lists the mutating operations, then one copy per fault point
    ops = []

    def mon(s, actor, phase, op, p, extra):
        if phase == "before" and "/dry/" in p and op not in ("get", "has", "stat", "list_dir", "readv", "iter_files_recursive", "stream_close", "readlink"):
            ops.append((op, p.split("/dry/", 1)[1]))

    dry = histsim.scratch("dry")
    shutil.copytree(path, dry, symlinks=True)
    sim.monitors.append(mon)
    _attempt(sim, plan, mh, dry, before, [], strict, False, "dry")
    sim.monitors.remove(mon)
    shutil.rmtree(dry)
    tree_ops = [k for k, (op, p) in enumerate(ops, 1) if p.startswith(".bzr/checkout/")]
    marker_ops = [k for k in tree_ops if ops[k - 1][1].endswith("/format")]
    sim.event("dry", len(ops), len(tree_ops), [ops[k - 1] for k in marker_ops])
    points = []
    for k in range(1, len(ops) + 1):
        for variant in ("err_before", "crash-dropped", "crash-applied"):
            points.append((k, variant))
    if getattr(sim, "tier", "quick") != "thorough":
        rng = sim.rng("points:%d" % plan["enum"])
        must = [(k, v) for k, v in points if k in marker_ops]
        rest_tree = [(k, v) for k, v in points if k in tree_ops and k not in marker_ops]
        rest = [(k, v) for k, v in points if k not in tree_ops]
        rng.shuffle(rest_tree)
        rng.shuffle(rest)
        points = sorted(must + rest_tree[:5] + rest[:3])
    if plan.get("only"):
        points = [tuple(x) for x in plan["only"]]
    outcomes = []
    for j, (k, variant) in enumerate(points):
        if variant == "err_before":
            f = {"kind": "err_before", "at": k, "count": "mut", "err": "enospc" if k % 2 else "transport"}
        else:
            f = {"kind": "crash", "at": k, "count": "mut", "applied": variant == "crash-applied"}
        cp = histsim.scratch(f"p{j}")
        shutil.copytree(path, cp, symlinks=True)
        in_tree = k in tree_ops
        try:
            how = _attempt(sim, plan, mh, cp, before, [f], strict, in_tree, f"k{k}:{variant}:{ops[k - 1][0]}:{ops[k - 1][1] if in_tree else storesim.path_class(ops[k - 1][1])}")
        except Violation:
            plan["only"] = [[k, variant]]
            raise
        outcomes.append(how)
        shutil.rmtree(cp, ignore_errors=True)
        if in_tree:
            sim.probe("fault_in_tree_conversion")
    sim.nontrivial = True
    sim.state_seen((src, tgt, bool(plan["pending"]), bool(plan.get("pending_merge")), tuple(sorted(set(map(str, outcomes))))))


def _state_or_fail(sim, path, strict, sig, what):
    try:
        return location_state(path, strict)
    except Exception as e:  # noqa: BLE001
        import traceback

        sim.fail(sig[0], sig + [type(e).__name__], f"{what} the location cannot be read: {type(e).__name__}: {e}\n{traceback.format_exc()[-1500:]}")


def _check_format(sim, path, tgt, sig):
    from breezy import controldir

    want = controldir.format_registry.make_controldir(tgt)
    cd = controldir.ControlDir.open(path)
    got = cd.open_repository()._format
    if type(got) is not type(want.repository_format):
        sim.fail("format", ["format"] + sig, f"after upgrade to {tgt} the repository format is {got}, expected {want.repository_format}")
    try:
        wt = cd.open_workingtree(recommend_upgrade=False)
    except Exception:  # noqa: BLE001
        wt = None
    if wt is not None and type(wt._format) is not type(want.workingtree_format):
        sim.fail("format", ["format", "tree"] + sig, f"after upgrade to {tgt} the working tree format is {wt._format}, expected {want.workingtree_format}")


# -- reconfigure -----------------------------------------------------------------------


def _reconfigure(sim, plan, mh):
    from breezy import controldir, errors, reconfigure
    from breezy.branch import Branch

    src = plan["src"]
    shared = histsim.scratch("shared")
    os.makedirs(shared)
    fmt = controldir.format_registry.make_controldir(src)
    cd = fmt.initialize(shared)
    cd.create_repository(shared=True)
    path = os.path.join(shared, "main")
    # standalone (own repository) although a shared one is above it
    build_location(path, plan, mh)
    # a sibling branch in sync, inside the shared repository
    trunk = os.path.join(shared, "trunk")
    Branch.open(path).controldir.sprout(trunk, revision_id=plan["tip"].encode(), create_tree_if_local=False)
    # a tag that only the location itself has (set after the sibling was made)
    mb = Branch.open(path)
    if plan["tags"] and mb.supports_tags():
        mb.tags.set_tag("late-tag", plan["tip"].encode())
    strict = True
    before = location_state(path, strict)
    url = "sim+file://" + path
    applied = 0
    sim.notes["evaluations"] = 0
    layout = []
    for step, tr in enumerate(plan["chain"]):
        sim.notes["evaluations"] += 1
        cdir = controldir.ControlDir.open(url)
        had_tree = before["tree"] is not None
        force = False
        try:
            if tr == "to_tree":
                rc = reconfigure.Reconfigure.to_tree(cdir)
            elif tr == "to_branch":
                rc = reconfigure.Reconfigure.to_branch(cdir)
                force = not plan["pending"] and not plan.get("pending_merge")
            elif tr == "to_checkout":
                rc = reconfigure.Reconfigure.to_checkout(cdir, "sim+file://" + trunk)
            elif tr == "to_lightweight_checkout":
                rc = reconfigure.Reconfigure.to_lightweight_checkout(cdir, "sim+file://" + trunk)
            elif tr == "to_standalone":
                rc = reconfigure.Reconfigure.to_standalone(cdir)
            elif tr == "to_use_shared":
                rc = reconfigure.Reconfigure.to_use_shared(cdir)
            else:
                rc = reconfigure.Reconfigure.set_repository_trees(controldir.ControlDir.open("sim+file://" + shared), tr == "trees_on")
            rc.apply(force=force)
            outcome = "applied"
            applied += 1
        except (reconfigure.BzrDirError, errors.UncommittedChanges, errors.NoRepositoryPresent) as e:
            outcome = "refused:" + type(e).__name__
        except Exception as e:  # noqa: BLE001
            import traceback

            sim.fail("reconfigure_raises", ["reconfigure_raises", tr, norm_exc(e)], f"step {step} {tr} (chain {plan['chain']}, layout so far {layout}) raised {type(e).__name__}: {e}\n{traceback.format_exc()[-1500:]}")
        layout.append(f"{tr}:{outcome}")
        sim.event("transition", step, tr, outcome)
        sim.probe("transition_" + outcome.split(":")[0])
        sim.probe(f"{tr}_{outcome.split(':')[0]}")
        after = _state_or_fail(sim, path, strict, ["unreadable_after_reconfigure", tr], f"after {tr} ({outcome}, chain {layout})")
        ignore = set()
        if tr == "to_branch" and outcome == "applied":
            ignore = {"tree", "changes", "parents"}
            if before["tree"] is not None and before.get("changes"):
                sim.fail("tree_destroyed", ["tree_destroyed", tr], f"{tr} destroyed a tree with pending changes {before['changes'][:3]} without force")
        if tr == "to_tree" and outcome == "applied" and before["tree"] is None:
            ignore = {"tree", "changes", "parents"}
        if before["tree"] is None and after["tree"] is not None and outcome == "applied":
            ignore = {"tree", "changes", "parents"}
        # revisions the location refers to (history, tags, pending merges) must stay available in
        # its repository; unreferenced ones (dead heads) too whenever the old repository is gone
        referenced = set(mh.ancestry(before["tip"]))
        # (tags may legitimately name revisions a repository does not hold - e.g. after `branch` -
        # so tagged side revisions count only when the old repository is destroyed)
        if after["tree"] is not None or "parents" not in ignore:
            for p_ in before.get("parents") or []:
                referenced |= mh.ancestry(p_)
        old_repo_gone = outcome == "applied" and tr in ("to_lightweight_checkout", "to_use_shared")
        ignore_revs = () if old_repo_gone else [r for r in before["repo"] if r not in referenced]
        d = diff_state(before, after, ignore, ignore_revs)
        if d:
            sim.fail("not_preserved", ["not_preserved", tr, outcome.split(":")[0], keys_of(d)], f"{tr} ({outcome}; chain {layout}; pending {plan['pending']}; pending merge {plan.get('pending_merge')}; tags {plan['tags']}) changed: {d}")
        if after["tree"] is not None and before["tree"] is None:
            # a freshly created tree must be a clean checkout of the tip
            if after.get("changes"):
                sim.fail("new_tree_dirty", ["new_tree_dirty", tr], f"{tr} created a tree that has changes {after['changes'][:3]}")
        before = after
    # a pending merge that survived must still be committable, without ghosts
    if before["tree"] is not None and len(before.get("parents") or []) > 1:
        from breezy.workingtree import WorkingTree

        wt = WorkingTree.open(path)
        try:
            new_rev = wt.commit(message="merge", rev_id=b"final-merge", timestamp=1_600_000_000, timezone=0, committer=histsim.COMMITTERS[0])
        except Exception as e:  # noqa: BLE001
            sim.fail("pending_merge_uncommittable", ["pending_merge_uncommittable", layout[-1].split(":")[0] if layout else "-", norm_exc(e)], f"after chain {layout} the pending merge {before['parents']} cannot be committed: {type(e).__name__}: {e}")
        repo = WorkingTree.open(path).branch.repository
        with repo.lock_read():
            rev = repo.get_revision(new_rev)
            ghosts = [p_.decode() for p_ in rev.parent_ids if not repo.has_revision(p_)]
        if ghosts or [p_.decode() for p_ in rev.parent_ids] != before["parents"]:
            sim.fail("pending_merge_ghost", ["pending_merge_ghost", "+".join(t.split(":")[0] for t in layout if t.endswith("applied"))[:60]], f"after chain {layout} committing the pending merge recorded parents {rev.parent_ids} of which {ghosts} are not in the repository (pending parents were {before['parents']})")
        sim.probe("pending_merge_committed")
    sim.nontrivial = applied > 0 and len(mh.revs) >= 2 and bool(plan["pending"] or plan.get("pending_merge"))
    sim.state_seen((src, tuple(layout), bool(plan["pending"]), bool(plan.get("pending_merge"))))


def shrink_candidates(plan):
    import copy

    if plan.get("chain") and len(plan["chain"]) > 1:
        for i in range(len(plan["chain"])):
            p = copy.deepcopy(plan)
            del p["chain"][i]
            yield p
    if plan.get("pending"):
        for i in range(len(plan["pending"])):
            p = copy.deepcopy(plan)
            del p["pending"][i]
            yield p
    if plan.get("tags"):
        for k in sorted(plan["tags"]):
            p = copy.deepcopy(plan)
            del p["tags"][k]
            yield p
    specs = plan["specs"]
    main = [s["id"] for s in specs if s["id"].startswith("m-")]
    ids = [s["id"] for s in specs]
    for cut in main[:-1][::-1]:
        p = copy.deepcopy(plan)
        i = ids.index(cut)
        keep = histsim.replay(specs[: i + 1]).ancestry(cut)
        p["specs"] = [s for s in p["specs"][: i + 1] if s["id"] in keep]
        p["tip"] = cut
        p["tags"] = {k: v for k, v in p["tags"].items() if v in keep}
        p["pending"] = []
        yield p
