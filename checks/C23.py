"""C23 — Checkouts and their master branches stay in step.

World: a master branch (2a) on a simulated memory store; 1-2 heavyweight checkouts A, B
(bound branch + repository + working tree in a real directory, control files through the
storage seam) and a lightweight checkout M of the master used for commits made "directly
to the master".  One run = a seeded history of 6-16 operations: commit in a checkout
(bound, or `local=True`), commit to the master through M (after `update`, or from a stale
tree), `tree.update()`, `tree.pull(master)`, `bind` / `unbind`, a tag set in a checkout,
re-opening all objects; some bound commits run with a storage error injected at the master's
put of `last-revision` (offset 0) or at the n-th storage operation after it (offset 1-4: the
window up to and beyond the local put).  An independent branch O follows the master and
adds revisions; checkouts pull it with `local=True` and plainly, with and without
stop_revision.  "race": both checkouts, in step with the master, commit CONCURRENTLY as two
actors interleaved at storage operations by the seeded scheduler (random), or by a template
that suspends the first committer right before it takes the master's write lock - after it
compared the tips - until the second one is done.

Oracle: a model of the revision graph + master tip + per checkout (local tip, bound flag).
After EVERY operation both branches' `last_revision_info()`, read from fresh objects, must
equal the model (tip and revno = length of the left-hand history).  Refusals
(BoundBranchOutOfDate, OutOfDateTree, LocalRequiresBoundBranch, DivergedBranches) must be
raised exactly when the model says so and leave both branches, the tree's parents, its
pending changes and its files unchanged.  Under the injected error: the local branch must
never hold the new revision while the master does not; the master-first outcome is accepted
and the next `update` must bring local == master.  Pull from O: the master is judged first
by the update law (descendant => moves, contains => stays, else DivergedBranches), then the
local branch; after a plain pull both are at the wanted revision whenever the law says so
(in particular after `pull --local` left the master behind).  Race: every commit that
returned normally is in the master's left-hand history as read from the repository, nothing
that was there is lost, a refused committer (BoundBranchOutOfDate / OutOfDateTree /
LockContention) keeps its branch, tree and files."""

import json
import os

from simkit import findings, world
from simkit.sim import SimCrash

from . import cosim, storesim
from . import treesim as T
from .cosim import NULL

PROPERTY = "C23"
LEVEL = "exploration"
ISOLATION = "thread"
STEP_CAP = 400000
RULE = (
    "one case = one seeded history (6-16 operations: bound / local / direct-to-master commits, update, pull, bind, unbind, tag, reopen, "
    "optional storage error around the master's tip write of a bound commit) over a master and 1-2 heavyweight checkouts; "
    "non-trivial = at least one commit met an out-of-date checkout (refusal), or a local-only commit / pull happened, or the injected error fired, or two checkouts committed concurrently; "
    "distinct = distinct event-log digests of such runs"
)
COMPONENTS = {
    "real": [
        "breezy.commit.Commit._check_bound_branch / _check_out_of_date_tree / _update_branches",
        "breezy.branch.Branch.import_last_revision_info_and_tags, GenericInterBranch.pull/_pull, fetch between checkout repository and master repository",
        "breezy.bzr.branch.BzrBranch.bind / unbind / update / get_master_branch / set_last_revision_info",
        "breezy.bzr.workingtree.WorkingTree.update / _update_tree / pull (merge into the tree), dirstate working trees on /dev/shm",
    ],
    "simulated": [
        "disk of the master (SimTransport over memory transport) and of the checkouts' control directories (sim+file://)",
        "one storage operation of a bound commit failing (err_before) at / after the master's put of last-revision",
        "process restart (fresh objects; left-over locks broken after an injected error)",
        "clock of breezy.lockdir",
    ],
    "stub": ["UI (SilentUIFactory)", "user identity / BRZ_HOME (scratch)"],
}
ASSUMPTIONS = [
    "every commit adds one new file with a name unique to the run, so update / pull never meet content conflicts (a run in which a tree reports conflicts stops without verdict: probe tree_conflicts)",
    "pull from the master is `tree.pull(master)`; 'leaves the local branch equal to the master' is asserted when the local tip is an ancestor of the master's tip; when the local branch is ahead of the master (local-only commits) pull is a no-op, when they diverged it must be refused with DivergedBranches and change nothing (equality is impossible without discarding local commits; `update` does that and is asserted unconditionally for bound checkouts)",
    "`update` in an unbound checkout only brings the tree to its own branch; nothing is asserted about the master then",
    "the parents recorded by a commit are read from the real tree before the commit (they feed the model's graph: ancestry decides pull outcomes); they are not judged here (C16 / C09 do)",
    "under an injected error only the ORDER is judged (never local-ahead-of-master) plus convergence by the next update; a tip that moved although commit raised is C01's finding, not judged here",
    "pull from the independent branch O follows the per-branch update law of C21 (master first, then local); when the master accepts and the local branch then refuses (diverged local-only commits) the master has moved although the pull raised - accepted, as in C21; `pull --local` moves only the local branch",
    "race: actors share nothing but the stores and their own checkout directory; both trees are in step before; which committer wins is not judged, only that acknowledged revisions are in the master's left-hand history, that it loses nothing, and that a refusal changes nothing for the refused checkout; the parking template uses the virtual clock (the first committer sleeps right before its first write below master/.bzr/branch/lock)",
    "bind performs no divergence check (the docstring promises one, the code and the property text do not); tags are exercised (they add storage operations between the two tip writes) but not judged",
]


def config(tier):
    if tier == "thorough":
        return {"budget_s": 700, "run_timeout": 180, "selftest": 24, "max_runs": 8000}  # in-process runs keep ~0.3 MB each
    return {"budget_s": 50, "run_timeout": 180, "selftest": 12}


# --------------------------------------------------------------------------------------
# model
# --------------------------------------------------------------------------------------


class Model:
    def __init__(self, names):
        self.g = cosim.Graph()
        self.master = NULL
        self.co = {c: {"tip": NULL, "bound": True, "basis": NULL} for c in names}
        self.mbasis = NULL  # basis of M, the lightweight checkout of the master
        self.other = NULL  # tip of O, an independent branch that follows the master and adds to it

    def predict(self, op):
        """{"refusal": None | exception name, "master": tip, "tip": local tip}."""
        g = self.g
        kind = op[0]
        if kind == "mcommit":
            if op[1].get("update", True) or self.mbasis == self.master or self.master == NULL:
                return {"refusal": None}
            return {"refusal": "OutOfDateTree"}
        c = self.co[op[1]]
        if kind == "commit":
            local = bool(op[2].get("local"))
            if local and not c["bound"]:
                return {"refusal": "LocalRequiresBoundBranch"}
            if c["bound"] and not local:
                if c["tip"] != self.master:
                    return {"refusal": "BoundBranchOutOfDate"}
                ref = self.master
            else:
                ref = c["tip"]
            if ref != c["basis"] and ref != NULL:
                return {"refusal": "OutOfDateTree"}
            return {"refusal": None, "via_master": c["bound"] and not local}
        if kind == "pull":
            if c["tip"] == self.master or g.is_ancestor(self.master, c["tip"]):
                return {"refusal": None, "tip": c["tip"]}
            if g.is_ancestor(c["tip"], self.master):
                return {"refusal": None, "tip": self.master}
            return {"refusal": "DivergedBranches"}
        if kind == "update":
            return {"refusal": None, "tip": self.master if c["bound"] else c["tip"]}
        return {"refusal": None}

    def law(self, cur, req):
        """Branch update law without overwrite: (new tip, refusal)."""
        g = self.g
        if cur == req or g.is_ancestor(req, cur):
            return cur, None
        if g.is_ancestor(cur, req):
            return req, None
        return cur, "DivergedBranches"

    def predict_opull(self, c, local, req):
        """Pull from the OTHER branch into checkout c: the master is judged first (unless
        local / unbound), then the local branch."""
        co = self.co[c]
        if local and not co["bound"]:
            return {"refusal": "LocalRequiresBoundBranch", "master": self.master, "tip": co["tip"]}
        master = self.master
        if co["bound"] and not local:
            master, ref = self.law(self.master, req)
            if ref:
                return {"refusal": ref, "master": self.master, "tip": co["tip"], "who": "master"}
        tip, ref = self.law(co["tip"], req)
        return {"refusal": ref, "master": master, "tip": tip, "who": "local" if ref else None}

    def state(self):
        return (self.master, tuple(sorted((k, v["tip"], v["bound"]) for k, v in self.co.items())))


# --------------------------------------------------------------------------------------
# generation
# --------------------------------------------------------------------------------------


def generate(rng, tier):
    names = ["A"] if rng.random() < 0.3 else ["A", "B"]
    # a light generation-time model: tips as opaque tokens with ancestry through parents
    m = Model(names)
    pend = {c: [] for c in names}  # pending merges of the trees (as update leaves them)
    ops = []
    n = 0
    for c in names:
        m.co[c]["tip"] = m.co[c]["basis"] = NULL
    otip = [NULL]
    weights = {"other": rng.choice([0, 1, 2, 3]), "race": rng.choice([0, 1, 2]) if len(names) > 1 else 0, "commit": 6, "lcommit": rng.choice([0, 2, 3]), "mcommit": rng.choice([1, 2, 3]), "update": 3, "pull": rng.choice([1, 2]), "bind": rng.choice([0, 1, 2]), "tag": rng.choice([0, 1]), "reopen": 1}
    pool = [k for k, w in sorted(weights.items()) for _ in range(w)]
    nfaults = 0
    first = rng.random() < 0.9
    for _ in range(rng.randint(6, 16)):
        kind = rng.choice(pool)
        if first:
            # most histories start with a revision in the master (an empty master with a
            # local-only commit is the territory of a reported defect of update)
            kind, first = "mcommit", False
        c = rng.choice(names)
        co = m.co[c]
        if kind in ("commit", "lcommit"):
            n += 1
            a = {"local": kind == "lcommit", "n": n}
            op = ["commit", c, a]
            p = m.predict(op)
            if p["refusal"] is None and p.get("via_master") and nfaults < 2 and rng.random() < 0.3:
                a["fault"] = {"off": rng.choice([0, 1, 1, 1, 2, 2, 3, 4]), "err": rng.choice(["transport", "transport", "enospc", "connection"])}
                nfaults += 1
                ops.append(op)
                ops.append(["recover", c])
                # generation assumes the master-first outcome repaired by update
                rev = "r%d" % n
                if a["fault"]["off"] > 0:
                    m.g.add(rev, [co["basis"]] + pend[c])
                    pend[c] = []
                    m.master = rev
                    co["tip"] = co["basis"] = rev
                continue
            ops.append(op)
            if p["refusal"] is None:
                rev = "r%d" % n
                m.g.add(rev, [co["basis"]] + pend[c])
                pend[c] = []
                if p.get("via_master"):
                    m.master = rev
                co["tip"] = co["basis"] = rev
        elif kind == "mcommit":
            n += 1
            upd = rng.random() < 0.8
            op = ["mcommit", {"update": upd, "n": n}]
            ops.append(op)
            if m.predict(op)["refusal"] is None:
                rev = "r%d" % n
                m.g.add(rev, [m.master])
                m.master = m.mbasis = rev
        elif kind == "update":
            ops.append(["update", c])
            if co["bound"]:
                old = co["tip"]
                co["tip"] = co["basis"] = m.master
                if not m.g.is_ancestor(old, m.master):
                    pend[c].append(old)
        elif kind == "pull":
            op = ["pull", c]
            ops.append(op)
            p = m.predict(op)
            if p["refusal"] is None:
                co["tip"] = co["basis"] = p["tip"]
        elif kind == "other":
            # the OTHER branch moves ahead of the master; the checkout pulls it --local
            # and / or plainly, with and without an explicit stop_revision
            if m.master == NULL:
                continue
            n += 1
            ops.append(["ocommit", {"n": n, "sync": True}])
            orev = "o%d" % n
            m.g.add(orev, [m.master])
            otip[0] = orev
            if rng.random() < 0.4:
                n += 1
                ops.append(["ocommit", {"n": n, "sync": False}])
                m.g.add("o%d" % n, [orev])
                otip[0] = orev = "o%d" % n
            seq = rng.choice([[True, False], [True, False], [False], [True], [True, True, False]])
            for local in seq:
                stop = rng.choice([None, None, "tip", "parent"])
                ops.append(["opull", c, {"local": local, "stop": stop}])
            if co["bound"] and m.g.is_ancestor(co["tip"], orev):
                co["tip"] = co["basis"] = orev
                if False in seq:
                    m.master = orev
        elif kind == "race":
            # both checkouts in step, then both commit concurrently
            for x in names:
                if not m.co[x]["bound"]:
                    ops.append(["bind", x])
                    m.co[x]["bound"] = True
                ops.append(["update", x])
            n += 2
            first_c = rng.choice(names)
            mode = rng.choice(["park", "park", "park", "random"])
            ops.append(["race", {"n1": n - 1, "n2": n, "first": first_c, "mode": mode}])
            winner = [x for x in names if x != first_c][0] if mode == "park" else first_c
            rev = "r%d" % (n - 1 if winner == first_c else n)
            m.g.add(rev, [m.master])
            for x in names:
                m.co[x]["tip"] = m.co[x]["basis"] = m.master
                pend[x] = []
            m.master = rev
            m.co[winner]["tip"] = m.co[winner]["basis"] = rev
        elif kind == "bind":
            if co["bound"]:
                ops.append(["unbind", c])
                co["bound"] = False
            else:
                ops.append(["bind", c])
                co["bound"] = True
        elif kind == "tag":
            n += 1
            ops.append(["tag", c, "t%d" % n])
        else:
            ops.append(["reopen"])
    return {"names": names, "ops": ops}


# --------------------------------------------------------------------------------------
# execution
# --------------------------------------------------------------------------------------

MASTER = "master"


def execute(sim, plan):
    warm()
    cosim.start_tracking()
    try:
        _execute(sim, plan)
    finally:
        cosim.dispose_repos()


def _execute(sim, plan):
    from breezy import errors

    T.quiet()
    T.settle_randomness(sim.seed)
    sim.disarm()
    world.setup_sim(sim)
    names = plan["names"]
    roots = {c: cosim.scratch("w", c) for c in names + ["M", "O"]}
    cosim.mask_log(sim, roots["M"])
    murl = world.new_store("c23") + MASTER
    master = storesim.make_branch(murl, "2a")
    urls = {c: "sim+file://" + roots[c] for c in names}
    cosim.light_checkout(master, roots["M"])
    for c in names:
        cosim.heavy_checkout(master, roots[c])
    del master
    ourl = "sim+file://" + roots["O"]
    if any(op[0] in ("ocommit", "opull") for op in plan["ops"]):
        from breezy.controldir import ControlDir

        os.makedirs(roots["O"])
        wt = ControlDir.create_standalone_workingtree(roots["O"], format=storesim.fmt_obj("2a"))
        with wt.lock_write():
            wt.set_root_id(T.ROOT_ID)
        del wt
    m = Model(names)
    trees = {}

    def tree(c):
        if c not in trees:
            trees[c] = T.open_tree(roots[c], "bzr")
        return trees[c]

    def reopen():
        trees.clear()

    def new_file(c, n):
        name = "%s%d" % (c.lower(), n)
        with open(os.path.join(roots[c], name), "wb") as f:
            f.write(T.content(n))
        tree(c).add([name], ids=[("id-" + name).encode()])

    def commit(c, n, local=False, rev=None):
        return tree(c).commit(message="m r%d" % n, rev_id=(rev or "r%d" % n).encode(), timestamp=1700000000 + n, timezone=0, committer=cosim.COMMITTER, local=local, reporter=T._quiet_reporter())

    def snapshot(c):
        """What a refused operation must leave alone."""
        reopen()
        out = {"master": cosim.branch_info(murl), "tree": cosim.tree_state(roots[c]), "disk": T.disk_snapshot(roots[c], "bzr")}
        if c != "M":
            out["local"] = cosim.branch_info(urls[c])
        return out

    def verify(label, fk="none", site="-"):
        reopen()
        got = cosim.branch_info(murl)
        want = (m.g.revno(m.master), m.master)
        if got != want:
            sim.fail("master_tip", ["master_tip", fk, site], "%s: master is at %r, the model says %r [%s]" % (label, got, want, state_text()))
        for c in names:
            got = cosim.branch_info(urls[c])
            want = (m.g.revno(m.co[c]["tip"]), m.co[c]["tip"])
            if got != want:
                sim.fail("local_tip", ["local_tip", fk, site], "%s: local branch of %s is at %r, the model says %r [%s]" % (label, c, got, want, state_text()))
            parents, _ = cosim.tree_state(roots[c], want_changes=False)
            basis = parents[0] if parents else NULL
            if basis != m.co[c]["basis"]:
                sim.fail("tree_basis", ["tree_basis", fk, site], "%s: tree of %s is based on %r, the model says %r [%s]" % (label, c, basis, m.co[c]["basis"], state_text()))
        sim.state_seen(m.state())

    known = findings.load(PROPERTY)

    def deviation(oracle, sig, detail):
        """A contradiction of the property text with its own stable signature: reported,
        or - once it is an open entry of known_findings.json - noted, and the run goes on
        from the real state."""
        if findings.match(known, sig) is not None:
            kn = sim.notes.setdefault("known", [])
            if sig not in kn:
                kn.append(sig)
            sim.probe("known_" + sig[-1])
            return
        sim.fail(oracle, sig, detail)

    def state_text():
        return "master=%s " % m.master + " ".join("%s=%s%s" % (c, v["tip"], "" if v["bound"] else "(unbound)") for c, v in sorted(m.co.items()))

    def conflicts(c):
        t = tree(c)
        return len(t.conflicts()) > 0

    def refused(op, c, before, exc, want):
        got = type(exc).__name__
        if got != want:
            sim.fail("refusal_kind", ["refusal_kind", "none", "%s:%s" % (op[0], got)], "%s raised %s (%s); the model expects %s [%s]" % (json.dumps(op), got, str(exc)[:200], want, state_text()))
        after = snapshot(c)
        for k in sorted(before):
            if before[k] != after[k]:
                sim.fail("refusal_changes_nothing", ["refusal_changes_nothing", "none", "%s:%s:%s" % (op[0], want, k)], "%s was refused with %s but %s changed: %r -> %r" % (json.dumps(op), want, k, before[k], after[k]))
        sim.probe("refused_" + want)

    def arm(off):
        """Error at the master's put of last-revision (off 0) or at the off-th storage
        operation after it."""
        seen = {"hit": False}

        def filt(a, opname, path, mutating):
            if off == 0 and not seen["hit"] and opname == "put" and path.endswith("/" + MASTER + "/.bzr/branch/last-revision"):
                seen["hit"] = True
                sim.faults = [{"kind": "err_before", "at": a.nops + 1, "count": "any", "err": seen["err"]}]
            return True

        def mon(s, actor, phase, opname, path, extra):
            if off > 0 and not seen["hit"] and phase == "after" and opname == "put" and path.endswith("/" + MASTER + "/.bzr/branch/last-revision"):
                seen["hit"] = True
                s.faults = [{"kind": "err_before", "at": actor.nops + off, "count": "any", "err": seen["err"]}]

        sim.arm([])
        sim.fault_filter = filt
        sim.monitors.append(mon)
        seen["mon"] = mon
        return seen

    def disarm(seen):
        sim.fault_filter = None
        sim.monitors.remove(seen["mon"])
        sim.disarm()

    nontrivial = False
    for i, op in enumerate(plan["ops"]):
        kind = op[0]
        sim.event("op", i, json.dumps(op, sort_keys=True))
        if kind == "reopen":
            reopen()
            continue
        if kind == "recover":
            continue  # performed with the faulted commit
        if kind in ("bind", "unbind"):
            c = op[1]
            b = tree(c).branch
            if kind == "bind":
                b.bind(storesim.open_branch(murl))
            else:
                b.unbind()
            m.co[c]["bound"] = kind == "bind"
            verify(json.dumps(op))
            continue
        if kind == "tag":
            c = op[1]
            tip = m.co[c]["tip"]
            if tip != NULL:
                try:
                    tree(c).branch.tags.set_tag(op[2], tip.encode())
                except errors.BzrError as e:
                    sim.probe("set_tag_raised_" + type(e).__name__)
            continue
        if kind == "mcommit":
            a = op[1]
            p = m.predict(op)
            before = snapshot("M")
            exc = None
            try:
                if a.get("update", True):
                    tree("M").update()
                    if conflicts("M"):
                        sim.probe("tree_conflicts")
                        return
                new_file("M", a["n"])
                parents = [x.decode() for x in tree("M").get_parent_ids()]
                commit("M", a["n"])
            except errors.BzrError as e:
                exc = e
            if p["refusal"]:
                if exc is None:
                    sim.fail("must_refuse", ["must_refuse", "none", "mcommit:" + p["refusal"]], "%s succeeded from a stale tree (basis %s, master %s)" % (json.dumps(op), m.mbasis, m.master))
                # the new file was added before the refusal: compare branches and parents only
                before.pop("disk")
                before["tree"] = before["tree"][0]
                after = snapshot("M")
                if type(exc).__name__ != p["refusal"]:
                    sim.fail("refusal_kind", ["refusal_kind", "none", "mcommit:" + type(exc).__name__], "%s raised %r; expected %s" % (json.dumps(op), exc, p["refusal"]))
                if before["master"] != after["master"] or before["tree"] != after["tree"][0]:
                    sim.fail("refusal_changes_nothing", ["refusal_changes_nothing", "none", "mcommit:" + p["refusal"]], "%s was refused but master/tree parents changed: %r -> %r" % (json.dumps(op), before, (after["master"], after["tree"][0])))
                tree("M").revert(backups=False)
                left = os.path.join(roots["M"], "m%d" % a["n"])
                if os.path.lexists(left):
                    os.unlink(left)
                sim.probe("refused_" + p["refusal"])
                nontrivial = True
            else:
                if exc is not None:
                    sim.fail("op_raised", ["op_raised", "none", "mcommit:" + type(exc).__name__], "%s raised %r [%s]" % (json.dumps(op), exc, state_text()))
                rev = "r%d" % a["n"]
                m.g.add(rev, parents or [])
                m.master = m.mbasis = rev
            verify(json.dumps(op))
            continue
        if kind == "ocommit":
            a = op[1]
            if m.master == NULL and m.other == NULL:
                continue
            if a.get("sync") or m.other == NULL:
                try:
                    tree("O").pull(storesim.open_branch(murl), overwrite=True)
                except errors.BzrError as e:
                    raise RuntimeError("set-up pull into O failed: %r" % (e,)) from e
                if conflicts("O"):
                    sim.probe("tree_conflicts")
                    return
                m.other = cosim.branch_info(ourl)[1]
            new_file("O", a["n"])
            rev = "o%d" % a["n"]
            parents = [x.decode() for x in tree("O").get_parent_ids()]
            tree("O").commit(message="m " + rev, rev_id=rev.encode(), timestamp=1700000000 + a["n"], timezone=0, committer=cosim.COMMITTER, reporter=T._quiet_reporter())
            m.g.add(rev, parents)
            m.other = rev
            continue
        if kind == "opull":
            c = op[1]
            a = op[2]
            co = m.co[c]
            if m.other == NULL:
                continue
            req = m.other
            stop = None
            if a.get("stop") == "tip":
                stop = req
            elif a.get("stop") == "parent":
                ps = m.g.parents.get(req, [])
                if ps and ps[0] != NULL:
                    stop = req = ps[0]
            local = bool(a.get("local"))
            p = m.predict_opull(c, local, req)
            before = snapshot(c)
            exc = None
            try:
                tree(c).pull(storesim.open_branch(ourl), local=local, stop_revision=stop.encode() if stop else None)
            except errors.BzrError as e:
                exc = e
            site = "opull:%s:%s" % ("local" if local else ("bound" if co["bound"] else "unbound"), "stop" if stop else "tip")
            if p["refusal"]:
                nontrivial = True
                if exc is None:
                    sim.fail("must_refuse", ["must_refuse", "none", site + ":" + p["refusal"]], "%s succeeded; the model expects %s by %s [%s]" % (json.dumps(op), p["refusal"], p.get("who"), state_text()))
                if type(exc).__name__ != p["refusal"]:
                    sim.fail("refusal_kind", ["refusal_kind", "none", site + ":" + type(exc).__name__], "%s raised %r; expected %s [%s]" % (json.dumps(op), exc, p["refusal"], state_text()))
                if p.get("who") != "local":
                    refused(op, c, before, exc, p["refusal"])
                else:
                    sim.probe("refused_by_local_after_master_moved")
            else:
                if exc is not None:
                    sim.fail("op_raised", ["op_raised", "none", site + ":" + type(exc).__name__], "%s raised %r [%s]" % (json.dumps(op), exc, state_text()))
                if conflicts(c):
                    sim.probe("tree_conflicts")
                    return
            was = (m.master, co["tip"])
            m.master = p["master"]
            if co["tip"] != p["tip"]:
                co["tip"] = co["basis"] = p["tip"]
            sim.probe("opull_%s" % ("local" if local else "plain"))
            if local and co["tip"] != m.master:
                nontrivial = True
            label = json.dumps(op) + " (wanted %s; before: master=%s local=%s)" % (req, was[0], was[1])
            verify(label, "none", site)
            if not local and co["bound"] and not p["refusal"] and m.master == req and co["tip"] == req:
                sim.probe("plain_pull_equalised")
            continue
        if kind == "race":
            a = op[1]
            if len(names) < 2 or any((not v["bound"]) or v["tip"] != m.master or v["basis"] != v["tip"] for v in m.co.values()):
                sim.event("skip", i, "race-needs-two-checkouts-in-step")
                continue
            nontrivial = True
            first_c = a["first"]
            second_c = [x for x in names if x != first_c][0]
            ns = {first_c: a["n1"], second_c: a["n2"]}
            parents = {}
            for c in (first_c, second_c):
                new_file(c, ns[c])
                parents[c] = [x.decode() for x in tree(c).get_parent_ids()]
            before = {c: snapshot(c) for c in (first_c, second_c)}
            old_master = m.master
            old_lh = m.g.lefthand(old_master)
            reopen()
            results = {}
            actor_names = {c: "%s@%d" % (c, i) for c in (first_c, second_c)}
            park = {"done": False}

            def make(c, delay):
                def fn():
                    cosim.start_tracking()
                    try:
                        if delay:
                            sim.sleep(delay)
                        t = T.open_tree(roots[c], "bzr")
                        try:
                            t.commit(message="m r%d" % ns[c], rev_id=b"r%d" % ns[c], timestamp=1700000000 + ns[c], timezone=0, committer=cosim.COMMITTER, reporter=T._quiet_reporter())
                            results[c] = None
                        except (SimCrash, KeyboardInterrupt, SystemExit):
                            raise
                        except Exception as e:  # noqa: BLE001 - judged below
                            results[c] = e
                        del t
                    finally:
                        cosim.dispose_repos()

                return fn

            def mon(s, actor, phase, opname, path, extra):
                # template: the first committer is suspended right before it takes the master's
                # write lock (after it compared the tips); the second one then runs alone
                if phase == "before" and not park["done"] and actor.name == actor_names[first_c] and opname == "mkdir" and path.startswith("/" + MASTER + "/.bzr/branch/lock/"):
                    park["done"] = True
                    s.sleep(500.0)

            parked = a.get("mode") == "park"
            if parked:
                sim.monitors.append(mon)
            sim.sched_policy = "random"
            sim.spawn(actor_names[first_c], make(first_c, 0))
            sim.spawn(actor_names[second_c], make(second_c, 1.0 if parked else 0))
            # (incarnations of the main actor created by restart_main() are in sim.actors under
            # other names and the scheduler would take them for runnable actors: out of its sight)
            mains = {nm: ac for nm, ac in sim.actors.items() if nm.startswith("main#")}
            for nm in mains:
                del sim.actors[nm]
            try:
                sim.run_actors()
            finally:
                sim.actors.update(mains)
                if parked:
                    sim.monitors.remove(mon)
            for c in (first_c, second_c):
                ex = sim.actors[actor_names[c]].exc
                if ex is not None:
                    raise RuntimeError("actor %s died: %r" % (c, ex))
            sim.probe("race_" + a.get("mode", "random") + ("_parked" if park["done"] else ""))
            reopen()
            acked = [c for c in (first_c, second_c) if results.get(c, "missing") is None]
            sim.event("race", ",".join("%s:%s" % (c, "ok" if results[c] is None else type(results[c]).__name__) for c in (first_c, second_c)))
            # the master's left-hand history as the repository has it
            mb = storesim.open_branch(murl)
            with mb.lock_read():
                mrevno, mtip = mb.last_revision_info()
                real_lh = [r.decode() for r in mb.repository.get_graph().iter_lefthand_ancestry(mtip) if r != b"null:"]
            site = "race:" + a.get("mode", "random")
            for r in old_lh:
                if r not in real_lh:
                    sim.fail("master_history_kept", ["master_history_kept", "preempt", site + ":old-revision-lost"], "after %s the master's left-hand history %r no longer holds %s [%s]" % (json.dumps(op), real_lh, r, state_text()))
            for c in acked:
                rev = "r%d" % ns[c]
                if rev not in real_lh:
                    others = {x: ("ok" if results[x] is None else type(results[x]).__name__) for x in results}
                    sim.fail(
                        "acknowledged_commit_in_master",
                        ["acknowledged_commit_in_master", "preempt", site + ":acknowledged-revision-lost"],
                        "%s: the commit of %s in checkout %s returned normally, but the master's left-hand history is %r (tip %s, revno %d); outcomes %r [%s]" % (json.dumps(op), rev, c, real_lh, mtip.decode(), mrevno, others, state_text()),
                    )
            for c in (first_c, second_c):
                rev = "r%d" % ns[c]
                if c in acked:
                    m.g.add(rev, parents[c])
                    m.co[c]["tip"] = m.co[c]["basis"] = rev
                    continue
                ex = results[c]
                if type(ex).__name__ not in ("BoundBranchOutOfDate", "OutOfDateTree", "LockContention"):
                    sim.fail("refusal_kind", ["refusal_kind", "preempt", site + ":" + type(ex).__name__], "%s: the commit in %s raised %r [%s]" % (json.dumps(op), c, ex, state_text()))
                sim.probe("race_refused_" + type(ex).__name__)
                after = snapshot(c)
                for key in ("local", "tree", "disk"):
                    if before[c][key] != after[key]:
                        sim.fail("refusal_changes_nothing", ["refusal_changes_nothing", "preempt", site + ":" + type(ex).__name__ + ":" + key], "%s: the commit in %s was refused (%s) but %s changed: %r -> %r" % (json.dumps(op), c, type(ex).__name__, key, before[c][key], after[key]))
                tree(c).revert(backups=False)
                left = os.path.join(roots[c], "%s%d" % (c.lower(), ns[c]))
                if os.path.lexists(left):
                    os.unlink(left)
            if len(acked) == 2:
                sim.probe("race_both_acknowledged")
            if not acked:
                sim.probe("race_none_acknowledged")
            m.master = mtip.decode()
            if m.master not in m.g.parents and m.master != NULL:
                raise RuntimeError("master at an unknown revision %s" % m.master)
            verify(json.dumps(op), "preempt", site)
            continue
        c = op[1]
        co = m.co[c]
        p = m.predict(op)
        if kind == "commit":
            a = op[2]
            local = bool(a.get("local"))
            new_file(c, a["n"])
            parents = [x.decode() for x in tree(c).get_parent_ids()]
            before = snapshot(c)
            fault = a.get("fault") if p["refusal"] is None and p.get("via_master") else None
            rev = "r%d" % a["n"]
            if fault:
                seen = arm(fault["off"])
                seen["err"] = fault["err"]
            exc = None
            try:
                commit(c, a["n"], local=local)
            except (SimCrash, KeyboardInterrupt, SystemExit):
                raise
            except Exception as e:  # noqa: BLE001 - judged below
                exc = e
            if fault:
                fired = bool(sim.faults_fired.get("err_before")) and any(f.get("done") for f in sim.faults)
                disarm(seen)
            else:
                fired = False
            if fired:
                nontrivial = True
                site = "bound-commit:off%d" % fault["off"]
                sim.probe("fault_off%d" % fault["off"])
                reopen()
                mi, li = cosim.branch_info(murl), cosim.branch_info(urls[c])
                sim.event("faulted", site, type(exc).__name__ if exc else "swallowed", mi[1], li[1])
                if li[1] == rev and mi[1] != rev:
                    sim.fail("master_first", ["master_first", "err_before", site], "%s under an error at offset %d: the local branch holds %s but the master is at %s [%s]" % (json.dumps(op), fault["off"], rev, mi[1], state_text()))
                if fault["off"] == 0 and exc is not None and (mi[1] == rev or li[1] == rev):
                    sim.fail("master_first", ["master_first", "err_before", site + ":tip-moved-after-failed-master-put"], "the master's tip write failed, yet master=%s local=%s" % (mi[1], li[1]))
                if mi[1] not in (rev, m.master) or li[1] not in (rev, co["tip"]):
                    sim.fail("faulted_tips", ["faulted_tips", "err_before", site], "tips after the failed commit are neither old nor new: master=%s local=%s" % (mi[1], li[1]))
                if mi[1] == rev or li[1] == rev:
                    m.g.add(rev, parents)
                if mi[1] == rev and li[1] != rev:
                    sim.probe("master_ahead_after_fault")
                m.master = mi[1]
                co["tip"] = li[1]
                tp, _ = cosim.tree_state(roots[c], want_changes=False)
                co["basis"] = tp[0] if tp else NULL
                verify(json.dumps(op) + " (faulted)", "err_before", site)
                # a new process: break what is left of the locks, then update must converge
                sim.restart_main()
                cosim.break_locks(sim, [murl, urls[c]], [roots[c]])
                reopen()
                if co["bound"]:
                    try:
                        tree(c).update()
                    except errors.BzrError as e:
                        sim.fail("update_after_fault", ["update_after_fault", "err_before", site + ":" + type(e).__name__], "update after the failed commit raised %r [%s]" % (e, state_text()))
                    if conflicts(c):
                        sim.probe("tree_conflicts")
                        return
                    co["tip"] = co["basis"] = m.master
                    verify("update after " + json.dumps(op), "err_before", site + ":update")
                    if m.master != rev:
                        # neither branch took the revision: the tree still has the new file pending; commit it again
                        rev = rev + "x"  # the failed commit's id may already exist in a repository
                        try:
                            commit(c, a["n"], rev=rev)
                        except errors.BzrError as e:
                            sim.fail("retry_after_fault", ["retry_after_fault", "err_before", site + ":" + type(e).__name__], "commit retried after the failed one raised %r" % (e,))
                        m.g.add(rev, parents)
                        m.master = co["tip"] = co["basis"] = rev
                        verify("retry of " + json.dumps(op), "err_before", site + ":retry")
                continue
            if p["refusal"]:
                nontrivial = True
                if exc is None:
                    sim.fail("must_refuse", ["must_refuse", "none", "commit:" + p["refusal"]], "%s succeeded; the model expects %s [%s]" % (json.dumps(op), p["refusal"], state_text()))
                refused(op, c, before, exc, p["refusal"])
                # the added file stays pending: take it out again so that later operations see the modelled tree
                tree(c).revert(backups=False)
                left = os.path.join(roots[c], "%s%d" % (c.lower(), a["n"]))
                if os.path.lexists(left):
                    os.unlink(left)
            else:
                if exc is not None:
                    sim.fail("op_raised", ["op_raised", "none", "commit:" + type(exc).__name__], "%s raised %r [%s]" % (json.dumps(op), exc, state_text()))
                m.g.add(rev, parents)
                if p.get("via_master"):
                    m.master = rev
                else:
                    nontrivial = True
                    sim.probe("local_only_commit")
                co["tip"] = co["basis"] = rev
            verify(json.dumps(op))
            continue
        if kind in ("update", "pull"):
            before = snapshot(c)
            exc = None
            try:
                if kind == "update":
                    tree(c).update()
                else:
                    tree(c).pull(storesim.open_branch(murl))
            except errors.BzrError as e:
                exc = e
            if p["refusal"]:
                nontrivial = True
                if exc is None:
                    sim.fail("must_refuse", ["must_refuse", "none", kind + ":" + p["refusal"]], "%s succeeded; the model expects %s [%s]" % (json.dumps(op), p["refusal"], state_text()))
                refused(op, c, before, exc, p["refusal"])
            else:
                if exc is not None:
                    sim.fail("op_raised", ["op_raised", "none", kind + ":" + type(exc).__name__], "%s raised %r [%s]" % (json.dumps(op), exc, state_text()))
                if conflicts(c):
                    sim.probe("tree_conflicts")
                    return
                if co["tip"] != p["tip"]:
                    sim.probe(kind + "_moved_local")
                if kind == "update" and co["bound"] and m.master == NULL and co["tip"] != NULL:
                    reopen()
                    got = cosim.branch_info(urls[c])
                    if got[1] == co["tip"]:
                        deviation(
                            "update_equalises",
                            ["update_equalises", "none", "empty-master:local-ahead"],
                            "update in bound checkout %s left the local branch at %r while the master has no revisions (pull from an empty master is a no-op even with overwrite): every later bound commit is refused with BoundBranchOutOfDate and update cannot repair it [%s]" % (c, got, state_text()),
                        )
                        p = dict(p, tip=co["tip"])
                co["tip"] = co["basis"] = p["tip"]
            verify(json.dumps(op))
            continue
        raise ValueError(op)
    sim.nontrivial = nontrivial


def shrink_candidates(plan):
    import copy

    from simkit.shrink import generic_candidates

    yield from generic_candidates(plan)
    if len(plan.get("names", [])) > 1:
        p = copy.deepcopy(plan)
        p["names"] = ["A"]
        p["ops"] = [o for o in p["ops"] if len(o) < 2 or o[1] != "B"]
        yield p
    for i, op in enumerate(plan["ops"]):
        if op[0] == "commit" and op[2].get("fault"):
            p = copy.deepcopy(plan)
            del p["ops"][i][2]["fault"]
            yield p


# --------------------------------------------------------------------------------------
# warm-up
# --------------------------------------------------------------------------------------

WARM_PLAN = {
    "names": ["A", "B"],
    "ops": [
        ["mcommit", {"update": True, "n": 1}],
        ["update", "A"],
        ["commit", "A", {"local": False, "n": 2}],
        ["commit", "B", {"local": False, "n": 3}],
        ["update", "B"],
        ["tag", "B", "t4"],
        ["commit", "B", {"local": True, "n": 5}],
        ["commit", "B", {"local": False, "n": 6}],
        ["pull", "B"],
        ["mcommit", {"update": False, "n": 7}],
        ["mcommit", {"update": True, "n": 8}],
        ["pull", "A"],
        ["update", "B"],
        ["commit", "B", {"local": False, "n": 9, "fault": {"off": 1, "err": "transport"}}],
        ["recover", "B"],
        ["unbind", "A"],
        ["commit", "A", {"local": True, "n": 10}],
        ["commit", "A", {"local": False, "n": 11}],
        ["bind", "A"],
        ["commit", "A", {"local": False, "n": 12}],
        ["update", "A"],
        ["commit", "A", {"local": False, "n": 13, "fault": {"off": 0, "err": "enospc"}}],
        ["recover", "A"],
        ["reopen"],
        ["update", "A"],
        ["update", "B"],
        ["ocommit", {"n": 14, "sync": True}],
        ["ocommit", {"n": 15, "sync": False}],
        ["opull", "A", {"local": True, "stop": "parent"}],
        ["opull", "A", {"local": False, "stop": "parent"}],
        ["opull", "A", {"local": True, "stop": None}],
        ["opull", "A", {"local": False, "stop": "tip"}],
        ["update", "B"],
        ["race", {"n1": 16, "n2": 17, "first": "A", "mode": "park"}],
        ["update", "A"],
        ["update", "B"],
        ["race", {"n1": 18, "n2": 19, "first": "B", "mode": "random"}],
    ],
}

_warmed = []


def warm():
    storesim.warm()
    T.quiet()
    cosim.install_repo_tracker()
    if _warmed:
        return
    _warmed.append(1)
    import copy
    import shutil
    import tempfile

    import breezy.bzr.workingtree_4  # noqa: F401
    import breezy.commit  # noqa: F401
    import breezy.merge  # noqa: F401
    import breezy.transform  # noqa: F401
    from simkit.sim import Sim

    saved = {k: os.environ.get(k) for k in ("VERIF_SCRATCH", "BRZ_HOME", "HOME")}
    tmp = tempfile.mkdtemp(prefix="verif-warm-", dir="/dev/shm")
    try:
        sc = os.path.join(tmp, "s")
        os.makedirs(os.path.join(sc, "home"))
        os.environ.update(VERIF_SCRATCH=sc, BRZ_HOME=os.path.join(sc, "home"), HOME=os.path.join(sc, "home"))
        plan = copy.deepcopy(WARM_PLAN)
        sim = Sim(1, plan, step_cap=10**6)
        sim.tier = "quick"
        try:
            execute(sim, plan)
        except Exception:  # noqa: BLE001 - a dry run; real runs report
            if os.environ.get("VERIF_WARM_DEBUG"):
                raise
    finally:
        for k, v in saved.items():
            if v is None:
                os.environ.pop(k, None)
            else:
                os.environ[k] = v
        shutil.rmtree(tmp, ignore_errors=True)
        world.reset_stores()
