"""xformsim: shared pieces of the tree-transform world (C13, C14).

Real: breezy.transform / breezy.bzr.transform / breezy.git.transform (TreeTransform,
_FileMover, conflict resolvers, preview trees), working trees (2a / git) on a real
directory below VERIF_SCRATCH, the commands that build transforms (revert, Merger,
switch, shelve, unshelve).  Simulated: failures of the file-system calls of the transform
modules (simkit.osseam).  Oracle reads use the real `os` module and reopened trees."""

import hashlib
import os
import shutil
import stat
import sys

from simkit import osseam, world
from simkit.sim import CTX

_warmed = False
_orig_apply = {}

TIMESTAMP = 1_700_000_000
COMMITTER = "Sim User <sim@example.com>"

CONTROL = (".bzr", ".git")


# --------------------------------------------------------------------------------------
# installation
# --------------------------------------------------------------------------------------
def install():
    """Seam proxies + the apply() observation hook (idempotent)."""
    osseam.install()
    from breezy.bzr import transform as bzr_transform
    from breezy.git import transform as git_transform

    for key, cls in (("bzr", bzr_transform.InventoryTreeTransform), ("git", git_transform.GitTreeTransform)):
        if key in _orig_apply:
            continue
        orig = cls.__dict__["apply"]
        _orig_apply[key] = orig

        def apply(self, *a, _orig=orig, **kw):
            s = getattr(CTX, "sim", None)
            hook = getattr(s, "apply_hook", None) if s is not None else None
            if hook is None:
                return _orig(self, *a, **kw)
            return hook(self, lambda: _orig(self, *a, **kw))

        apply.__doc__ = orig.__doc__
        cls.apply = apply


def warm():
    global _warmed
    if _warmed:
        return
    world.quiet_breezy()
    from breezy import trace

    trace.be_quiet(True)
    import logging

    logging.getLogger("brz").setLevel(logging.CRITICAL)  # conflict warnings of revert/merge: not to stderr
    install()
    import breezy.bzr.workingtree_4  # noqa: F401
    import breezy.git.workingtree  # noqa: F401
    import breezy.merge  # noqa: F401
    import breezy.shelf  # noqa: F401
    import breezy.switch  # noqa: F401
    from breezy import transform as _t

    base = f"/dev/shm/verif-warm-xform-{os.getpid()}"
    shutil.rmtree(base, ignore_errors=True)
    os.makedirs(base + "/home", exist_ok=True)
    old_home = os.environ.get("BRZ_HOME")
    os.environ["BRZ_HOME"] = base + "/home"
    try:
        for fmt in ("bzr", "git"):
            spec = [["d", "dir", "", False], ["d/f", "file", "x\n", True], ["a", "file", "a\n", False], ["l", "symlink", "a", False]]
            tree = build_tree(os.path.join(base, fmt), fmt, spec)
            with open(tree.abspath("a"), "ab") as f:
                f.write(b"more\n")
            tree.revert(backups=False)
            tt = tree.transform()
            try:
                tt.new_file("n", tt.root, [b"n\n"], b"n-id")
                tt.delete_contents(tt.trans_id_tree_path("a"))
                tt.unversion_file(tt.trans_id_tree_path("a"))
                _t.resolve_conflicts(tt)
                pt = tt.get_preview_tree()
                list(pt.iter_entries_by_dir())
                tt.apply()
            finally:
                tt.finalize()
            tree_state(os.path.join(base, fmt))
    finally:
        if old_home is None:
            os.environ.pop("BRZ_HOME", None)
        else:
            os.environ["BRZ_HOME"] = old_home
        shutil.rmtree(base, ignore_errors=True)
    _warmed = True


# --------------------------------------------------------------------------------------
# world
# --------------------------------------------------------------------------------------
NAME_POOL = ["a", "b", "c", "e", "f", "g"]
DIR_POOL = ["d", "k", "m"]


SYMLINK_TARGETS = ["a", "nowhere", "../x", "d"]
SAFE_SYMLINK_TARGETS = ["nowhere", "../x", "zz/target"]  # never an existing directory, never the link itself


def gen_tree_spec(rng, nmin=3, nmax=8, symlinks=True, targets=None):
    """[[path, kind, content-or-target, executable], ...] parents before children."""
    n = rng.randint(nmin, nmax)
    dirs = [""]
    spec = []
    used = set()
    tries = 0
    while len(spec) < n and tries < 60:
        tries += 1
        parent = rng.choice(dirs)
        kind = rng.choice(["file", "file", "file", "dir", "dir", "symlink" if symlinks else "file"])
        if kind == "dir" and parent.count("/") >= 1 and parent:
            kind = "file"
        name = rng.choice(DIR_POOL if kind == "dir" else NAME_POOL)
        path = f"{parent}/{name}" if parent else name
        if path in used:
            continue
        used.add(path)
        if kind == "dir":
            dirs.append(path)
            spec.append([path, "dir", "", False])
        elif kind == "file":
            body = f"{path} v1\n" * rng.randint(1, 3)
            spec.append([path, "file", body, rng.random() < 0.3])
        else:
            spec.append([path, "symlink", rng.choice(targets or SYMLINK_TARGETS), False])
    return spec


def file_id_for(path):
    return ("id-" + path.replace("/", "_")).encode()


def make_format(fmt):
    from breezy import controldir

    return controldir.format_registry.make_controldir("2a" if fmt == "bzr" else "git")


def null_reporter():
    from breezy.commit import NullCommitReporter

    return NullCommitReporter()


def write_entries(root, spec):
    for path, kind, data, executable in spec:
        p = os.path.join(root, path)
        if kind == "dir":
            os.mkdir(p)
        elif kind == "file":
            with open(p, "wb") as f:
                f.write(data.encode())
            os.chmod(p, 0o755 if executable else 0o644)
        else:
            os.symlink(data, p)


def commit(tree, message, rev_id):
    kw = {}
    if tree.branch.repository._format.supports_setting_revision_ids:
        kw["rev_id"] = rev_id
    return tree.commit(message, timestamp=TIMESTAMP, timezone=0, committer=COMMITTER, reporter=null_reporter(), **kw)


def build_tree(path, fmt, spec, unversioned=()):
    """A committed standalone working tree holding `spec` (+ unversioned extras)."""
    from breezy.controldir import ControlDir

    os.makedirs(path)
    tree = ControlDir.create_standalone_workingtree(path, format=make_format(fmt))
    write_entries(path, spec)
    with tree.lock_write():
        paths = [e[0] for e in spec]
        if fmt == "bzr":
            tree.set_root_id(b"root-id")
            tree.add(paths, ids=[file_id_for(p) for p in paths])
        else:
            tree.add(paths)
        commit(tree, "base", b"rev-base")
    write_entries(path, list(unversioned))
    return tree


def open_tree(path):
    from breezy.workingtree import WorkingTree

    return WorkingTree.open(path)


# --------------------------------------------------------------------------------------
# snapshots (oracle side: real os, reopened tree)
# --------------------------------------------------------------------------------------
def disk_snapshot(root):
    """{relpath: [kind, sha1-or-target, permission bits]} without control directories."""
    out = {}

    def walk(rel):
        d = os.path.join(root, rel) if rel else root
        for name in sorted(os.listdir(d)):
            if not rel and name in CONTROL:
                continue
            r = f"{rel}/{name}" if rel else name
            p = os.path.join(root, r)
            st = os.lstat(p)
            if stat.S_ISLNK(st.st_mode):
                out[r] = ["symlink", os.readlink(p), 0]
            elif stat.S_ISDIR(st.st_mode):
                out[r] = ["directory", "", st.st_mode & 0o777]
                walk(r)
            else:
                with open(p, "rb") as f:
                    data = f.read()
                out[r] = ["file", f"{len(data)}:{hashlib.sha1(data).hexdigest()[:12]}", st.st_mode & 0o777]

    walk("")
    return out


def meta_snapshot(root):
    """Versioning metadata as a freshly opened tree reads it: [[path, kind, file_id, exec]]."""
    tree = open_tree(root)
    out = []
    with tree.lock_read():
        if hasattr(tree, "index"):
            # git: the index itself (iter_entries_by_dir reads link targets from the disk
            # and fails when the disk disagrees with the index, which is what we look for)
            for bpath, entry in tree.index.items():
                mode = getattr(entry, "mode", None)
                if mode is None:
                    kind, ex = "conflicted", False
                elif stat.S_ISLNK(mode):
                    kind, ex = "symlink", False
                elif stat.S_ISDIR(mode) or (mode & 0o170000) == 0o160000:
                    kind, ex = "tree-reference", False
                else:
                    kind, ex = "file", bool(mode & 0o100)
                out.append([bpath.decode("utf-8", "replace"), kind, "", ex])
            out.sort()
            return out
        for path, ie in tree.iter_entries_by_dir():
            fid = ie.file_id
            out.append([path, ie.kind, fid.decode("utf-8", "replace") if isinstance(fid, bytes) else str(fid), bool(getattr(ie, "executable", False))])
    out.sort()
    return out


def tree_state(root):
    return {"disk": disk_snapshot(root), "meta": meta_snapshot(root)}


def diff_maps(a, b, limit=6):
    """Readable difference of two snapshot dicts/lists."""
    if isinstance(a, list):
        a = {e[0]: e[1:] for e in a}
        b = {e[0]: e[1:] for e in b}
    out = []
    for k in sorted(set(a) | set(b)):
        if a.get(k) != b.get(k):
            out.append(f"{k!r}: {a.get(k)} != {b.get(k)}")
    more = len(out) - limit
    return "; ".join(out[:limit]) + (f"; (+{more} more)" if more > 0 else "")


def residue(root):
    """Names left in the limbo / pending-deletion directories of the tree."""
    out = []
    for ctl in (".bzr/checkout", ".git"):
        for d in ("limbo", "pending-deletion"):
            p = os.path.join(root, ctl, d)
            if os.path.isdir(p):
                for dirpath, dirnames, filenames in os.walk(p):
                    for n in sorted(dirnames + filenames):
                        out.append(os.path.relpath(os.path.join(dirpath, n), root))
    return sorted(out)


# --------------------------------------------------------------------------------------
# observing apply()
# --------------------------------------------------------------------------------------
PHASE_FUNCS = {
    "_apply_removals": "removals",
    "_apply_insertions": "insertions",
    "rollback": "rollback",
    "apply_deletions": "discard",
    "finalize": "finalize",
    "_cleanup_stale_dirs": "finalize",
    "apply_inventory_delta": "meta",
    "_apply_index_changes": "meta",
}


def stack_phase(depth=2):
    f = sys._getframe(depth)
    while f is not None:
        ph = PHASE_FUNCS.get(f.f_code.co_name)
        if ph is not None:
            return ph
        if f.f_code.co_name == "apply" and f.f_code.co_filename.endswith("transform.py"):
            return "apply"
        f = f.f_back
    return "outside"


class ApplyWatch:
    """sim.apply_hook: records the seam operations of the first apply() of the run and
    optionally arms one fault relative to its start."""

    def __init__(self, sim, fault_at=None, errno_name=None):
        self.sim = sim
        self.fault_at = fault_at
        self.errno_name = errno_name
        self.calls = 0
        self.ops = []  # [op, path, extra, phase] of apply #1
        self.exc = None
        self.injected = None
        self.returned = False
        self._active = False
        sim.apply_hook = self

    def monitor(self, sim, actor, phase, op, path, extra):
        if phase == "before" and self._active:
            self.ops.append([op, path, extra, stack_phase(3)])

    def __call__(self, tt, run):
        self.calls += 1
        sim = self.sim
        if self.calls > 1:
            sim.probe("second_apply_in_command")
            return run()
        sim.monitors.append(self.monitor)
        self._active = True
        sim.event("apply", "begin")
        faults = []
        if self.fault_at is not None:
            self.injected = osseam.fault_exception(self.errno_name, "")
            faults = [{"kind": "err_before", "at": self.fault_at, "count": "mut", "exc": self.injected}]
        sim.arm(faults)
        try:
            r = run()
            self.returned = True
            return r
        except BaseException as e:  # noqa: B036 - recorded, re-raised
            self.exc = e
            raise
        finally:
            sim.disarm()
            self._active = False
            sim.monitors.remove(self.monitor)
            sim.event("apply", "end", type(self.exc).__name__ if self.exc is not None else "ok")

    def close(self):
        self.sim.apply_hook = None


def end_of_run():
    """In-process runs (ISOLATION="thread"): every opened repository survives as garbage
    the collector cannot free (bound methods such as repo.is_locked are held by the Rust
    index / versioned-file objects, ~1000 objects per run).  Collect what can be collected,
    then move the survivors out of the collector's sight so that its cost stays constant."""
    import gc

    gc.collect()
    gc.freeze()


def chain_has(exc, target):
    seen = set()
    todo = [exc]
    while todo:
        e = todo.pop()
        if e is None or id(e) in seen:
            continue
        seen.add(id(e))
        if e is target:
            return True
        todo.append(e.__cause__)
        todo.append(e.__context__)
        # BzrError subclasses keep the original in attributes sometimes
        for a in getattr(e, "args", ()):
            if isinstance(a, BaseException):
                todo.append(a)
    return False
