"""C30 — A smart server never waits for bytes beyond the current request.

The C29 workload, one exchange at a time, over STRICT pipes: the harness knows how many
bytes of the current message have not been delivered yet; the peer is by construction
waiting for the answer and will send nothing more.  A `read(n)` with n larger than what
is left of the message is `would_block` (on the server's stdin pipe, a BufferedReader,
such a read never returns).  When a side reports the message complete its logical read
position must be exactly the message end."""

from . import wiresim

PROPERTY = "C30"
LEVEL = "exploration"
RULE = (
    "one case = one seeded run: 1-6 sequential request/response exchanges (same grammar as C29: v1/v2/v3, args, body, readv, "
    "streams, errors mid-stream, failures, unknown verbs) on strict pipes, with the server pipe medium and the client medium reading "
    "either exactly-n (blocking buffered pipe) or at-most-n (seeded short reads, cut at seeded segment boundaries); every read "
    "request is compared with the bytes left in the current message; non-trivial = at least one message was delivered in >= 2 reads "
    "with a boundary strictly inside it; distinct = distinct event-log digests (every read: requested size, delivered size)"
)
COMPONENTS = {
    "real": [
        "medium.SmartServerPipeStreamMedium: _build_protocol, _get_line, _serve_one_request_unguarded (reads protocol.next_read_size())",
        "next_read_size of SmartServerRequestProtocolOne/Two, ProtocolThreeDecoder/_StatefulDecoder, LengthPrefixedBodyDecoder, ChunkedBodyDecoder",
        "client: message.ConventionalResponseHandler._read_more, SmartClientRequestProtocolOne/Two read_response_tuple/read_body_bytes/read_streamed_body/cancel_read_body, SmartClientStreamMediumRequest.read_line",
        "real encoders on both sides (they define where the message ends), request handler registry, hello/get/readv verbs on a MemoryTransport",
    ],
    "simulated": ["both byte streams (strict SimPipe): blocking exact reads or short reads, knowledge of the message end, the peer that sends nothing more"],
    "stub": [
        "echo request handlers sim.nobody / sim.body / sim.early (sim.early takes a body but answers from do(), as PutRequest.do does when it refuses its path)",
        "hand-built ConventionalResponseHandler after a client-side v3 body stream raised",
        "about 12% of the exchanges drive LengthPrefixedBodyDecoder / ChunkedBodyDecoder / ProtocolThreeDecoder directly with the reader loop every caller uses (read next_read_size() bytes until finished), on real encoder output",
    ],
}
ASSUMPTIONS = [
    "server on a pipe: in_file.read(n) is sys.stdin.buffer.read(n) (BzrServerFactory._get_stdin_stdout), which returns only when n bytes arrived or at EOF; the run variant 'atmost' (raw pipe, short reads) still counts a request beyond the message as a violation because the property is about the size asked for",
    "client: the pipe medium (SmartSimplePipesClientMedium._read_bytes = readable_pipe.read(count)) is modelled with the same two variants; the socket client medium ignores the requested size and is not modelled here (it cannot block while one byte is in flight)",
    "exactly one request is in flight and the peer sends nothing until it has been answered (breezy's client enforces this with TooManyConcurrentRequests)",
    "well-formed messages only: everything on the wire was produced by the real encoders; v1/v2 requests to unknown verbs carry no body",
]
ISOLATION = "thread"
STEP_CAP = 400000


def warm():
    wiresim.warm()


def config(tier):
    if tier == "thorough":
        return {"budget_s": 600, "run_timeout": 60, "selftest": 64}
    return {"budget_s": 40, "run_timeout": 30, "selftest": 32}


def generate(rng, tier):
    return wiresim.gen_plan(rng, tier, strict=True)


def execute(sim, plan):
    wiresim.run_plan(sim, plan, strict=True)


shrink_candidates = wiresim.shrink_candidates
