"""C31 — Smart server clients cannot reach files outside the served directory.

World: one sim store holding `/served/**` (a branch `br`, plain files, user directories)
and, next to it, `/secret/**` (another branch, `marker.txt` whose content is a marker the
client never sends, a file with an unguessable name) and `/served-evil/**` (same prefix).
The server's backing transport is built by the REAL
`BzrServerFactory._make_backing_transport` (chroot + user-directory expansion filter) over
`get_transport(store + "served")` and is served by the real server medium of wiresim, with
a seeded `root_client_path`.

A hostile client speaks the real protocol (`_SmartClient.call*`, protocol v3 for every
verb, v1/v2 additionally for the VFS verbs) and sends, for every registered verb that takes
a path, path arguments from a grammar over `/ . .. %2F %2E %2e%2e ~ ~user // \\x00 é \\`,
absolute and URL forms, the root_client_path variants; plus relative clones of a real
RemoteTransport and a test verb that tries to open control directories from inside a
request.

This is the least schedule-dependent of the claimed checks: the "fault" is a hostile peer;
what varies per run is the request sequence, the server configuration and the stream
segmentation."""

import posixpath
import re
import urllib.parse

from simkit import world
from simkit.sim import Violation, cur_sim
from simkit.transport import raw

from . import storesim, wiresim
from .storesim import MHist, gen_chain

PROPERTY = "C31"
LEVEL = "exploration"
RULE = (
    "one case = one seeded hostile session: server configuration (root_client_path, user-directory expansion table, medium flavour) x 25-70 requests "
    "(verb from the whole request registry, protocol version, path arguments from the hostile grammar aimed at /secret and /served-evil, bodies) x RemoteTransport "
    "clone probes x in-request ControlDir.open probes x (45% of the runs) a two-connection phase: two client actors, each owning a connection whose server side runs in "
    "that actor's thread (the TCP server's thread per connection), pre-empted by the seeded scheduler at every store operation, sending jail probes (in-jail store "
    "work, then an out-of-jail ControlDir.open) and requests x seeded segmentation; every request is judged at the storage seam below the chroot; non-trivial = at least 10 "
    "requests reached path translation with a hostile path and at least one of them was refused or contained; distinct = distinct event-log digests. "
    "LEAST SCHEDULE-DEPENDENT CLAIMED CHECK: fault kind = hostile peer; the only schedule dimension is the interleaving of the two server threads in the two-connection phase."
)
COMPONENTS = {
    "real": [
        "breezy.bzr.smart.server.BzrServerFactory._make_backing_transport, _expand_userdirs, _make_expand_userdirs_filter",
        "dromedary chroot.ChrootServer/ChrootTransport and pathfilter.PathFilteringServer/PathFilteringTransport (Rust) as composed by the factory",
        "breezy.bzr.smart.request: SmartServerRequest.translate_client_path / transport_from_client_path, setup_jail/_pre_open_hook (JailBreak), SmartServerRequestHandler, the whole request_handlers registry",
        "breezy.bzr.smart.vfs.VfsRequest.translate_client_path and all VFS verbs; smart/bzrdir.py, branch.py, repository.py handlers up to and including opening the control directory",
        "server media (pipe/socket) and protocol v1/v2/v3 decoders/encoders; client _SmartClient; breezy.transport.remote.RemoteTransport (clone, _remote_path) for the clone probes",
        "the memory transport's own path resolution below the chroot (unescaping, '..')",
    ],
    "simulated": ["thread scheduling of the per-connection server threads in the two-connection phase (seeded pre-emption at every store operation)", "the disk below the chroot (SimTransport: every operation is seen by a monitor; moving a directory into itself is refused like EINVAL - the in-memory store would not terminate)", "the connection (SimPipe segmentation)"],
    "stub": [
        "the hostile client: hand-built requests through _SmartClient.call / call_with_body_bytes / call_with_body_stream",
        "user database: BzrServerFactory(userdir_expander=table lookup, get_base_path=fixed '/srv/served/') - the factory's own constructor seams (an in-memory store has no local path)",
        "test verb sim.jailprobe registered in warm(): its do() tries ControlDir.open_from_transport on several transports and reports what happened",
        "number of trailing arguments per non-VFS verb learned once in warm() by trial against a harmless path (so requests pass the arity check and reach deeper code)",
    ],
}
ASSUMPTIONS = [
    "oracle at the storage seam, below the chroot: (writes) everything outside /served is byte-identical after every request that performed a mutating store operation and at the end of the session "
    "(ground truth: the raw store); (reads) a pass-through recorder between the chroot and the store sees what every get/has/stat/list_dir/iter_files_recursive/readv returned; a read is an escape iff the "
    "location expected from the logged path (one unescape, empty middle segment = restart at the root, '..' normalisation - calibrated against the store) is outside /served AND the raw store holds exactly the "
    "returned value there (failed reads and has()=False leak nothing and are not judged; the logged path alone is not trusted: e.g. '..#x' is logged one level up but is a literal name for the store)",
    "independent of any path arithmetic: no response (args or body) contains the marker bytes, the secret branch's revision id, the unguessable secret file name or the sibling directory's content (the client never sends these)",
    "ControlDir.open from inside a request on a transport that is not a clone of the backing transport must raise JailBreak (probed with the store's own URL of /secret/br, of /served/br, and '..' clones)",
    "any response is acceptable otherwise: errors, protocol errors, a dropped connection, no answer at all (counted as response_never_arrived; stalls belong to C29/C30), results about locations inside /served (the hostile client may destroy /served)",
    "user-directory expansion entries pointing outside the served directory or containing '..' model a hostile/misconfigured account database; they are part of the configuration space, not of the client alphabet, "
    "and are reported with their own signature if they escape",
    "v1/v2 requests are only generated for VFS verbs whose response has no body and never carry \\x01 or \\n in arguments (the framing is not claimed to carry them; wire-level properties are C29/C30)",
]
ISOLATION = "fork"
STEP_CAP = 2_000_000

MARKER = b"C31-SECRET-MARKER-7f3a9c"
HIDDEN_NAME = "zq-hidden-7f3a9c.txt"
HIDDEN_REV = "hidden-rev-7f3a9c"
LEAK_TOKENS = [MARKER, HIDDEN_NAME.encode(), HIDDEN_REV.encode(), b"EVIL-SIBLING-5b1d"]

VFS = {
    # verb: (number of paths, extra args after the paths, body kind, response has body)
    b"has": (1, [], None, False),
    b"get": (1, [], None, True),
    b"stat": (1, [], None, False),
    b"list_dir": (1, [], None, False),
    b"iter_files_recursive": (1, [], None, False),
    b"delete": (1, [], None, False),
    b"rmdir": (1, [], None, False),
    b"mkdir": (1, [b""], None, False),
    b"put": (1, [b""], "bytes", False),
    b"put_non_atomic": (1, [b"", b"T", b""], "bytes", False),
    b"append": (1, [b""], "bytes", False),
    b"readv": (1, [], "readv", True),
    b"rename": (2, [], None, False),
    b"move": (2, [], None, False),
}
PATH_INDEX = {b"BzrDirFormat.initialize_ex_1.16": 1}
NO_PATH = {b"hello", b"Transport.is_readonly", b"sim.nobody", b"sim.body", b"sim.early", b"sim.jailprobe"}
_ARITY = {}


def config(tier):
    if tier == "thorough":
        return {"budget_s": 700, "run_timeout": 180, "selftest": 12}
    return {"budget_s": 50, "run_timeout": 180, "selftest": 6}


# ----------------------------------------------------------------------------------------
# the hostile grammar (pure)

UPS = ["..", "%2e%2e", "%2E%2E", ".%2e", "%2e.", "%252e%252e", "..%00", "...", "%c0%ae%c0%ae", ".."]
SEPS = ["/", "/", "%2F", "%2f", "%252F", "//", "/./", "\\", "%5C", "/"]
TARGETS = ["secret/marker.txt", "secret", "secret/br", "secret/br/.bzr/branch/last-revision", "secret/" + "br/.bzr/repository/pack-names", "served-evil/x.txt", "served-evil", "secret/marker.txt/", ""]
INSIDE = ["", "br", "readme.txt", "sub", "sub/inner.txt", "br/.bzr", "home", "users/alice", "new-dir", "new-file", ".", "br/.bzr/branch/lock"]
TOKENS = ["/", ".", "..", "%2F", "%2f", "%2E", "%2e%2e", "%2E%2E", "~", "~alice", "~evil", "~dots", "~root", "//", "\x00", "é", "%00", "%5C", "\\", "served", "secret", "br", ".bzr", "marker.txt", "readme.txt", "sub", "%252e%252e", "%c3%a9", " ", "%", "%zz", "%2", "?x=1", "#frag", ";a", ":", "*"]


def gen_path(rng, rcp):
    """One client path (str, latin-1 safe or utf-8 text)."""
    root = rcp if rcp not in (None, "") else "/"
    x = rng.random()
    if x < 0.12:
        p = rng.choice(INSIDE)
    elif x < 0.62:
        # aimed traversal: <inside prefix>/<up>^n/<target>
        sep = rng.choice(SEPS)
        ups = [rng.choice(UPS) for _ in range(rng.randint(1, 3))]
        parts = []
        if rng.random() < 0.5:
            parts.append(rng.choice(["br", "sub", "br/.bzr", "nosuch", "readme.txt", "home", "~alice", "~"]))
        parts += ups
        tgt = rng.choice(TARGETS)
        if sep not in ("/", "//", "/./"):
            tgt = tgt.replace("/", sep)
        if rng.random() < 0.5:
            parts.append("served" if rng.random() < 0.3 else "")  # e.g. ../served/../secret
            parts = [q for q in parts if q != ""]
        parts.append(tgt)
        p = sep.join(parts)
    elif x < 0.72:
        # absolute and URL forms
        tgt = rng.choice(TARGETS)
        p = rng.choice(["/", "//", "///", "file:///", "sim+memory+jail:///", "memory+jail:///", "/../", "/served/../", "/%2e%2e/", "\\", "/served-evil/../", "chroot:///", "bzr://sim/../"]) + tgt
    elif x < 0.84:
        # home directory forms
        p = rng.choice(["~", "~alice", "~evil", "~dots", "~root", "~nosuch", "~/..", "~alice/..", "~alice/../..", "~evil/marker.txt", "~dots/marker.txt", "~%2F..", "%7E", "%7Ealice/..", "~/../../secret", "~alice%2F..%2F..%2F..%2Fsecret"]) + rng.choice(["", "/", "/x", "/../secret/marker.txt", "%2F..%2Fsecret"])
    else:
        p = "".join(rng.choice(TOKENS) + rng.choice(["", "/", "/", ""]) for _ in range(rng.randint(1, 6)))
    # how the path is presented relative to the root client path
    y = rng.random()
    if y < 0.55:
        p = root + p
    elif y < 0.7:
        p = root.rstrip("/") + p  # glued to the prefix: /pre../x
    elif y < 0.8 and root != "/":
        p = rng.choice([root.rstrip("/") + "-evil/", root + "../", "/", root.upper(), root[:-1] + "%2F"]) + p
    elif y < 0.9:
        p = "/" + p
    return p


def feature(path):
    enc = re.search(r"(?i)%2f", path) is not None
    dd = re.search(r"(?i)(\.|%2e)(\.|%2e)", path) is not None
    if enc and dd:
        return "encoded-slash-dotdot"
    if enc:
        return "encoded-slash"
    if dd:
        return "dotdot"
    if path.lstrip("/").startswith(("~", "%7E", "%7e")) or "/~" in path:
        return "userdir"
    return "other"


def gen_request(rng, verbs, rcp):
    verb = rng.choice(verbs)
    v = 3
    r = {"verb": verb}
    bverb = verb.encode()
    if bverb in VFS:
        npaths = VFS[bverb][0]
        if rng.random() < 0.3 and not VFS[bverb][3]:
            v = rng.choice([1, 2])  # verbs whose response carries no body (what a v1/v2 client must know beforehand)
        paths = [gen_path(rng, rcp)]
        if npaths == 2:
            inside = (rcp or "/") + rng.choice(["readme.txt", "sub/inner.txt", "stolen", "br/.bzr/README"])
            paths = [inside, paths[0]] if rng.random() < 0.5 else [paths[0], inside]
        r["paths"] = paths
        if VFS[bverb][2] == "bytes":
            r["body"] = rng.choice(["", "x", "PWNED-BY-C31\n"])
        elif VFS[bverb][2] == "readv":
            r["readv"] = [[0, rng.choice([1, 10, 100])]]
    else:
        r["paths"] = [gen_path(rng, rcp)]
        r["extra"] = rng.choice(["learned", "learned", "learned", "none", "many"])
    if v != 3:
        r["paths"] = [p.replace("\x01", "").replace("\n", "") for p in r["paths"]]
    r["v"] = v
    return r


def all_verbs():
    from breezy.bzr.smart import request

    return sorted(k.decode() for k in request.request_handlers.keys() if k not in NO_PATH)


def generate(rng, tier):
    verbs = all_verbs()
    vfs = [v for v in verbs if v.encode() in VFS]
    rcp = rng.choice(["/", "/", "/", "/pre/", "/a/b/", "/served/", None])
    userdirs = None
    if rng.random() < 0.6:
        userdirs = {"~": "/srv/served/home", "~alice": "/srv/served/users/alice", "~root": "/root", "~evil": "/srv/secret"}
        if rng.random() < 0.3:
            userdirs["~dots"] = "/srv/served/../secret"
    n = rng.randint(25, 70)
    reqs = []
    for _ in range(n):
        pool = vfs if rng.random() < 0.55 else verbs
        reqs.append(gen_request(rng, pool, rcp))
    # the requests that hide a separator behind an escape go last (see known findings):
    # everything else of the session is judged before a run can stop at them
    reqs.sort(key=lambda r: any(re.search(r"(?i)%2f", p) for p in r["paths"]))
    clones = []
    for _ in range(rng.randint(0, 4)):
        clones.append({"clone": rng.choice(["..", "../secret", "../../secret", "%2e%2e/secret", "..%2Fsecret", "/secret", "../served-evil", "br/../../secret", "~evil", "//secret", "../secret/br"]), "op": rng.choice(["has", "get", "list_dir", "open", "stat", "put", "mkdir"]), "name": rng.choice(["marker.txt", ".", "br", "x"])})
    two = None
    if rng.random() < 0.45:
        # two connections served at the same time: each client actor owns a connection whose
        # server side runs in that actor's thread (the TCP server's thread per connection)
        del reqs[rng.randint(8, 25) :]
        two = {}
        opening = [v for v in verbs if v.startswith(("BzrDir.", "Branch.", "Repository."))]
        for name in ("c1", "c2"):
            items = []
            for _ in range(rng.randint(4, 10)):
                x = rng.random()
                if x < 0.45:
                    items.append({"probe": rng.choice(["secret_url", "secret_url", "served_url", "store_root", "backing_clone", "backing_dotdot"]), "work": rng.randint(1, 6)})
                else:
                    r = gen_request(rng, vfs if x < 0.7 else opening, rcp)
                    if rng.random() < 0.6:
                        r["paths"] = [(rcp or "/") + rng.choice(["br", "br", "readme.txt", "sub", ""]) for _ in r["paths"]]
                    items.append({"req": r})
            two[name] = items
    return {
        "rcp": rcp,
        "userdirs": userdirs,
        "reqs": reqs,
        "clones": clones,
        "two": two,
        "probes": rng.sample(["secret_url", "served_url", "backing_clone", "backing_dotdot", "backing_encoded", "store_root"], rng.randint(1, 4)),
        "server": rng.choice(["pipe", "socket"]),
        "seg": {"m": rng.choice(["whole", "whole", "hot", "rand"]), "ph": 0.3, "sh": rng.random() < 0.4, "s": rng.randrange(1 << 30)},
        "fmt": rng.choice(storesim.FORMATS),
    }


def shrink_candidates(plan):
    import copy

    for key in ("reqs", "clones", "probes"):
        items = plan.get(key) or []
        n = len(items)
        step = max(1, n // 2)
        while step >= 1:
            for i in range(0, n, step):
                p = copy.deepcopy(plan)
                del p[key][i : i + step]
                if key == "probes" and not p[key] and not p["reqs"] and not p["clones"]:
                    continue
                yield p
            if step == 1:
                break
            step //= 2
    for name in sorted(plan.get("two") or {}):
        items = plan["two"][name]
        n = len(items)
        step = max(1, n // 2)
        while n and step >= 1:
            for i in range(0, n, step):
                p = copy.deepcopy(plan)
                del p["two"][name][i : i + step]
                yield p
            if step == 1:
                break
            step //= 2
    if plan.get("userdirs"):
        p = copy.deepcopy(plan)
        p["userdirs"] = None
        yield p
    if plan["seg"].get("m") != "whole":
        p = copy.deepcopy(plan)
        p["seg"] = {"m": "whole", "s": 0}
        yield p


# ----------------------------------------------------------------------------------------
# jail probe verb + arity learning


def _install_probe_verb():
    from breezy import errors
    from breezy.bzr.smart import request

    if b"sim.jailprobe" in request.request_handlers.keys():
        return

    class JailProbe(request.SmartServerRequest):
        """do(which): try to open a control directory from inside a request."""

        def do(self, which, work=b"0"):
            from breezy.controldir import ControlDir
            from breezy.transport import get_transport

            st = getattr(cur_sim(), "c31", None)
            which = which.decode()
            # ordinary in-jail work of a handler before it is led elsewhere (each store
            # operation is a point where another connection's thread may run)
            for k in range(int(work)):
                self._backing_transport.has("readme.txt" if k % 2 else "br/.bzr/branch-format")
            try:
                if which == "secret_url":
                    t = get_transport(st["store_url"] + "secret/br")
                elif which == "served_url":
                    t = get_transport(st["store_url"] + "served/br")
                elif which == "store_root":
                    t = get_transport(st["store_url"]).clone("secret/br")
                elif which == "backing_clone":
                    t = self._backing_transport.clone("br")
                elif which == "backing_dotdot":
                    t = self._backing_transport.clone("../secret/br")
                elif which == "backing_encoded":
                    t = self._backing_transport.clone("..%2Fsecret%2Fbr")
                else:
                    return request.FailedSmartServerResponse((b"bad",))
                cd = ControlDir.open_from_transport(t)
                b = cd.open_branch()
                return request.SuccessfulSmartServerResponse((b"opened", b.last_revision()))
            except errors.JailBreak:
                return request.SuccessfulSmartServerResponse((b"jailbreak",))
            except errors.NotBranchError:
                return request.SuccessfulSmartServerResponse((b"notbranch",))

    request.request_handlers.register(b"sim.jailprobe", JailProbe, info="read")


def _is_arity_error(err_tuple):
    return len(err_tuple) >= 3 and err_tuple[0] == b"error" and err_tuple[1].endswith(b"TypeError") and (b"argument" in err_tuple[2])


def _learn_arities():
    """Number of trailing b'' arguments with which each non-VFS verb gets past Python's
    argument binding, learned against a harmless path on a throwaway world."""
    from breezy.bzr.smart import client
    from dromedary import errors as te
    from dromedary.memory import MemoryTransport
    from simkit.sim import Sim

    if _ARITY:
        return
    sim = Sim(0, {})
    backing = MemoryTransport("memory:///")
    ww = wiresim.WireWorld(sim, backing, name="arity")
    for verb in all_verbs():
        bverb = verb.encode()
        if bverb in VFS:
            continue
        _ARITY[verb] = 0
        for k in range(0, 11):
            med = wiresim.LoopbackMedium(ww)
            med._protocol_version = 3
            cl = client._SmartClient(med)
            args = [b""] * k
            args.insert(PATH_INDEX.get(bverb, 0), b"nosuch-dir")
            try:
                cl.call(bverb, *args)
            except te.ErrorFromSmartServer as e:
                if _is_arity_error(tuple(e.error_tuple)):
                    continue
            except Exception:  # noqa: BLE001, S110 - anything else means the arguments were bound
                pass
            _ARITY[verb] = k
            break


def warm():
    storesim.warm()
    wiresim.warm()
    wiresim.pin_lock_info()
    _install_probe_verb()
    import random

    import breezy.bzr.remote  # noqa: F401
    import breezy.bzr.smart.server  # noqa: F401
    from simkit.sim import Sim

    _learn_arities()
    for seed in (31, 32):
        plan = generate(random.Random(seed), "quick")
        try:
            execute(Sim(0, plan, step_cap=STEP_CAP), plan)
        except Exception:  # noqa: BLE001, S110 - import warming only
            pass
    world.reset_stores()


# ----------------------------------------------------------------------------------------


def resolve(path):
    """Where the store is expected to resolve a logged (still escaped) path: one unescape,
    an empty segment in the middle restarts at the root, then '.'/'..' normalisation.
    Only an expectation: `Ground.confirmed_outside` checks it against what the operation
    actually returned before anything is called an escape."""
    p = urllib.parse.unquote(path, errors="surrogateescape")
    segs = p.split("/")
    stack = []
    for i, seg in enumerate(segs):
        if seg == "":
            if 0 < i < len(segs) - 1:
                stack = []
            continue
        if seg == ".":
            continue
        if seg == "..":
            if stack:
                stack.pop()
            continue
        stack.append(seg)
    return "/" + "/".join(stack)


def inside(path):
    r = resolve(path)
    return r == "/served" or r.startswith("/served/")


class Ground:
    """Ground truth below the chroot: the raw store, read without the seam."""

    def __init__(self, store_transport):
        self.rt = raw(store_transport)

    def outside_snapshot(self):
        """{path: bytes | None} of everything that is not /served, bounded walk."""
        out = {}
        t = self.rt

        def walk(rel, depth):
            import stat as _stat

            for name in sorted(t.list_dir(rel or ".")):
                p = f"{rel}/{name}" if rel else name
                if p == "served" or len(out) > 5000 or depth > 12:
                    continue
                try:
                    st = t.stat(p)
                    if _stat.S_ISDIR(st.st_mode):
                        out[p] = None
                        walk(p, depth + 1)
                    else:
                        out[p] = t.get_bytes(p)
                except Exception as e:  # noqa: BLE001 - a name the store itself cannot address again
                    out[p] = "unreadable:" + type(e).__name__

        walk("", 0)
        return out

    def confirmed_outside(self, rec):
        """True iff the read operation `rec` = (op, logged path, result) returned exactly what
        the raw store holds at the expected location AND that location is outside /served."""
        import stat as _stat

        from breezy import urlutils

        op, logged, result = rec
        where = resolve(logged)
        if where == "/served" or where.startswith("/served/"):
            return False
        t = self.rt
        try:
            rel = urlutils.escape(where.lstrip("/")) or "."
            if op == "has":
                return result is True and t.has(rel)
            if op == "get":
                return t.get_bytes(rel) == result
            if op == "stat":
                st = t.stat(rel)
                return (st.st_size, _stat.S_ISDIR(st.st_mode)) == result
            if op == "list_dir":
                return sorted(t.list_dir(rel)) == sorted(result)
            if op == "iter_files_recursive":
                return sorted(t.clone(rel).iter_files_recursive()) == sorted(result)
            if op == "readv":
                data = t.get_bytes(rel)
                return bool(result) and all(data[o : o + len(b)] == b for o, b in result)
        except Exception:  # noqa: BLE001 - the expectation does not name an existing location
            return False
        return False


_watch_registered = []


def _watch_class():
    """Transport decorator placed between the chroot and the SimTransport: passes every call
    through unchanged and records what the read operations returned."""
    if _watch_registered:
        return _watch_registered[0]
    import io

    from dromedary import register_transport
    from dromedary.decorator import TransportDecorator

    def note(self, op, relpath, result):
        try:
            st = getattr(cur_sim(), "c31", None)
        except RuntimeError:
            st = None
        if st is not None:
            st["reads"].setdefault(cur_sim().current().name, []).append((op, self._decorated._p(relpath), result))

    class Watch(TransportDecorator):
        @classmethod
        def _get_url_prefix(cls):
            return "c31watch+"

        def get(self, relpath):
            data = self._decorated.get_bytes(relpath)
            note(self, "get", relpath, data)
            return io.BytesIO(data)

        def get_bytes(self, relpath):
            data = self._decorated.get_bytes(relpath)
            note(self, "get", relpath, data)
            return data

        def has(self, relpath):
            r = self._decorated.has(relpath)
            note(self, "has", relpath, r)
            return r

        def stat(self, relpath):
            import stat as _stat

            r = self._decorated.stat(relpath)
            note(self, "stat", relpath, (r.st_size, _stat.S_ISDIR(r.st_mode)))
            return r

        def list_dir(self, relpath):
            r = list(self._decorated.list_dir(relpath))
            note(self, "list_dir", relpath, list(r))
            return r

        def iter_files_recursive(self):
            r = list(self._decorated.iter_files_recursive())
            note(self, "iter_files_recursive", ".", list(r))
            return iter(r)

        def readv(self, relpath, offsets, adjust_for_latency=False, upper_limit=None):
            r = list(self._decorated.readv(relpath, offsets, adjust_for_latency, upper_limit))
            note(self, "readv", relpath, list(r))
            return iter(r)

        def _readv(self, relpath, offsets):
            r = list(self._decorated._readv(relpath, offsets))
            note(self, "readv", relpath, list(r))
            return iter(r)

        # TransportDecorator leaves these to the generic Transport implementations
        # (copy + delete ...); a pass-through must hand them to the decorated transport
        def move(self, rel_from, rel_to):
            return self._decorated.move(rel_from, rel_to)

        def copy(self, rel_from, rel_to):
            return self._decorated.copy(rel_from, rel_to)

        def put_bytes_non_atomic(self, relpath, raw_bytes, mode=None, create_parent_dir=False, dir_mode=None):
            return self._decorated.put_bytes_non_atomic(relpath, raw_bytes, mode=mode, create_parent_dir=create_parent_dir, dir_mode=dir_mode)

        def put_file_non_atomic(self, relpath, f, mode=None, create_parent_dir=False, dir_mode=None):
            return self._decorated.put_file_non_atomic(relpath, f, mode=mode, create_parent_dir=create_parent_dir, dir_mode=dir_mode)

        def local_abspath(self, relpath):
            return self._decorated.local_abspath(relpath)

        def symlink(self, source, link_name):
            return self._decorated.symlink(source, link_name)

        def readlink(self, relpath):
            return self._decorated.readlink(relpath)

        def hardlink(self, source, link_name):
            return self._decorated.hardlink(source, link_name)

    register_transport("c31watch+", Watch)
    _watch_registered.append(Watch)
    return Watch


MUTATING = {"put", "mkdir", "rename", "move", "delete", "rmdir", "copy", "put_na", "append", "open_write_stream", "stream_write", "symlink", "hardlink"}


def _enc(p):
    return p.encode("utf-8", "surrogateescape") if isinstance(p, str) else p


def execute(sim, plan):
    from breezy import errors
    from breezy.bzr.smart import client, server
    from breezy.controldir import ControlDir
    from breezy.transport import get_transport, remote
    from dromedary import errors as te

    _install_probe_verb()
    sim.disarm()
    world.setup_sim(sim)
    fmt = plan["fmt"]
    url = world.new_store("jail")
    t = get_transport(url)
    # ---- the world ---------------------------------------------------------------------
    for d in ("served", "secret", "served-evil", "served/sub", "served/home", "served/users", "served/users/alice"):
        t.mkdir(d)
    t.put_bytes("served/readme.txt", b"public readme\n")
    t.put_bytes("served/sub/inner.txt", b"public inner\n")
    t.put_bytes("served/home/profile", b"home of the default user\n")
    t.put_bytes("served/users/alice/notes", b"alice's notes\n")
    t.put_bytes("secret/marker.txt", MARKER + b"\n")
    t.put_bytes("secret/" + HIDDEN_NAME, b"nobody knows this name\n")
    t.put_bytes("served-evil/x.txt", b"EVIL-SIBLING-5b1d\n")
    import random

    mh = MHist()
    storesim.commit_specs(storesim.make_branch(url + "served/br", fmt), gen_chain(random.Random(5), mh, None, 2, "pub"))
    mh2 = MHist()
    spec = storesim.gen_spec(random.Random(6), mh2, HIDDEN_REV, [], 1_500_000_000)
    spec["actions"].append(["add", "marker-copy", "marker-file-id", "file", MARKER.decode() + "\n"])
    storesim.commit_specs(storesim.make_branch(url + "secret/br", fmt), [spec])
    storesim.clear_caches()
    outside0 = Ground(t).outside_snapshot()

    # ---- the real server set-up -------------------------------------------------------
    ud = plan.get("userdirs")

    def expander(path):
        head, sep, rest = path.partition("/")
        if ud and head in ud:
            return ud[head] + sep + rest
        return path

    factory = server.BzrServerFactory(userdir_expander=expander, get_base_path=(lambda tr: "/srv/served/") if ud else (lambda tr: None))
    _watch_class()
    factory._make_backing_transport(get_transport("c31watch+" + url + "served"))
    try:
        _session(sim, plan, url, t, factory, outside0)
    finally:
        for c in reversed(factory.cleanups):
            try:
                c()
            except Exception:  # noqa: BLE001, S110
                pass


def _session(sim, plan, url, t, factory, outside0):
    from breezy import errors
    from breezy.bzr.smart import client
    from breezy.controldir import ControlDir
    from breezy.transport import remote
    from dromedary import errors as te

    rcp = plan["rcp"]
    ww = wiresim.WireWorld(sim, factory.transport, server=plan.get("server", "pipe"), server_read="atmost", client_read="atmost", seg=plan.get("seg"), root_client_path=rcp, name="jail")
    ground = Ground(t)
    st = sim.c31 = {"store_url": url, "reads": {}}
    mutated = [False]
    seam_ops = [0]
    suspects = [0]

    def monitor(sim_, actor, phase, op, path, extra):
        if phase != "before":
            return
        seam_ops[0] += 1
        if op in MUTATING:
            mutated[0] = True
        for p in (path, extra) if op in ("rename", "move", "copy") else (path,):
            if p and not inside(p):
                suspects[0] += 1  # expectation only; judged through Ground
        if op in ("rename", "move", "copy") and extra:
            src, dst = resolve(path), resolve(extra)
            if dst == src or dst.startswith(src.rstrip("/") + "/"):
                # a real file system answers EINVAL; the in-memory store would loop for ever
                raise te.TransportError(f"EINVAL: cannot move {src} into itself ({dst})")

    sim.monitors.append(monitor)
    medium = {"m": None}  # the connection of the single-connection phases

    def new_client(v, medium=medium):
        if medium["m"] is None:
            medium["m"] = wiresim.LoopbackMedium(ww)
        m = medium["m"]
        m._protocol_version = v
        return client._SmartClient(m)

    def drop_connection(medium=medium):
        m, medium["m"] = medium["m"], None
        if m is not None:
            try:
                m.disconnect()
            except Exception:  # noqa: BLE001, S110
                pass

    counts = {"hostile": 0, "refused": 0, "contained": 0}

    def signature(fam, feat, kind, label):
        if feat.startswith("encoded-slash"):
            return ["jail", "encoded-slash", fam]  # one root cause: '%2F' is not a separator for the chroot but is one for the store below it
        if "~dots" in label and plan.get("userdirs") and "~dots" in plan["userdirs"]:
            return ["jail", "userdir-table-with-dotdot", fam, kind]
        return ["jail", feat, fam, kind]

    def judge(label, fam, feat, blob):
        """After one request / probe: what the server read below the chroot, what changed
        outside /served, and what the response carries."""
        cfg = f"root_client_path={plan['rcp']!r} userdirs={bool(plan.get('userdirs'))}"
        reads = st["reads"].pop(sim.current().name, [])
        for rec in reads:
            if ground.confirmed_outside(rec):
                op, logged, result = rec
                sim.fail(
                    "jail",
                    signature(fam, feat, "read", label),
                    f"{label}: below the chroot the server performed {op} on {logged!r} and obtained exactly what the store holds at {resolve(logged)!r}, outside /served: {repr(result)[:120]}; response {blob[:160]!r}; {cfg}",
                )
        if suspects[0]:
            sim.probe("seam_paths_expected_outside", suspects[0])
            suspects[0] = 0
        if mutated[0]:
            mutated[0] = False
            now = ground.outside_snapshot()
            if now != outside0:
                diff = sorted({k for k in set(now) | set(outside0) if now.get(k, "<absent>") != outside0.get(k, "<absent>")})[:5]
                sim.fail("jail", signature(fam, feat, "write", label), f"{label}: the store outside /served changed: {diff} (now {[str(now.get(k, '<absent>'))[:40] for k in diff]}); response {blob[:160]!r}; {cfg}")
        for tok in LEAK_TOKENS:
            if tok in blob:
                sim.fail("leak", ["leak"] + signature(fam, feat, "read", label)[1:], f"{label}: the response contains {tok!r}, which exists only outside /served: {blob[:300]!r}; {cfg}")

    # ---- hostile requests ---------------------------------------------------------------
    def run_request(i, r, medium=medium, who=""):
        verb = r["verb"].encode()
        v = r["v"]
        paths = [_enc(p) for p in r["paths"]]
        feat = max((feature(p) for p in r["paths"]), key=["other", "userdir", "dotdot", "encoded-slash", "encoded-slash-dotdot"].index)
        fam = "vfs" if verb in VFS else "nonvfs"
        label = f"{who}req {i} v{v} {r['verb']}({', '.join(repr(p) for p in r['paths'])})"
        cl = new_client(v, medium)
        blob = b""
        n0 = seam_ops[0]
        outcome = "ok"
        try:
            if verb in VFS:
                npaths, extra, body_kind, has_body = VFS[verb]
                args = tuple(paths) + tuple(extra)
                if body_kind == "bytes":
                    resp = cl.call_with_body_bytes(verb, args, r.get("body", "").encode())
                    blob = b"\x00".join(resp)
                elif body_kind == "readv":
                    resp, h = cl.call_with_body_readv_array((verb,) + args, [tuple(o) for o in r["readv"]])
                    blob = b"\x00".join(resp) + b"\x00" + h.read_body_bytes()
                elif has_body:
                    resp, h = cl.call_expecting_body(verb, *args)
                    blob = b"\x00".join(resp) + b"\x00" + h.read_body_bytes()
                else:
                    resp = cl.call(verb, *args)
                    blob = b"\x00".join(resp)
            else:
                k = {"learned": _ARITY.get(r["verb"], 0), "none": 0, "many": 9}[r.get("extra", "learned")]
                args = [b""] * k
                args.insert(PATH_INDEX.get(verb, 0), paths[0])
                cls = _handler_class(verb)
                if cls is not None and _overrides(cls, "do_chunk"):
                    resp, h = cl.call_with_body_stream((verb,) + tuple(args), iter([b"junk"]))
                    blob = b"\x00".join(x for x in resp if isinstance(x, bytes))
                elif cls is not None and _overrides(cls, "do_body"):
                    resp, h = cl.call_with_body_bytes_expecting_body(verb, tuple(args), b"")
                    blob = b"\x00".join(x for x in resp if isinstance(x, bytes)) + b"\x00" + h.read_body_bytes()
                else:
                    resp, h = cl.call_expecting_body(verb, *args)
                    blob = b"\x00".join(x for x in resp if isinstance(x, bytes)) + b"\x00" + h.read_body_bytes()
        except te.ErrorFromSmartServer as e:
            outcome = "error:" + e.error_tuple[0].decode("latin-1")[:30]
            blob = b"\x00".join(x for x in e.error_tuple if isinstance(x, bytes))
        except te.UnknownSmartMethod:
            outcome = "unknown-method"
        except Violation as e:
            # wiresim reports a read that can never return (e.g. a handler that answers nothing to
            # malformed arguments); stalls are C29/C30's subject - here the client gives up
            if e.oracle != "would_block" or sim.violation is not e:
                raise
            sim.violation = None
            sim.probe("response_never_arrived")
            outcome = "stall"
            drop_connection(medium)
        except (errors.BzrError, te.TransportError, ConnectionError, ValueError, TypeError, AssertionError, UnicodeError, IndexError, KeyError, AttributeError) as e:
            if sim.violation is not None:
                raise sim.violation from None
            outcome = "client:" + type(e).__name__
            drop_connection(medium)
        if medium["m"] is not None and medium["m"]._current_request is not None:
            drop_connection(medium)  # a response was left half-read: start the next request on a fresh connection
        sim.event("req", i, v, r["verb"], feat, outcome, seam_ops[0] - n0)
        sim.state_seen((r["verb"], v, feat, outcome.split(":")[0], plan["rcp"], bool(plan.get("userdirs"))))
        if feat != "other" or any(tok in p for p in r["paths"] for tok in ("secret", "served-evil", "~", "\\", "%5C", "\x00")):
            counts["hostile"] += 1
            if outcome.startswith("error"):
                counts["refused"] += 1
                sim.probe("hostile_refused")
            elif seam_ops[0] > n0:
                counts["contained"] += 1
                sim.probe("hostile_contained_inside")
        sim.probe(f"requests_{fam}")
        sim.probe(f"feature_{feat}")
        judge(label, fam, feat, blob)

    for i, r in enumerate(plan["reqs"]):
        run_request(i, r)

    # ---- relative clones of a real RemoteTransport -----------------------------------------
    for c in plan.get("clones", []):
        drop_connection()
        m = wiresim.LoopbackMedium(ww, "bzr+sim://jail/")
        rt = remote.RemoteTransport("bzr+sim://jail" + (rcp or "/"), medium=m)
        label = f"RemoteTransport.clone({c['clone']!r}).{c['op']}({c['name']!r})"
        blob = b""
        outcome = "ok"
        try:
            ct = rt.clone(c["clone"])
            if c["op"] == "has":
                blob = repr(ct.has(c["name"])).encode()
            elif c["op"] == "get":
                blob = ct.get_bytes(c["name"])
            elif c["op"] == "list_dir":
                blob = "\x00".join(ct.list_dir(".")).encode()
            elif c["op"] == "stat":
                blob = repr(ct.stat(c["name"]).st_size).encode()
            elif c["op"] == "put":
                ct.put_bytes(c["name"] if c["name"] != "." else "x", b"PWNED-BY-C31\n")
            elif c["op"] == "mkdir":
                ct.mkdir("pwned-dir")
            else:
                b = ControlDir.open_from_transport(ct.clone(c["name"])).open_branch()
                blob = b.last_revision()
        except (errors.BzrError, te.TransportError, ConnectionError, ValueError, TypeError, UnicodeError, AssertionError) as e:
            if sim.violation is not None:
                raise sim.violation from None
            outcome = type(e).__name__
            blob = str(e).encode("utf-8", "replace")
        sim.event("clone", c["clone"], c["op"], outcome)
        sim.probe("clone_probes")
        judge(label, "remote-transport-clone", feature(c["clone"]), blob)
        try:
            m.disconnect()
        except Exception:  # noqa: BLE001, S110
            pass

    # ---- ControlDir.open from inside a request -------------------------------------------------
    def run_probe(which, work=0, medium=medium, who=""):
        drop_connection(medium)
        cl = new_client(3, medium)
        label = f"{who}in-request ControlDir.open probe {which}" + (f" after {work} in-jail store operations" if work else "")
        try:
            resp = cl.call(b"sim.jailprobe", which.encode(), *([str(work).encode()] if work else []))
        except te.ErrorFromSmartServer as e:
            resp = tuple(e.error_tuple)
        sim.event("probe", which, resp[0])
        sim.probe(f"jailprobe_{which}_{resp[0].decode('latin-1')[:12]}")
        blob = b"\x00".join(x for x in resp if isinstance(x, bytes))
        if which in ("secret_url", "served_url", "store_root") and resp[0] != b"jailbreak":
            sim.fail("jailbreak", ["jailbreak", which, resp[0].decode("latin-1")[:20]], f"{label}: ControlDir.open on a transport outside the jail answered {resp!r} instead of raising JailBreak")
        if which == "backing_clone" and resp[0] not in (b"opened", b"notbranch", b"error"):
            sim.fail("jailbreak", ["jailbreak", which, resp[0].decode("latin-1")[:20]], f"{label}: opening a clone of the backing transport answered {resp!r}")
        if which == "backing_clone" and resp[0] == b"opened":
            blob = b""  # the public branch's own revision id
        judge(label, "in-request-open", "encoded-slash" if which == "backing_encoded" else which, blob)

    # ---- two connections served concurrently (one server thread per connection) --------------------
    two = plan.get("two")
    if two:
        drop_connection()
        failures = []

        def make_actor(name, items):
            conn = {"m": None}

            def body():
                for k, item in enumerate(items):
                    if "probe" in item:
                        run_probe(item["probe"], item.get("work", 0), conn, who=f"[{name}] ")
                    else:
                        run_request(k, item["req"], conn, who=f"[{name}] ")
                drop_connection(conn)

            return body

        for name in sorted(two):
            sim.spawn(name, make_actor(name, two[name]))
        sim.run_actors()
        for name in sorted(two):
            a = sim.actors[name]
            if a.exc is not None:
                raise a.exc
        sim.probe("two_connection_sessions")
        sim.probe("two_connection_switches", sim.switches)

    # single-connection probes last: `backing_encoded` is an open finding and ends the run
    for which in sorted(plan.get("probes", []), key=lambda w: w == "backing_encoded"):
        run_probe(which)

    # ---- end of session --------------------------------------------------------------------------
    now = ground.outside_snapshot()
    if now != outside0:
        diff = sorted({k for k in set(now) | set(outside0) if now.get(k, "<absent>") != outside0.get(k, "<absent>")})[:5]
        sim.fail("jail", ["jail", "session", "outside-changed"], f"at the end of the session the store outside /served differs: {diff}")
    sim.nontrivial = counts["hostile"] >= 10 and (counts["refused"] + counts["contained"]) >= 1


_HANDLERS = {}


def _handler_class(verb):
    from breezy.bzr.smart import request

    if verb not in _HANDLERS:
        try:
            _HANDLERS[verb] = request.request_handlers.get(verb)
        except KeyError:
            _HANDLERS[verb] = None
    return _HANDLERS[verb]


def _overrides(cls, name):
    from breezy.bzr.smart import request

    return getattr(cls, name, None) is not getattr(request.SmartServerRequest, name)
