"""C42 — Exports contain exactly the exported tree.

A rider on simulated tree histories: one run = one working tree (2a or git) driven through
a seeded `treesim` history over a namespace of unusual names (spaces, non-ASCII, names
that are prefixes of each other, `.bzrignore` / `.bzrrules` / `.gitignore` at the root and
below it, executable files, dangling symlinks, empty directories), then 3-8 seeded
`breezy.export.export` calls on committed revisions of that history:

    format  dir | tar | tgz | tbz2 | txz | tlzma | zip   (named, or guessed from the extension)
    root    None (= destination name without extension) | "" | "r" | "deep/root" | non-ASCII
    subdir  None | "" | a versioned directory (with or without trailing "/") | a file / symlink
    per_file_timestamps, filtered (the tree wrapped in ContentFilterTree exactly as
    `brz export --filters` does it, no rules configured), destination path | fileobj,
    source  repository.revision_tree | working tree's basis_tree (DirStateRevisionTree)

The result is read back with tarfile / zipfile / os.walk (member level: names, kinds,
contents, exec bits, link targets, duplicates) and, for archives, also extracted to disk,
and compared with what the property says: the revision tree's entries (read through the
Tree API and cross-checked against the treesim model's committed snapshot) minus the
documented exclusion (paths special to the VCS: `tree.is_special_path`, i.e. tree paths
that start with `.bzr` resp. `.git`), restricted to the requested sub-tree, below the
requested root.

There is no schedule and no fault in this check: it is a cross-check over states reached
by simulated histories, not a simulation of export itself."""

import hashlib
import json
import os
import posixpath

from simkit import world

from . import treesim as T

PROPERTY = "C42"
LEVEL = "exploration"
RULE = (
    "one case = one seeded run: tree flavour (bzr 2a | git), a namespace of 4-10 unusual paths (spaces, non-ASCII, prefix pairs, "
    ".bzrignore/.bzrrules/.gitignore at the root and below), 8-26 model-generated tree operations, then 3-8 exports "
    "(revision x format x root x subdir x per_file_timestamps x filtered x path|fileobj x repository|basis tree) each unpacked and compared; "
    "non-trivial = at least one export whose expected content has >= 2 entries was unpacked and compared; "
    "distinct = distinct event-log digests of such runs (export parameter/shape classes counted separately as model states). "
    "No schedule and no fault of its own: a cross-check riding on simulated tree histories"
)
COMPONENTS = {
    "real": [
        "breezy.export (export, dir_exporter_generator, _export_iter_entries, get_root_name, guess_format)",
        "breezy.archive (format registry), breezy.archive.tar (plain/gz/bz2/xz/lzma), breezy.archive.zip",
        "breezy.filter_tree.ContentFilterTree (the --filters wrapper)",
        "InventoryRevisionTree, DirStateRevisionTree, GitRevisionTree over the repository written by the history",
        "breezy working trees / commit (history generation, see C09); python tarfile / zipfile / gzip / bz2 / lzma as readers",
        "a real directory on /dev/shm; bzr control files through the storage seam (sim+file://)",
    ],
    "simulated": ["the user editing and committing the tree (seeded treesim operation sequence)"],
    "stub": ["UI (SilentUIFactory)", "user identity / BRZ_HOME (scratch, no rules file)"],
}
ASSUMPTIONS = [
    "rider, not a simulation of export: no scheduling, no fault injection; the only seeded inputs are the tree history and the export parameters",
    "the oracle's tree is the revision tree read through the Tree API (all_versioned_paths / kind / get_file_text / is_executable / get_symlink_target); it must equal the treesim model's committed snapshot (bzr: incl. file ids and directories; git: files and symlinks, directories = ancestors of files) - a disagreement there is reported as 'revtree_model', not as an export failure",
    "documented exclusion = tree.is_special_path(tree path): bzr trees drop tree paths starting with '.bzr' (.bzrignore, .bzrrules at the ROOT only), git trees paths starting with '.git' (.gitignore at the root only); the same names below a directory are exported; with subdir the test applies to the tree path, not to the exported path",
    "filtered exports (ContentFilterTree, as the command line builds it; no rules are configured, so contents must be unchanged) are generated freely, also over symlinks and with per-file timestamps, and are held to the same oracle as unfiltered ones including the special-path exclusion: ContentFilterTree forwards get_symlink_target, get_file_mtime, is_versioned and is_special_path since /repo commit 0885a79, which repaired the two findings of this check (filtered export of a tree with a symlink / with per-file timestamps raised NotImplementedError; regression replays: findings/C42-finding-filtered_symlink.json, findings/C42-finding-filtered_pft.json) and the inconsistency that --filters exports contained .bzrignore",
    "zip cannot carry what breezy's zip exporter does not write: executable bits are not asserted for zip (every file is written 0644, pinned by blackbox.test_export), a symlink is expected as a regular member '<name>.lnk' holding the target, directories as members with a trailing '/'; names ending in '.lnk' are not generated (they could collide with a symlink's representation); non-ASCII names in zip are asserted although `brz help export` calls them unsupported (they work with Python 3's zipfile)",
    "format 'dir' ignores root (documented in `brz help export`); the destination does not exist beforehand; umask 022",
    "subdir naming a file or symlink: that single entry is expected under its base name (what _export_iter_entries documents); subdir not versioned in the revision is not exercised",
    "timestamps: nothing is asserted without per_file_timestamps (the docstring allows now()); with per_file_timestamps a FILE's mtime must be the commit time of a revision <= the exported one in which the file (bzr: same file id; git: same path) has the content it has in the exported revision, any other member's mtime must be the commit time of some revision <= the exported one; zip times are not compared (DOS local time); real mtimes never enter the event log",
    "treesim guards are all on (checks/treesim.py GUARDS): histories never enter states with recorded working-tree defects; smart_add file ids are made from hex-escaped paths (ids must not contain whitespace)",
    "history generation additionally stays out of two working-tree corners that this namespace would reach and that are not export's business (both raise inside the tree operation on the current tree): an ignore file (.bzrignore/.gitignore) that is a directory or dangling symlink (is_ignored raises IsADirectoryError/NoSuchFile), and remove without --keep/--force of a non-ASCII path (backup name lookup passes the unescaped path to transport.has: InvalidURL)",
    "no guards of its own: a plan['unguarded'] key in older replay files is accepted and ignored",
    "histories contain no commit that selects more than one path (treesim.MTree1): the bytes of the pack such a commit writes - hence the pack's md5 name and the order of every later index lookup - depend on the iteration order of a Rust HashSet in the dirstate iter_changes code, whose hash keys are drawn from the getrandom stream after process-history-dependent lazy initialisations, so one (seed, plan) gave different event logs in different worker processes; pack/index names are additionally masked in the event log (treesim.mask_content_names)",
    "runs execute in-process (ISOLATION=thread): each run builds tree, model and Sim from scratch",
]
STEP_CAP = 200000
ISOLATION = "thread"

# format -> extensions the registry maps to it
FORMATS = {
    "dir": [""],
    "tar": [".tar"],
    "tgz": [".tar.gz", ".tgz"],
    "tbz2": [".tar.bz2", ".tbz2"],
    "tlzma": [".tar.lzma"],
    "txz": [".tar.xz"],
    "zip": [".zip"],
}
# the registry's extension map in registration order (get_root_name strips the first match)
EXTENSIONS = [".tar", ".tar.gz", ".tgz", ".tar.bz2", ".tbz2", ".tar.lzma", ".tar.xz", ".zip"]
MAGIC = {"tgz": b"\x1f\x8b", "tbz2": b"BZh", "txz": b"\xfd7zXZ\x00", "tlzma": b"\x5d\x00\x00", "zip": b"PK"}
SPECIAL_PREFIX = {"bzr": ".bzr", "git": ".git"}
SPECIAL_NAMES = [".bzrignore", ".bzrrules", ".gitignore"]
COMPONENT_NAMES = ["a", "a b", "dé", "dé.x", "ü ö"]
ROOTS = [None, None, "", "r", "deep/root", "wü rzel"]


class XTree(T.MTree1):
    """treesim model with file ids for smart_add that are legal for every name of this
    check's namespace (treesim builds them from the raw path; a file id must not contain
    whitespace)."""

    def smart_add_id(self, op, path):
        esc = b"".join(bytes([c]) if (c < 128 and chr(c).isalnum()) or c in b".-" else b"=%02x" % c for c in path.encode("utf-8"))
        return b"sa%d-" % op["n"] + esc

    def copy(self):
        m = T.MTree.copy(self)
        m.__class__ = XTree
        return m

    def _do(self, op):
        """Two corners of the working tree that this check's names would reach and that
        are not its subject (both raise inside the tree operation, see the final report):
        an ignore file that is a directory or a dangling symlink makes is_ignored raise;
        `remove` without keep/force asks the transport for a backup name with an unescaped
        non-ASCII path (InvalidURL)."""
        o = op["o"]
        if posixpath.basename(op.get("p", "")) in SPECIAL_NAMES:
            if o in ("mkdir", "mkdir_disk", "symlink") or (o == "kindchange" and op["k"] != T.FILE):
                raise T.Unmodelled()
        if o == "remove" and not op["keep"] and not op["force"]:
            if any(not q.isascii() for q in [op["p"]] + self.disk_below(op["p"])):
                raise T.Unmodelled()
        return T.MTree1._do(self, op)


# --------------------------------------------------------------------------------------
# generation (pure)
# --------------------------------------------------------------------------------------


def make_names(rng):
    want = rng.randint(4, 7)
    out = []
    while len(out) < want:
        parents = [""] + [p for p in out if p.count("/") < 2]
        par = rng.choice(parents[-3:] if rng.random() < 0.5 else parents)
        name = rng.choice(COMPONENT_NAMES)
        p = par + "/" + name if par else name
        if p not in out:
            out.append(p)
    plain = list(out)
    for s in rng.sample(SPECIAL_NAMES, rng.choice([0, 1, 1, 2])):
        out.append(s)
    if rng.random() < 0.5:
        d = rng.choice([p for p in plain if p.count("/") < 2])
        out.append(d + "/" + rng.choice(SPECIAL_NAMES))
    return sorted(out)


def snapshot_dirs(flavour, snap):
    if flavour == "bzr":
        return sorted(p for p, e in snap.items() if p and e[1] == T.DIR)
    return sorted({a for p in snap for a in T.ancestors(p) if a})


def gen_export(rng, flavour, revname, snap, last, n):
    fmt = rng.choice(["dir", "tar", "tar", "tgz", "tbz2", "txz", "tlzma", "zip", "zip"])
    explicit = rng.random() < 0.5 or fmt == "dir" and rng.random() < 0.5
    ext = rng.choice(FORMATS[fmt])
    if explicit and rng.random() < 0.3:
        # the format is named: the destination's extension is free (it only feeds the default root)
        ext = rng.choice(["", ".bin", ".zip", ".tar.gz"]) if fmt != "dir" else ext
    dirs = snapshot_dirs(flavour, snap)
    nondirs = sorted(p for p, e in snap.items() if p and e[1] != T.DIR)
    x = rng.random()
    subdir = None
    if x < 0.40:
        if dirs:
            subdir = rng.choice(dirs) + ("/" if rng.random() < 0.25 else "")
    elif x < 0.50:
        if nondirs:
            subdir = rng.choice(nondirs)
    elif x < 0.55:
        subdir = ""
    ex = {
        "rev": revname,
        "fmt": fmt,
        "explicit": bool(explicit),
        "dest": "out%d%s" % (n, ext),
        "root": rng.choice(ROOTS),
        "subdir": subdir,
        "pft": rng.random() < 0.3,
        "filtered": rng.random() < 0.25,
        "fileobj": fmt != "dir" and rng.random() < 0.2,
        "src": "basis" if (last and flavour == "bzr" and rng.random() < 0.35) else "repo",
    }
    return ex


def generate(rng, tier):
    flavour = rng.choice(["bzr", "bzr", "git"])
    names = make_names(rng)
    weights = T.swarm_weights(rng)
    weights["commit"] = max(weights["commit"], 6)
    weights["symlink"] = max(weights["symlink"], 2)
    weights["chmod"] = max(weights["chmod"], 2)
    weights["mkdir"] = max(weights["mkdir"], 2)
    model = XTree(flavour)
    ops = T.gen_ops(rng, model, rng.randint(8, 26), weights, names)
    if not model.revs or rng.random() < 0.5:
        k = 1000 + len(ops)
        op = {"o": "commit", "paths": None, "rev": "rev-%d" % k, "t": 1700000000 + k}
        if model.classify(op) == "ok":
            model.apply(op)
            ops.append(op)
    exports = []
    if model.revs:
        for n in range(rng.randint(3, 8)):
            ri = len(model.revs) - 1 if rng.random() < 0.5 else rng.randrange(len(model.revs))
            revname, snap = model.revs[ri]
            exports.append(gen_export(rng, flavour, revname, snap, ri == len(model.revs) - 1, n))
    plan = {"flavour": flavour, "names": names, "weights": weights, "ops": ops, "exports": exports}
    return plan


def shrink_candidates(plan):
    import copy

    from simkit import shrink

    ex = plan.get("exports") or []
    if len(ex) > 1:
        for i in range(len(ex)):
            p = copy.deepcopy(plan)
            p["exports"] = [ex[i]]
            yield p
        for i in range(len(ex)):
            p = copy.deepcopy(plan)
            p["exports"] = ex[:i] + ex[i + 1 :]
            yield p
    yield from shrink.generic_candidates(plan)
    simple = {"root": "", "subdir": None, "pft": False, "filtered": False, "fileobj": False, "src": "repo", "explicit": True}
    for i, e in enumerate(ex):
        for k, v in simple.items():
            if e.get(k) != v:
                p = copy.deepcopy(plan)
                p["exports"][i][k] = v
                yield p


# --------------------------------------------------------------------------------------
# the oracle
# --------------------------------------------------------------------------------------


def default_root(dest):
    """`brz help export`: 'If it is not supplied it will default to the exported filename'
    (export.get_root_name: the destination's base name without a known extension)."""
    base = posixpath.basename(dest)
    for ext in EXTENSIONS:
        if base.endswith(ext):
            return base[: -len(ext)]
    return base


def expected_export(snap, flavour, subdir):
    """exported path -> (kind, data, exec) for a revision-tree snapshot
    {path: (kind, data, exec, file id)}: the entries of the requested sub-tree whose TREE path
    is not special to the VCS."""
    sub = (subdir or "").rstrip("/") or None
    prefix = SPECIAL_PREFIX[flavour]
    req = {}
    for p, (k, data, x, _fid) in snap.items():
        if p == "":
            continue
        if sub is None:
            final = p
        elif p == sub:
            if k == T.DIR:
                continue
            final = posixpath.basename(p)
        elif T.strictly_inside(sub, p):
            final = p[len(sub) + 1 :]
        else:
            continue
        if p.startswith(prefix):
            continue
        req[final] = (k, data, bool(x) if k == T.FILE else False)
    return req


def zip_view(entries):
    """What breezy's zip exporter can represent: no exec bits, symlinks as '<name>.lnk'."""
    out = {}
    for p, (k, data, _x) in entries.items():
        if k == T.LINK:
            out[p + ".lnk"] = (T.FILE, data.encode("utf-8"), False)
        else:
            out[p] = (k, data, False)
    return out


class Unreadable(Exception):
    pass


def read_tar(path, fmt):
    """-> (members {name: (kind, data, exec, mtime)}, duplicate names, problems)."""
    import tarfile

    mode = {"tar": "r:", "tgz": "r:gz", "tbz2": "r:bz2", "txz": "r:xz", "tlzma": "r:xz"}[fmt]
    out, dups, odd = {}, [], []
    try:
        tf = tarfile.open(path, mode)
    except (tarfile.TarError, OSError, EOFError, ValueError) as e:
        raise Unreadable("tarfile.open(%s): %r" % (mode, e)) from e
    try:
        with tf:
            for m in tf.getmembers():
                name = m.name
                if m.isdir():
                    node = (T.DIR, None, False)
                elif m.issym():
                    node = (T.LINK, m.linkname, False)
                elif m.isreg():
                    node = (T.FILE, tf.extractfile(m).read(), bool(m.mode & 0o100))
                else:
                    odd.append("%r has tar type %r" % (name, m.type))
                    continue
                if name in out:
                    dups.append(name)
                out[name] = node + (m.mtime,)
    except (tarfile.TarError, OSError, EOFError, ValueError) as e:
        raise Unreadable("reading tar members: %r" % (e,)) from e
    return out, dups, odd


def read_zip(path):
    import zipfile

    out, dups, odd = {}, [], []
    try:
        with zipfile.ZipFile(path) as z:
            bad = z.testzip()
            if bad is not None:
                odd.append("zip CRC failure in %r" % bad)
            for info in z.infolist():
                name = info.filename
                if name.endswith("/"):
                    key, node = name[:-1], (T.DIR, None, False)
                    if z.read(info) != b"":
                        odd.append("directory member %r has content" % name)
                else:
                    key, node = name, (T.FILE, z.read(info), False)
                if key in out:
                    dups.append(key)
                out[key] = node + (None,)
    except (zipfile.BadZipFile, OSError, EOFError, ValueError) as e:
        raise Unreadable("zipfile: %r" % (e,)) from e
    return out, dups, odd


def read_dir(path):
    out = {}
    for p, node in T.disk_snapshot(path).items():
        out[p] = node + (os.lstat(os.path.join(path, p)).st_mtime,)
    return out, [], []


def extract(path, fmt, into):
    """Unpack with the standard tools, as a user would; -> disk snapshot."""
    os.mkdir(into)
    if fmt == "zip":
        import zipfile

        with zipfile.ZipFile(path) as z:
            z.extractall(into)
    else:
        import tarfile

        with tarfile.open(path, "r:*") as tf:
            tf.extractall(into, filter="fully_trusted")
    return T.disk_snapshot(into)


def _short(v):
    r = repr(v)
    return r if len(r) < 90 else r[:86] + "...'"


def _diff(exp, got):
    miss = sorted(set(exp) - set(got))
    extra = sorted(set(got) - set(exp))
    diff = sorted(p for p in set(exp) & set(got) if exp[p] != got[p])
    return "missing=%r unexpected=%r different=%s" % (miss[:6], extra[:6], [(p, _short(exp[p]), _short(got[p])) for p in diff[:4]])


def _h(obj):
    return hashlib.sha1(repr(obj).encode("utf-8", "replace")).hexdigest()[:12]


def fail(sim, tag, rest, detail):
    sim.fail(tag, [PROPERTY, tag] + list(rest), detail)


def revtree_snapshot(sim, rt, model_snap, fl, rev):
    """Snapshot of the revision tree through the Tree API, cross-checked with the model."""
    try:
        snap = T.tree_snapshot(rt)
    except Exception as e:  # noqa: BLE001 - reading a revision tree must not raise
        fail(sim, "revtree_raised", [fl, type(e).__name__], "reading revision tree %s raised %r" % (rev, e))
    if fl == "bzr":
        got = {p: (fid, k, d, x) for p, (k, d, x, fid) in snap.items()}
        want = model_snap
    else:
        got = {p: (None, k, d, x) for p, (k, d, x, _f) in snap.items() if k != T.DIR}
        want = model_snap
        dirs = {p for p, e in snap.items() if e[0] == T.DIR}
        wdirs = {""} | {a for p in model_snap for a in T.ancestors(p)}
        if dirs != wdirs:
            fail(sim, "revtree_model", [fl], "revision %s: directories of the revision tree %r, of the model %r" % (rev, sorted(dirs), sorted(wdirs)))
    if got != want:
        fail(sim, "revtree_model", [fl], "revision %s: revision tree vs model snapshot: %s" % (rev, _diff(want, got)))
    return snap


def do_export(sim, tree, model, fl, i, ex, revids, times):
    from breezy.export import export

    rev = ex["rev"]
    if rev not in revids:
        sim.event("export", i, "skip", "no-such-revision")
        return None
    idx = [r for r, _s in model.revs].index(rev)
    model_snap = model.revs[idx][1]
    fmt = ex["fmt"]
    fam = fmt if fmt in ("dir", "zip") else "tarball"  # one signature per exporter, not per compression
    sub = ex["subdir"]
    if sub:
        # (only after shrinking) the property says nothing about a subdir the revision lacks
        valid = set(snapshot_dirs(fl, model_snap))
        if not sub.endswith("/"):
            valid.update(p for p in model_snap if p)
        if sub.rstrip("/") not in valid:
            sim.event("export", i, "skip", "subdir-not-in-revision")
            return None
    last = idx == len(model.revs) - 1
    if ex["src"] == "basis" and last:
        rt = tree.basis_tree()
        src = "basis"
    else:
        rt = tree.branch.repository.revision_tree(revids[rev])
        src = "repo"
    snap = revtree_snapshot(sim, rt, model_snap, fl, rev)
    req = expected_export(snap, fl, sub)
    what = "export %d %s" % (i, json.dumps(ex, sort_keys=True, ensure_ascii=False))

    scratch = os.environ["VERIF_SCRATCH"]
    outdir = os.path.join(scratch, "x%d" % i)
    os.mkdir(outdir)
    dest = os.path.join(outdir, ex["dest"])
    xt = rt
    if ex["filtered"]:
        from breezy.filter_tree import ContentFilterTree

        xt = ContentFilterTree(rt, rt._content_filter_stack)
    kw = {}
    fobj = None
    try:
        if ex["fileobj"] and fmt != "dir":
            fobj = kw["fileobj"] = open(dest, "wb")
        try:
            export(xt, dest, fmt if ex["explicit"] else None, ex["root"], sub, per_file_timestamps=ex["pft"], **kw)
        finally:
            if fobj is not None:
                fobj.close()
    except Exception as e:  # noqa: BLE001 - nothing may be refused here
        import traceback

        site = traceback.extract_tb(e.__traceback__)[-1]
        tb = "".join(traceback.format_exception(type(e), e, e.__traceback__)[-4:])
        fail(sim, "export_raised", [fl, fam, type(e).__name__, site.name], "%s raised %r\n%s" % (what, e, tb))

    # -- read back ------------------------------------------------------------------------
    if fmt == "dir":
        if not os.path.isdir(dest):
            fail(sim, "container", [fl, fmt], "%s: destination is not a directory" % what)
        members, dups, odd = read_dir(dest)
        root = ""
    else:
        if not os.path.isfile(dest):
            fail(sim, "container", [fl, fmt], "%s: no file was written at the destination" % what)
        with open(dest, "rb") as f:
            head = f.read(512)
        magic = MAGIC.get(fmt)
        if magic is not None and not head.startswith(magic):
            fail(sim, "container", [fl, fmt], "%s: file starts with %r, not a %s container" % (what, head[:8], fmt))
        try:
            members, dups, odd = read_zip(dest) if fmt == "zip" else read_tar(dest, fmt)
        except Unreadable as e:
            fail(sim, "container", [fl, fmt], "%s: cannot be read back: %s" % (what, e))
        if fmt == "tar" and members and head[257:262] != b"ustar":
            fail(sim, "container", [fl, fmt], "%s: not a plain tar file" % what)
        root = default_root(ex["dest"]) if ex["root"] is None else ex["root"]
    if dups:
        fail(sim, "duplicate_member", [fl, fam], "%s: names stored more than once: %r" % (what, dups[:5]))
    if odd:
        fail(sim, "odd_member", [fl, fam], "%s: %s" % (what, "; ".join(odd[:4])))

    def under_root(entries):
        return {(posixpath.join(root, p) if root else p): v for p, v in entries.items()}

    req_v = under_root(zip_view(req) if fmt == "zip" else req)
    got = {p: v[:3] for p, v in members.items()}
    if fmt == "zip":
        got = {p: (k, d, False) for p, (k, d, _x) in got.items()}
    outside = sorted(p for p in got if root and not p.startswith(root + "/"))
    if outside:
        fail(sim, "outside_root", [fl, fam], "%s: members outside the root %r: %r" % (what, root, outside[:6]))
    got_req = got
    if got_req != req_v:
        tag = "content"
        if set(got_req) != set(req_v):
            tag = "paths_subdir" if sub else "paths"
        elif any(got_req[p][2] != req_v[p][2] for p in req_v):
            tag = "exec"
        elif any(got_req[p][0] != req_v[p][0] for p in req_v):
            tag = "kind"
        fail(sim, tag, [fl, fam], "%s (%s tree): %s" % (what, src, _diff(req_v, got_req)))
    # -- unpack as a user would -------------------------------------------------------------
    if fmt != "dir":
        try:
            disk = extract(dest, fmt, os.path.join(outdir, "unpacked"))
        except Exception as e:  # noqa: BLE001 - whatever the standard tools refuse
            fail(sim, "unpack", [fl, fam, type(e).__name__], "%s: extracting the archive raised %r" % (what, e))
        want_disk = dict(got)
        for p in got:
            for a in T.ancestors(p):
                if a:
                    want_disk.setdefault(a, (T.DIR, None, False))
        if fmt == "zip":
            disk = {p: (k, d, False) for p, (k, d, _x) in disk.items()}
        if disk != want_disk:
            fail(sim, "unpack", [fl, fam, "differs"], "%s: extracted files differ from the members: %s" % (what, _diff(want_disk, disk)))

    # -- per-file timestamps ------------------------------------------------------------------
    if ex["pft"] and fmt != "zip":
        check_times(sim, fl, fmt, fam, what, ex, model, idx, times, members, root, sub)

    shape = sorted((p, v[0], len(v[1]) if v[1] is not None else -1, v[2]) for p, v in req_v.items())
    sim.event("export", i, rev, fmt, ex["dest"], repr(ex["root"]), repr(sub), "pft" if ex["pft"] else "-", "filtered" if ex["filtered"] else "-", src, len(got), _h(sorted(got.items())))
    sim.probe("fmt_" + fmt)
    sim.probe("root_" + ("default" if ex["root"] is None else "empty" if ex["root"] == "" else "nested" if "/" in ex["root"] else "plain"))
    sim.probe("subdir_" + ("none" if not sub else "entry" if snap.get(sub.rstrip("/"), (None,))[0] != T.DIR else "dir"))
    for flag in ("pft", "filtered", "fileobj"):
        if ex[flag]:
            sim.probe(flag)
    sim.probe("src_" + src)
    if any(p.startswith(SPECIAL_PREFIX[fl]) for p in snap):
        sim.probe("special_in_tree")
    for k in {v[0] for v in req_v.values()}:
        sim.probe("exported_" + k)
    if any(v[2] for v in req_v.values()):
        sim.probe("exported_exec")
    sim.state_seen((fl, fmt, ex["explicit"], ex["root"], bool(sub), ex["pft"], ex["filtered"], src, _h(shape)))
    return len(req_v) >= 2


def check_times(sim, fl, fmt, fam, what, ex, model, idx, times, members, root, sub):
    """per_file_timestamps ('Set modification time of files to that of the last revision in
    which it was changed'): see ASSUMPTIONS for the (weak) form asserted."""
    upto = [(r, s) for r, s in model.revs[: idx + 1]]
    all_times = {times[r] for r, _s in upto}
    snap = model.revs[idx][1]
    subn = (sub or "").rstrip("/") or None
    for name, (k, _d, _x, mtime) in sorted(members.items()):
        if fmt == "dir" and k != T.FILE:
            continue  # os.utime is applied to files only
        rel = name[len(root) + 1 :] if root else name
        if subn is None:
            tp = rel
        elif subn in snap and snap[subn][1] != T.DIR:
            tp = subn
        else:
            tp = subn + "/" + rel
        ok_times = all_times
        ent = snap.get(tp)
        if k == T.FILE and ent is not None and ent[1] == T.FILE:
            ok_times = set()
            for r, s in upto:
                if fl == "bzr":
                    same = [e for e in s.values() if e[0] == ent[0] and e[1] == T.FILE and e[2] == ent[2]]
                else:
                    e = s.get(tp)
                    same = [e] if e is not None and e[1] == T.FILE and e[2] == ent[2] else []
                if same:
                    ok_times.add(times[r])
        if mtime not in ok_times:
            fail(sim, "pft_mtime", [fl, fam], "%s: member %r has mtime %r; commit times at which it had this content: %r" % (what, name, mtime, sorted(ok_times)))


# --------------------------------------------------------------------------------------
# the run
# --------------------------------------------------------------------------------------


def execute(sim, plan):
    warm()
    T.quiet()
    T.settle_randomness(sim.seed)
    world.setup_sim(sim)
    fl = plan["flavour"]
    # plan["unguarded"] (replay files written while this check still had guards) is ignored
    T.relativise_log(sim, os.path.join(os.environ["VERIF_SCRATCH"], "t"))
    T.mask_content_names(sim)
    tree = T.make_tree(sim, fl, "t")
    model = XTree(fl)
    revids, times = {}, {}
    for i, op in enumerate(plan["ops"]):
        cls = model.classify(op)
        bad = bool(op.get("bad"))
        if cls == "skip" or (bad and cls != "error") or (not bad and cls != "ok"):
            sim.event("skip", i, op["o"])
            continue
        raised = None
        try:
            tree = T.apply_op(tree, model, op)
        except Exception as e:  # noqa: BLE001 - classified below
            raised = e
        if cls == "error":
            # refusals are C09's business; here only the history matters
            if raised is None:
                fail(sim, "workload", [fl, op["o"], "illegal_accepted"], "history generation: %s was accepted; the model says it must be refused" % json.dumps(op))
            sim.event("op", i, json.dumps(op, sort_keys=True), "refused")
            continue
        if raised is not None:
            import traceback

            tb = "".join(traceback.format_exception(type(raised), raised, raised.__traceback__)[-5:])
            fail(sim, "workload", [fl, op["o"], type(raised).__name__], "history generation: %s raised %r\n%s" % (json.dumps(op), raised, tb))
        model.apply(op)
        sim.event("op", i, json.dumps(op, sort_keys=True), "ok")
        if op["o"] == "commit":
            revids[op["rev"]] = tree.last_revision()
            times[op["rev"]] = op["t"]
    compared = 0
    rich = False
    for i, ex in enumerate(plan.get("exports", [])):
        r = do_export(sim, tree, model, fl, i, ex, revids, times)
        if r is not None:
            compared += 1
            rich = rich or bool(r)
    sim.nontrivial = rich
    sim.notes["evaluations"] = max(1, compared)
    return tree, model


# --------------------------------------------------------------------------------------
# warm-up / configuration
# --------------------------------------------------------------------------------------

_warmed = []

WARM_OPS = [
    {"o": "write", "p": "a b", "n": 1},
    {"o": "mkdir_disk", "p": "dé"},
    {"o": "write", "p": "dé/ü ö", "n": 2},
    {"o": "symlink", "p": "dé/a", "n": 3},
    {"o": "write", "p": ".bzrignore", "n": 4},
    {"o": "write", "p": ".gitignore", "n": 5},
    {"o": "smart_add", "p": "", "n": 6},
    {"o": "chmod", "p": "a b", "x": True},
    {"o": "commit", "paths": None, "rev": "rev-7", "t": 1700000007},
    {"o": "write", "p": "a b", "n": 8},
    {"o": "mkdir", "p": "a", "id": "d9"},
    {"o": "commit", "paths": None, "rev": "rev-10", "t": 1700000010},
]


def _warm_exports():
    out = []
    n = 0
    for fmt, exts in sorted(FORMATS.items()):
        for pft in (False, True):
            n += 1
            out.append({"rev": "rev-10" if pft else "rev-7", "fmt": fmt, "explicit": not pft, "dest": "out%d%s" % (n, exts[-1]), "root": None if pft else "r/ü", "subdir": None if pft else "dé/", "pft": pft, "filtered": False, "fileobj": pft, "src": "basis" if pft else "repo"})
    out.append({"rev": "rev-10", "fmt": "tar", "explicit": True, "dest": "outf.tar", "root": "", "subdir": "a b", "pft": False, "filtered": True, "fileobj": False, "src": "repo"})
    out.append({"rev": "rev-10", "fmt": "dir", "explicit": True, "dest": "outg", "root": "", "subdir": None, "pft": True, "filtered": True, "fileobj": False, "src": "repo"})
    return out


def warm():
    world.quiet_breezy()
    T.quiet()
    if _warmed:
        return
    _warmed.append(1)
    from . import storesim

    # histories with ten or more commits read several pack indices: their order must not depend on addresses
    storesim.install_pins()
    import bz2  # noqa: F401
    import gzip  # noqa: F401
    import lzma  # noqa: F401
    import shutil
    import tarfile  # noqa: F401
    import tempfile
    import zipfile  # noqa: F401

    import breezy.archive.tar  # noqa: F401
    import breezy.archive.zip  # noqa: F401
    import breezy.bzr.workingtree_4  # noqa: F401
    import breezy.commit  # noqa: F401
    import breezy.export  # noqa: F401
    import breezy.filter_tree  # noqa: F401
    import breezy.git.workingtree  # noqa: F401
    import breezy.transform  # noqa: F401
    from simkit.sim import Sim, Violation

    saved = {k: os.environ.get(k) for k in ("VERIF_SCRATCH", "BRZ_HOME", "HOME")}
    tmp = tempfile.mkdtemp(prefix="verif-warm-", dir="/dev/shm")
    try:
        for fl in ("bzr", "git"):
            sc = os.path.join(tmp, fl)
            os.makedirs(os.path.join(sc, "home"))
            os.environ.update(VERIF_SCRATCH=sc, BRZ_HOME=os.path.join(sc, "home"), HOME=os.path.join(sc, "home"))
            plan = {"flavour": fl, "ops": WARM_OPS, "exports": _warm_exports()}
            sim = Sim(1, plan, step_cap=10**6)
            try:
                execute(sim, plan)
            except Violation:
                pass
            except Exception:  # noqa: BLE001 - a dry run; real runs report
                pass
    finally:
        for k, v in saved.items():
            if v is None:
                os.environ.pop(k, None)
            else:
                os.environ[k] = v
        shutil.rmtree(tmp, ignore_errors=True)
    import gc

    gc.collect()
    gc.freeze()


def config(tier):
    if tier == "thorough":
        return {"budget_s": 700, "run_timeout": 180, "selftest": 48, "workers": 8}
    return {"budget_s": 50, "run_timeout": 180, "selftest": 24, "workers": 8}
