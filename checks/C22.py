"""C22 — Revision numbers and revision specifiers resolve consistently.

One run = one generated DAG history (several lines of development, merges of merges,
merged parentless roots, optional ghost right-hand parents, tags) in a shared repository
on a simulated store, and a seeded history of QUERIES and TIP MOVES against the branch
under test.  Queries: get_rev_id, revision_id_to_revno, dotted_revno_to_revision_id,
revision_id_to_dotted_revno, get_revision_id_to_revno_map, iter_merge_sorted_revisions
(whole / from a revision / mainline ranges with every stop rule), last_revision_info and
RevisionSpec strings generated from the model (numbers, negatives, dotted numbers, revno:,
revid:, before:, last:, tag:, ancestor:, mainline:, bare tags/revids, ranges a..b).  Each is asked
on cold objects (fresh Branch per query), on an unlocked shared object, and on objects that
stay read- or write-locked, so that the answer is produced by whatever caches the EARLIER
queries of the seeded order filled.  Tip moves on the same locked object: new commits on
top (left-hand extension, with merges), uncommit-like moves to a left-hand ancestor, moves
to another line (set_last_revision_info / generate_revision_history), tag changes.

Oracle.  Mainline numbers, ancestry, left-hand parents, the mainline revision that merged
r, LCAs and tags come from the graph model.  Dotted numbers are not recomputed by a second
merge-sort: after every tip move a cold object's get_revision_id_to_revno_map() is taken
as reference and checked against the LAWS (total on the ancestry, injective, (n,) <=> n-th
left-hand revision, (x,y,z>1) => left-hand parent is (x,y,z-1), (x,y,1) => x is the first
component of the left-hand parent's number / 0 for a parentless root, unchanged numbers
after a left-hand extension); every other access path, in every cache state, must agree
with that reference."""

import copy

from simkit import findings, world

from . import graphsim, storesim
from .graphsim import NULL, GModel, gen_dag
from .storesim import MHist, gen_chain, replay_model

PROPERTY = "C22"
LEVEL = "exploration"
ISOLATION = "fork"
STEP_CAP = 400000
RULE = (
    "one case = one (generated DAG with merges of merges, tip, tags) x one seeded history of queries and tip moves "
    "(sessions on cold / unlocked-shared / read-locked / write-locked branch objects; moves = left-hand extension by new "
    "commits incl. merges, uncommit-like move, move to another line, tag change); non-trivial = the tip's ancestry "
    "contains a merged revision (a 3-component number exists) and at least one query was answered by a locked object "
    "that had answered other queries before; about 30% of the cases are two-process races instead (an unlocked reader "
    "object asks number<->id questions while a second process moves the tip; non-trivial = a tip move landed inside a "
    "reader call); distinct = distinct event-log digests of such runs"
)
COMPONENTS = {
    "real": [
        "breezy.branch.Branch revno/dotted-revno code and its caches (_partial_revision_history_cache, _partial_revision_id_to_revno_cache, _revision_id_to_revno_cache, _merge_sorted_revisions_cache, _last_revision_info_cache)",
        "breezy.bzr.branch.BzrBranch8.get_rev_id / revision_id_to_revno / set_last_revision_info",
        "breezy.revisionspec (RevisionSpec.from_string, dwim, revno, revid, before, last, tag, ancestor, mainline), breezy.option._parse_revision_str, breezy.builtins._get_revision_range",
        "vcsgraph KnownGraph.merge_sort, Graph.find_unique_lca / find_lefthand_merger over the real repository indices",
        "commit via BranchBuilder/MemoryTree on the queried branch object",
    ],
    "simulated": ["disk (SimTransport over the memory transport)", "clock of breezy.lockdir"],
    "stub": ["UI"],
}
ASSUMPTIONS = [
    "no ghost left-hand parents (revision numbers are undefined there); ghosts occur as right-hand parents only",
    "before: of a parentless revision may answer null: or refuse (both documented); revid:/tag: of a revision outside the tip's ancestry, last:n beyond the history and ancestor: with several LCAs are resolved but only weakly judged (any common ancestor; a refusal is accepted too when those LCAs share no ancestor, because find_unique_lca is documented to reduce 'LCAs of the LCAs' down to the graph origin and ancestor: then reports NoCommonAncestor) or not judged",
    "an error is 'the documented refusal' when it is a BzrError / vcsgraph error; the class is not compared",
    "caches live only while the object is locked (unlock clears them); 'warm' therefore means a locked object",
    "two-process mode: the reader never locks its branch object and asks only questions that one call answers under one lock span on HEAD (get_rev_id, positive numbers / revno:N, dotted lookups both ways, revision_id_to_revno, last_revision_info); negative numbers and last:N read the tip in one call and resolve the number in another, so for an unlocked caller they are outside the promise; an answer is right when it is the model's answer for one tip that was on disk between the start and the end of the call",
]


def warm():
    storesim.warm()
    import random

    import breezy.builtins  # noqa: F401
    import breezy.option  # noqa: F401
    import breezy.revisionspec  # noqa: F401
    import breezy.tag  # noqa: F401
    from simkit.sim import Sim, Violation

    global _warmed
    if _warmed:
        return
    done = set()
    for seed in range(7, 60):
        plan = generate(random.Random(seed), "quick")
        mode = plan.get("mode", "single")
        if mode in done:
            continue
        done.add(mode)
        plan["fmt"] = "2a"
        sim = Sim(0, plan, step_cap=STEP_CAP)
        sim.tier = "quick"
        try:
            execute(sim, plan)
        except Violation:
            pass  # warm-up only exercises the code paths; the batch judges
        finally:
            world.reset_stores()
        if done == {"single", "race"}:
            break
    _warmed = True


_warmed = False


def config(tier):
    if tier == "thorough":
        return {"budget_s": 700, "run_timeout": 180, "selftest": 12}
    return {"budget_s": 50, "run_timeout": 180, "selftest": 6}


# ------------------------------------------------------------------------------------
# generation


class _State:
    """Model-side state while generating / executing: the model, the tip, tags."""

    def __init__(self, mh, tip, other, tags):
        self.mh = mh
        self.gm = GModel(mh)
        self.tip = tip
        self.other = other
        self.tags = dict(tags)

    def refresh(self):
        self.gm = GModel(self.mh)

    @property
    def lh(self):
        return self.gm.lefthand(self.tip)

    @property
    def anc(self):
        return self.gm.ancestry(self.tip)


def _pick_rid(rng, st, recent, inside=0.85):
    anc = sorted(st.anc, key=graphsim._natkey)
    if recent and rng.random() < 0.35:
        return rng.choice(recent)
    if rng.random() < inside or len(st.mh.revs) == len(anc):
        merged = [r for r in anc if r not in set(st.lh)]
        if merged and rng.random() < 0.6:
            return rng.choice(merged)
        return rng.choice(anc)
    return rng.choice(sorted(set(st.mh.revs) - set(anc), key=graphsim._natkey))


def _gen_term(rng, st, recent, depth=0):
    n = len(st.lh)
    r = rng.random()
    if depth < 2 and r < 0.22:
        return ["before", _gen_term(rng, st, recent, depth + 1)]
    if depth < 2 and r < 0.32:
        return ["mainline", _gen_term(rng, st, recent, depth + 1)]
    r = rng.random()
    if r < 0.13:
        return ["num", rng.randint(1, n)]
    if r < 0.23:
        return ["neg", rng.randint(1, n + 2)]
    if r < 0.30:
        return ["revno", rng.randint(1, n + 2)]
    if r < 0.52:
        rid = _pick_rid(rng, st, recent, inside=1.0)
        recent.append(rid)
        return ["dotted", rid]
    if r < 0.56:
        return ["dotted_raw", [rng.randint(0, n), rng.randint(1, 4), rng.randint(1, 4)]]
    if r < 0.70:
        return ["revid", _pick_rid(rng, st, recent)]
    if r < 0.78:
        return ["last", rng.randint(1, n)]
    if r < 0.86 and st.tags:
        name = rng.choice(sorted(st.tags) + ["nosuchtag"])
        return ["tag" if rng.random() < 0.7 else "bare", name]
    if r < 0.93:
        return ["ancestor"]
    if r < 0.96:
        return ["revno_in", rng.randint(1, max(1, len(st.gm.lefthand(st.other))))]
    return ["bare", _pick_rid(rng, st, recent, inside=1.0)]


def _gen_query(rng, st, recent):
    n = len(st.lh)
    r = rng.random()
    if r < 0.40:
        return ["spec", _gen_term(rng, st, recent), rng.choice(["id", "hist", "hist"])]
    if r < 0.46:
        return ["range", _gen_term(rng, st, recent), _gen_term(rng, st, recent)]
    if r < 0.54:
        return ["get_rev_id", rng.randint(0, n + 1)]
    if r < 0.62:
        return ["id2revno", _pick_rid(rng, st, recent)]
    if r < 0.72:
        rid = _pick_rid(rng, st, recent, inside=1.0)
        recent.append(rid)
        return ["dotted2id", rid, rng.random() < 0.5]
    if r < 0.84:
        return ["id2dotted", _pick_rid(rng, st, recent, inside=0.9)]
    if r < 0.88:
        return ["map"]
    if r < 0.92:
        return ["ims", rng.choice(["reverse", "forward", "both"])]
    if r < 0.95:
        return ["ims_from", _pick_rid(rng, st, recent, inside=1.0)]
    if r < 0.98 and n >= 2:
        a = rng.randint(2, n)
        b = rng.randint(1, a - 1)
        return ["ims_range", st.lh[a - 1], st.lh[b - 1], rng.choice(["exclude", "include", "with-merges", "with-merges-without-common-ancestry"])]
    return ["lri"]


def _gen_move(rng, st, plan_counter):
    """A tip move applied to the model state; returns the op."""
    r = rng.random()
    lh = st.lh
    if r < 0.5:
        plan_counter[0] += 1
        tag = f"e{plan_counter[0]}"
        outside = sorted(set(st.mh.revs) - set(st.anc), key=graphsim._natkey)
        specs = gen_chain(rng, st.mh, st.tip, rng.randint(1, 3), tag, merge_from=outside or None)
        if outside and rng.random() < 0.5 and len(specs[-1]["parents"]) == 1:
            # make sure extensions often merge (numbers of merged revisions must stay put)
            st.mh.revs.pop(specs[-1]["id"])
            rid = specs[-1]["id"]
            anc = st.mh.ancestry(specs[-1]["parents"][0])
            cand = [m for m in outside if m not in anc]
            specs[-1] = storesim.gen_spec(rng, st.mh, rid, [specs[-1]["parents"][0]] + ([rng.choice(cand)] if cand else []), specs[-1]["ts"])
        st.tip = specs[-1]["id"]
        st.refresh()
        return ["extend", specs]
    if r < 0.68 and len(lh) >= 2:
        st.tip = lh[rng.randint(0, len(lh) - 2)]
        return [rng.choice(["settip", "genhist"]), st.tip]
    if r < 0.88:
        outside = sorted(set(st.mh.revs) - set(st.anc), key=graphsim._natkey)
        cand = outside or sorted(st.mh.revs, key=graphsim._natkey)
        st.tip = rng.choice(cand)
        return [rng.choice(["settip", "genhist"]), st.tip]
    name = rng.choice(["t1", "t2", "t3", "t4"])
    if name in st.tags and rng.random() < 0.3:
        st.tags.pop(name)
        return ["untag", name]
    rid = rng.choice(sorted(st.mh.revs, key=graphsim._natkey))
    st.tags[name] = rid
    return ["tag", name, rid]


def generate(rng, tier):
    fmt = rng.choice(storesim.FORMATS + ["2a"])
    mh = MHist()
    n = rng.randint(4, 17)
    specs, lines = gen_dag(
        rng,
        mh,
        n,
        "g",
        max_lines=rng.choice([2, 3, 3, 4]),
        p_merge=rng.choice([0.25, 0.4, 0.55]),
        p_fork=rng.choice([0.1, 0.2]),
        p_root=rng.choice([0.0, 0.05, 0.1]),
        p_ghost=rng.choice([0.0, 0.0, 0.06]),
        nchanges=1,
    )
    gm = GModel(mh)
    by_size = sorted(lines, key=lambda t: (-len(gm.ancestry(t)), t))
    main = by_size[0] if rng.random() < 0.7 else rng.choice(lines)
    rest = [t for t in lines if t != main]
    other = rng.choice(rest) if rest and rng.random() < 0.8 else rng.choice(sorted(mh.revs, key=graphsim._natkey))
    tags = {}
    for i in range(rng.randint(0, 3)):
        tags[f"t{i + 1}"] = rng.choice(sorted(mh.revs, key=graphsim._natkey))
    if rng.random() < 0.3:
        return _gen_race(rng, fmt, specs, mh, gm, main)
    st = _State(mh, main, other, tags)
    ops = []
    counter = [0]
    recent = []
    nsessions = rng.randint(3, 6)
    for _ in range(nsessions):
        mode = rng.choice(["cold", "shared", "rlock", "rlock", "wlock", "wlock", "wlock"])
        ops.append(["open", mode])
        for _ in range(rng.randint(3, 12)):
            ops.append(["q"] + _gen_query(rng, st, recent))
        if mode in ("cold", "shared", "wlock"):
            for _ in range(rng.choice([0, 1, 1, 2, 3])):
                ops.append(_gen_move(rng, st, counter))
                # first ask again about revisions whose numbers were resolved before the move
                # (their cached answers are the ones a tip move must invalidate)
                for _ in range(rng.choice([0, 1, 2])):
                    if recent:
                        ops.append(["q", rng.choice(["id2dotted", "id2dotted", "id2revno"]), rng.choice(recent[-6:])])
                for _ in range(rng.randint(3, 10)):
                    ops.append(["q"] + _gen_query(rng, st, recent))
    return {"fmt": fmt, "specs": specs, "main": main, "other": other, "tags": tags, "ops": ops}


def _gen_race(rng, fmt, specs, mh, gm, main):
    """Two simulated processes on one branch: W moves the tip (forward / backward along the
    line, sometimes to another line) through its own Branch object; R asks an UNLOCKED branch
    object for numbers -> ids and ids -> numbers meanwhile."""
    revs = sorted(mh.revs, key=graphsim._natkey)
    lh = gm.lefthand(main)
    cur = lh[max(0, len(lh) // 2 - 1)] if rng.random() < 0.6 else main
    start = cur
    moves = []
    for _ in range(rng.randint(3, 7)):
        chain = gm.lefthand(main)
        r = rng.random()
        if r < 0.8 and len(chain) > 1:
            cand = [x for x in chain if x != cur]
        else:
            cand = [x for x in revs if x != cur]
        cur = rng.choice(cand)
        moves.append([rng.choice(["settip", "settip", "genhist"]), cur])
    tips = [start] + [m[1] for m in moves]
    maxn = max(len(gm.lefthand(t)) for t in tips)
    reader = []
    for _ in range(rng.randint(25, 60)):
        r = rng.random()
        if r < 0.35:
            reader.append(["get_rev_id", rng.randint(0, maxn + 1)])
        elif r < 0.55:
            reader.append(["spec", rng.choice(["num", "revno"]), rng.randint(1, maxn), rng.choice(["id", "hist"])])
        elif r < 0.70:
            reader.append(["dotted2id_of", rng.choice(revs), rng.randrange(len(tips)), rng.random() < 0.5])
        elif r < 0.82:
            reader.append(["id2dotted", rng.choice(revs)])
        elif r < 0.92:
            reader.append(["id2revno", rng.choice(revs)])
        else:
            reader.append(["lri"])
    plan = {"fmt": fmt, "specs": specs, "main": start, "other": main, "tags": {}, "ops": [], "mode": "race", "actors": {"R": reader, "W": moves}, "policy": rng.choice(["random", "random", "pct"])}
    if plan["policy"] == "pct":
        plan["preempt_at"] = sorted(rng.sample(range(5, 1200), rng.randint(3, 10)))
    return plan


# ------------------------------------------------------------------------------------
# model evaluation of specifier terms


def render(term, ctx):
    k = term[0]
    if k == "num":
        return str(term[1])
    if k == "neg":
        return str(-term[1])
    if k == "revno":
        return f"revno:{term[1]}"
    if k == "revno_in":
        return f"revno:{term[1]}:{ctx['url_other']}"
    if k == "dotted":
        t = ctx["M"].get(term[1])
        return None if t is None else ".".join(map(str, t))
    if k == "dotted_raw":
        return "revno:" + ".".join(map(str, term[1]))
    if k == "revid":
        return f"revid:{term[1]}"
    if k == "bare":
        return term[1]
    if k == "last":
        return f"last:{term[1]}"
    if k == "tag":
        return f"tag:{term[1]}"
    if k == "ancestor":
        return f"ancestor:{ctx['url_other']}"
    if k in ("before", "mainline"):
        inner = render(term[1], ctx)
        return None if inner is None else f"{k}:{inner}"
    raise ValueError(term)


def ev(term, st, ctx):
    """('rev', rid) | ('null',) | ('err',) | ('null_or_err',) | ('oneof', set) | ('skip',)"""
    gm = st.gm
    lh = st.lh
    n = len(lh)
    k = term[0]
    if k in ("num", "revno"):
        v = term[1]
        if 1 <= v <= n:
            return ("rev", lh[v - 1])
        return ("err",) if v > n else ("skip",)
    if k == "neg":
        v = term[1]
        return ("rev", lh[0] if v >= n else lh[n - v])
    if k == "revno_in":
        olh = gm.lefthand(st.other)
        v = term[1]
        return ("rev", olh[v - 1]) if 1 <= v <= len(olh) else ("err",)
    if k == "dotted":
        return ("rev", term[1]) if term[1] in ctx["M"] else ("skip",)
    if k == "dotted_raw":
        t = tuple(term[1])
        hits = [r for r, v in ctx["M"].items() if v == t]
        return ("rev", hits[0]) if hits else ("err",)
    if k == "revid":
        return ("rev", term[1]) if term[1] in st.anc else ("skip",)
    if k == "bare":
        name = term[1]
        if name in st.tags:
            return ("rev", st.tags[name])
        if name in st.mh.revs:
            return ("rev", name) if name in st.anc else ("skip",)
        return ("skip",)  # falls through to date: / branch: guesses
    if k == "last":
        v = term[1]
        return ("rev", lh[n - v]) if 1 <= v <= n else ("skip",)
    if k == "tag":
        return ("rev", st.tags[term[1]]) if term[1] in st.tags else ("err",)
    if k == "ancestor":
        if st.other not in st.mh.revs:
            return ("skip",)
        lcas = gm.lcas(st.tip, st.other)
        if not lcas:
            return ("err",)
        if len(lcas) == 1:
            return ("rev", next(iter(lcas)))
        common = gm.ancestry(st.tip) & gm.ancestry(st.other)
        if gm.iterated_unique_lca(st.tip, st.other) is None:
            # several LCAs that share no ancestor (criss-cross over unrelated roots): the documented
            # reduction of find_unique_lca ends at the graph origin and the specifier refuses
            return ("oneof_or_err", common)
        return ("oneof", common)
    if k == "before":
        e = ev(term[1], st, ctx)
        if e[0] == "rev":
            if e[1] not in st.mh.revs:
                return ("skip",)  # tag pointing at a ghost
            p = gm.lh_parent(e[1])
            if p is None:
                return ("null_or_err",)
            if p not in st.mh.revs:
                return ("skip",)
            return ("rev", p)
        if e[0] in ("null", "err"):
            return ("err",)
        return ("skip",)
    if k == "mainline":
        e = ev(term[1], st, ctx)
        if e[0] == "rev":
            m = gm.merger(e[1], st.tip)
            return ("rev", m) if m is not None else ("err",)
        if e[0] == "err":
            return ("err",)
        return ("skip",)
    raise ValueError(term)


def before_of_other_branch(term):
    """before: applied (directly) to a revno:N:BRANCH specifier somewhere in the term."""
    if term[0] in ("before", "mainline"):
        if term[0] == "before" and term[1][0] == "revno_in":
            return True
        return before_of_other_branch(term[1])
    return False


def head_of(term):
    return term[0] + (":" + head_of(term[1]) if term[0] in ("before", "mainline") else "")


# ------------------------------------------------------------------------------------
# execution


def _is_refusal(e):
    from breezy import errors

    try:
        import vcsgraph.errors as ve

        extra = (ve.NoCommonAncestor, ve.GhostRevisionsHaveNoRevno, ve.RevisionNotPresent)
    except Exception:  # noqa: BLE001
        extra = ()
    return isinstance(e, (errors.BzrError,) + extra)


def check_laws(sim, st, M, where, old=None):
    for law, detail in graphsim.revno_law_problems(st.gm, st.tip, M, old):
        sim.fail("laws", ["laws", "none", f"{law}@{where}"], f"{law}: {detail}; tip={st.tip} lh={st.lh} map={sorted(M.items(), key=lambda kv: graphsim._natkey(kv[0]))}")


def execute_race(sim, plan):
    """Reader on an unlocked branch object vs. a writer moving the tip: every answer must be
    the model's answer for ONE tip that was current during the call."""
    from breezy import revisionspec

    storesim.warm()
    sim.disarm()
    world.setup_sim(sim)
    fmt = plan["fmt"]
    mh = replay_model(plan["specs"])
    gm = GModel(mh)
    start = plan["main"]
    moves = [m for m in plan["actors"].get("W", []) if m[1] in mh.revs]
    if start not in mh.revs:
        return
    url = world.new_store("repo")
    storesim.make_shared_repo(url, fmt)
    build = storesim.make_branch(url + "build", fmt)
    graphsim.build_dag(build, plan["specs"])
    del build
    url_main = url + "main"
    mb = storesim.make_branch(url_main, fmt)
    tips = [start] + [m[1] for m in moves]
    maps = {}
    for t in dict.fromkeys(tips):
        graphsim.point_branch(mb, gm, t)
        raw = storesim.open_branch(url_main).get_revision_id_to_revno_map()
        M = {k.decode(): tuple(v) for k, v in raw.items()}
        for law, detail in graphsim.revno_law_problems(gm, t, M):
            sim.fail("laws", ["laws", "none", f"{law}@race-setup"], f"{law}: {detail}; tip={t}")
        maps[t] = M
    graphsim.point_branch(mb, gm, start)
    del mb
    applied = [start]
    pending = [None]

    def monitor(sim_, actor, phase, op, path, extra):
        if phase == "after" and op == "put" and actor.name == "W" and path.endswith("/main/.bzr/branch/last-revision"):
            applied.append(pending[0])

    sim.monitors.append(monitor)
    overlapped = [0]

    def dec(x):
        return x.decode() if isinstance(x, bytes) else x

    def model_answer(q, t):
        lh = gm.lefthand(t)
        M = maps[t]
        kind = q[0]
        if kind == "get_rev_id":
            n = q[1]
            return ("ok", NULL) if n == 0 else (("ok", lh[n - 1]) if 1 <= n <= len(lh) else ("refused",))
        if kind == "spec":
            n = q[2]
            return ("ok", lh[n - 1]) if 1 <= n <= len(lh) else ("refused",)
        if kind == "dotted2id":
            hits = [r for r, v in M.items() if v == tuple(q[1])]
            return ("ok", hits[0]) if hits else ("refused",)
        if kind == "id2dotted":
            return ("ok", M[q[1]]) if q[1] in M else ("refused",)
        if kind == "id2revno":
            return ("ok", lh.index(q[1]) + 1) if q[1] in lh else ("refused",)
        if kind == "lri":
            return ("ok", (len(lh), t))
        raise ValueError(q)

    def reader():
        b = storesim.open_branch(url_main)  # never locked by the reader itself
        for q in plan["actors"].get("R", []):
            q = list(q)
            kind = q[0]
            if kind == "dotted2id_of":
                t = tips[q[2] % len(tips)]
                if q[1] not in maps[t]:
                    continue
                q = ["dotted2id", list(maps[t][q[1]]), q[3]]
                kind = "dotted2id"
            elif kind in ("id2dotted", "id2revno") and q[1] not in mh.revs:
                continue
            i0 = len(applied)
            try:
                if kind == "get_rev_id":
                    got = ("ok", dec(b.get_rev_id(q[1])))
                elif kind == "spec":
                    text = str(q[2]) if q[1] == "num" else f"revno:{q[2]}"
                    spec = revisionspec.RevisionSpec.from_string(text)
                    got = ("ok", dec(spec.as_revision_id(b) if q[3] == "id" else spec.in_history(b).rev_id))
                elif kind == "dotted2id":
                    got = ("ok", dec(b.dotted_revno_to_revision_id(tuple(q[1]), _cache_reverse=q[2])))
                elif kind == "id2dotted":
                    got = ("ok", tuple(b.revision_id_to_dotted_revno(q[1].encode())))
                elif kind == "id2revno":
                    got = ("ok", b.revision_id_to_revno(q[1].encode()))
                else:
                    info = b.last_revision_info()
                    got = ("ok", (info[0], dec(info[1])))
            except Exception as e:  # noqa: BLE001
                got = ("refused",) if _is_refusal(e) else ("crash", f"{type(e).__name__}: {e}")
            cands = applied[i0 - 1 :]
            sim.event("R", kind, str(q[1:3]), str(got)[:80], len(cands))
            if len(set(cands)) > 1:
                overlapped[0] += 1
                sim.probe("race_call_overlapped_tip_move")
            want = {c: model_answer(q, c) for c in dict.fromkeys(cands)}
            if got[0] == "crash" or got not in want.values():
                sim.fail(
                    "race",
                    ["race", "preempt", f"{kind}:unlocked-reader"],
                    f"unlocked reader: {q} answered {got}; tips current during the call {list(dict.fromkeys(cands))} give {want} - the answer belongs to none of them (left-hand histories: { {c: gm.lefthand(c) for c in dict.fromkeys(cands)} })",
                )
            sim.probe("race_query")

    def writer():
        b = storesim.open_branch(url_main)
        for kind, rid in moves:
            pending[0] = rid
            if kind == "settip":
                b.set_last_revision_info(gm.revno(rid), rid.encode())
            else:
                b.generate_revision_history(rid.encode())
            sim.event("W", kind, rid)
            sim.probe("race_move")

    sim.spawn("R", reader)
    sim.spawn("W", writer)
    sim.run_actors(hang_timeout=120.0)
    for n in ("R", "W"):
        a = sim.actors[n]
        if a.exc is not None:
            raise a.exc
    sim.monitors.remove(monitor)
    sim.state_seen(("race", fmt, len(tips), overlapped[0] > 0))
    sim.nontrivial = overlapped[0] > 0


def execute(sim, plan):
    from breezy import branchbuilder, builtins, option, revisionspec

    if plan.get("mode") == "race":
        return execute_race(sim, plan)

    storesim.warm()
    sim.disarm()
    world.setup_sim(sim)
    known = findings.load(PROPERTY)
    fmt = plan["fmt"]
    mh = replay_model(plan["specs"])
    if plan["main"] not in mh.revs:
        return
    st = _State(mh, plan["main"], plan["other"], plan.get("tags", {}))
    url = world.new_store("repo")
    storesim.make_shared_repo(url, fmt)
    build = storesim.make_branch(url + "build", fmt)
    graphsim.build_dag(build, plan["specs"])
    del build
    url_main = url + "main"
    url_other = url + "other"
    mb = storesim.make_branch(url_main, fmt)
    graphsim.point_branch(mb, st.gm, st.tip)
    for name, rid in sorted(st.tags.items()):
        mb.tags.set_tag(name, rid.encode())
    ob = storesim.make_branch(url_other, fmt)
    graphsim.point_branch(ob, st.gm, st.other if st.other in mh.revs else None)
    del mb, ob
    ctx = {"url_other": url_other, "M": {}}

    def reference(where, old=None):
        b = storesim.open_branch(url_main)
        raw = b.get_revision_id_to_revno_map()
        M = {k.decode(): tuple(v) for k, v in raw.items()}
        check_laws(sim, st, M, where, old)
        ctx["M"] = M
        sim.state_seen(("map", sorted(M.values())))
        return M

    reference("initial")
    has_merged = any(len(v) == 3 for v in ctx["M"].values())

    cur = {"obj": None, "mode": "cold", "asked": 0, "moved": False, "hist": []}

    def close():
        b = cur["obj"]
        if b is not None and cur["mode"] in ("rlock", "wlock"):
            b.unlock()
        cur.update(obj=None, asked=0, moved=False, hist=[])

    def branch_for_query():
        if cur["mode"] == "cold":
            return storesim.open_branch(url_main)
        return cur["obj"]

    def phase():
        if cur["mode"] in ("cold", "shared"):
            return cur["mode"]
        return "locked-after-move" if cur["moved"] else "locked"

    def fail(oracle, site, detail):
        sim.fail(oracle, [oracle, "none", f"{site}@{phase()}"], f"{detail} [mode={cur['mode']} tip={st.tip} earlier on this object: {cur['hist'][-12:]}]")

    def deviation(oracle, site, detail):
        """A violation that is reported but, when it is an OPEN entry of known_findings.json,
        does not end the run (the other oracles stay exercised)."""
        sig = [oracle, "none", site]
        if findings.match(known, sig) is not None:
            kn = sim.notes.setdefault("known", [])
            if sig not in kn:
                kn.append(sig)
            sim.probe("known_" + oracle)
            return
        sim.fail(oracle, sig, f"{detail} [mode={cur['mode']} tip={st.tip} earlier on this object: {cur['hist'][-12:]}]")

    def run(fn):
        try:
            return ("ok", fn())
        except Exception as e:  # noqa: BLE001
            if _is_refusal(e):
                return ("refused", f"{type(e).__name__}: {e}")
            return ("crash", f"{type(e).__name__}: {e}")

    def judge(oracle, site, exp, got, show):
        """exp from ev(); got = ('ok', rid-or-'null:') | ('refused', ..) | ('crash', ..)"""
        if exp[0] == "skip":
            return
        if got[0] == "crash" and got[1].startswith("ObjectNotLocked") and cur["mode"] in ("cold", "shared"):
            # the specifier works only when the caller already holds a lock on the branch
            deviation("spec_needs_caller_lock", "mainline" if "mainline" in site else site.split(":")[0], f"{show} on an unlocked branch: {got[1]} (expected {exp})")
            return
        if got[0] == "crash" and exp[0] != "err":
            fail(oracle, site, f"{show}: internal error {got[1]}, expected {exp}")
        if exp[0] == "rev":
            if got != ("ok", exp[1]):
                fail(oracle, site, f"{show}: expected {exp[1]} got {got}")
        elif exp[0] == "null":
            if got != ("ok", NULL):
                fail(oracle, site, f"{show}: expected null: got {got}")
        elif exp[0] == "err":
            if got[0] == "ok":
                fail(oracle, site, f"{show}: expected a refusal, got {got[1]}")
        elif exp[0] == "null_or_err":
            if got[0] == "ok" and got[1] != NULL:
                fail(oracle, site, f"{show}: expected null: or a refusal, got {got[1]}")
        elif exp[0] == "oneof_or_err":
            if got[0] == "ok" and got[1] not in exp[1]:
                fail(oracle, site, f"{show}: expected one of {sorted(exp[1])} or a refusal, got {got[1]}")
        elif exp[0] == "oneof":
            if got[0] != "ok" or got[1] not in exp[1]:
                fail(oracle, site, f"{show}: expected one of {sorted(exp[1])} got {got}")

    def dec(x):
        return x.decode() if isinstance(x, bytes) else x

    def want_revno(rid):
        if rid == NULL:
            return 0
        lh = st.lh
        return lh.index(rid) + 1 if rid in lh else None

    def do_query(q):
        b = branch_for_query()
        kind = q[0]
        M = ctx["M"]
        lh = st.lh
        n = len(lh)
        sim.event("q", *[str(x) for x in q[:4]])
        if kind == "get_rev_id":
            k = q[1]
            got = run(lambda: dec(b.get_rev_id(k)))
            exp = ("null",) if k == 0 else (("rev", lh[k - 1]) if 1 <= k <= n else ("err",))
            judge("revno", "get_rev_id", exp, got, f"get_rev_id({k})")
        elif kind == "id2revno":
            rid = q[1]
            got = run(lambda: b.revision_id_to_revno(rid.encode()))
            if rid in lh:
                if got != ("ok", lh.index(rid) + 1):
                    fail("revno", "revision_id_to_revno", f"revision_id_to_revno({rid}) expected {lh.index(rid) + 1} got {got}")
            elif got[0] == "ok":
                fail("revno", "revision_id_to_revno", f"revision_id_to_revno({rid}) gave {got[1]} for a revision that is not on the left-hand history {lh}")
        elif kind == "dotted2id":
            rid = q[1]
            if rid not in M:
                return
            t = M[rid]
            got = run(lambda: dec(b.dotted_revno_to_revision_id(t, _cache_reverse=q[2])))
            judge("dotted", "dotted_revno_to_revision_id", ("rev", rid), got, f"dotted_revno_to_revision_id({t})")
        elif kind == "id2dotted":
            rid = q[1]
            got = run(lambda: tuple(b.revision_id_to_dotted_revno(rid.encode())))
            if rid in M:
                if got != ("ok", M[rid]):
                    fail("dotted", "revision_id_to_dotted_revno", f"revision_id_to_dotted_revno({rid}) expected {M[rid]} (cold map) got {got}")
            elif got[0] == "ok":
                fail("dotted", "revision_id_to_dotted_revno", f"revision_id_to_dotted_revno({rid}) gave {got[1]} for a revision outside the tip's ancestry")
        elif kind == "map":
            got = run(lambda: {k.decode(): tuple(v) for k, v in b.get_revision_id_to_revno_map().items()})
            if got != ("ok", M):
                d = got[1] if got[0] != "ok" else sorted(set(got[1].items()) ^ set(M.items()))[:8]
                fail("dotted", "get_revision_id_to_revno_map", f"map differs from the cold reference map: {d}")
        elif kind in ("ims", "ims_from", "ims_range"):
            if kind == "ims":
                want = set(st.anc)

                def fn():
                    rev = [(dec(r), d, tuple(v)) for r, d, v, e in b.iter_merge_sorted_revisions()]
                    if q[1] == "reverse":
                        return rev
                    fwd = [(dec(r), d, tuple(v)) for r, d, v, e in b.iter_merge_sorted_revisions(direction="forward")]
                    if q[1] == "both" and fwd != list(reversed(rev)):
                        raise AssertionError(f"forward {fwd} is not the reverse of {rev}")
                    return fwd

                show = f"iter_merge_sorted_revisions({q[1]})"
            elif kind == "ims_from":
                if q[1] not in M:
                    return
                want = set(st.gm.ancestry(q[1]))
                fn = lambda: [(dec(r), d, tuple(v)) for r, d, v, e in b.iter_merge_sorted_revisions(start_revision_id=q[1].encode())]  # noqa: E731
                show = f"iter_merge_sorted_revisions(start={q[1]})"
            else:
                a, s, rule = q[1], q[2], q[3]
                if a not in lh or s not in lh or lh.index(s) >= lh.index(a):
                    return
                gm = st.gm
                if rule == "exclude" or rule == "with-merges-without-common-ancestry":
                    want = set(gm.ancestry(a) - gm.ancestry(s))
                elif rule == "include":
                    want = set(gm.ancestry(a) - gm.ancestry(s)) | {s}
                else:
                    p = gm.lh_parent(s)
                    want = set(gm.ancestry(a) - gm.ancestry(p))
                fn = lambda: [(dec(r), d, tuple(v)) for r, d, v, e in b.iter_merge_sorted_revisions(start_revision_id=a.encode(), stop_revision_id=s.encode(), stop_rule=rule)]  # noqa: E731
                show = f"iter_merge_sorted_revisions({a}..{s}, {rule})"
            def locked(f=fn):
                # the iterator is lazy: callers consume it under their own lock
                with b.lock_read():
                    return f()

            got = run(locked)
            site = "iter_merge_sorted_revisions" + ("" if kind == "ims" else (":start" if kind == "ims_from" else ":" + q[3]))
            if got[0] != "ok":
                fail("dotted", site, f"{show} failed: {got[1]}")
            ids = [r for r, d, v in got[1]]
            if sorted(ids) != sorted(want):
                fail("dotted", site, f"{show} listed {ids}; expected exactly {sorted(want, key=graphsim._natkey)} (extra={sorted(set(ids) - want)} missing={sorted(want - set(ids))} dup={len(ids) - len(set(ids))})")
            for r, d, v in got[1]:
                if M.get(r) != v:
                    fail("dotted", site, f"{show} numbers {r} as {v}; cold map says {M.get(r)}")
                if (d == 0) != (r in lh):
                    fail("dotted", site, f"{show} gives depth {d} to {r}; left-hand history is {lh}")
        elif kind == "lri":
            got = run(lambda: (b.last_revision_info()[0], dec(b.last_revision_info()[1])))
            if got != ("ok", (n, st.tip)):
                fail("revno", "last_revision_info", f"last_revision_info expected {(n, st.tip)} got {got}")
        elif kind == "spec":
            term, how = q[1], q[2]
            s = render(term, ctx)
            if s is None:
                return
            exp = ev(term, st, ctx)
            sim.event("spec", s, how)
            if how == "id":
                got = run(lambda: dec(revisionspec.RevisionSpec.from_string(s).as_revision_id(b)))
                judge("spec", head_of(term) + ":as_revision_id", exp, got, f"{s!r}.as_revision_id")
            else:
                def fn():
                    info = revisionspec.RevisionSpec.from_string(s).in_history(b)
                    return (dec(info.rev_id), info.revno)

                got = run(fn)
                got_id = ("ok", got[1][0]) if got[0] == "ok" else got
                if before_of_other_branch(term) and exp[0] == "rev" and got_id != ("ok", exp[1]) and got[0] != "crash":
                    # in_history mixes the two branches: number from the named branch, lookup in the context branch
                    deviation("spec_before_other_branch", "before:revno:N:BRANCH:in_history", f"{s!r}.in_history: expected {exp[1]} (left-hand parent of revision {term} of the other branch) got {got}")
                    return
                judge("spec", head_of(term) + ":in_history", exp, got_id, f"{s!r}.in_history")
                if got[0] == "ok" and exp[0] in ("rev", "null", "null_or_err") and term[0] != "revno_in":
                    rid = got[1][0]
                    if got[1][1] != want_revno(rid):
                        fail("spec", head_of(term) + ":in_history.revno", f"{s!r}.in_history -> revno {got[1][1]} for {rid}; left-hand history {lh}")
        elif kind == "range":
            sa, sb = render(q[1], ctx), render(q[2], ctx)
            if sa is None or sb is None:
                return
            ea, eb = ev(q[1], st, ctx), ev(q[2], st, ctx)
            text = f"{sa}..{sb}"
            sim.event("range", text)
            specs = option._parse_revision_str(text)
            if len(specs) != 2:
                fail("spec", "range:parse", f"{text!r} parsed into {specs}")
            if specs[0].get_branch() != specs[1].get_branch():
                return
            got = run(lambda: [(dec(i.rev_id), i.revno) for i in builtins._get_revision_range(specs, b, "log")])
            if got[0] == "crash" and got[1].startswith("ObjectNotLocked") and cur["mode"] in ("cold", "shared") and "mainline:" in text:
                deviation("spec_needs_caller_lock", "mainline", f"range {text!r} on an unlocked branch: {got[1]}")
                return
            if got[0] != "ok":
                if got[0] == "refused" and (before_of_other_branch(q[1]) or before_of_other_branch(q[2])) and ea[0] == "rev" and eb[0] == "rev":
                    deviation("spec_before_other_branch", "before:revno:N:BRANCH:in_history", f"range {text!r} refused: {got[1]}; expected {ea}..{eb}")
                    return
                if ea[0] in ("rev", "null") and eb[0] in ("rev", "null"):
                    fail("spec", "range", f"range {text!r} failed: {got[1]}; expected {ea}..{eb}")
                return
            for e, (rid, rn), s, t in ((ea, got[1][0], sa, q[1]), (eb, got[1][1], sb, q[2])):
                if before_of_other_branch(t) and e[0] == "rev" and rid != e[1]:
                    deviation("spec_before_other_branch", "before:revno:N:BRANCH:in_history", f"endpoint {s!r} of range {text!r}: expected {e[1]} got {rid}")
                    continue
                judge("spec", "range", e, ("ok", rid), f"endpoint {s!r} of range {text!r}")
        else:
            raise ValueError(q)
        cur["asked"] += 1
        cur["hist"].append(q[0] if q[0] not in ("spec", "range") else (render(q[1], ctx) or "?"))

    def do_move(op):
        kind = op[0]
        b = cur["obj"] if cur["mode"] in ("shared", "wlock") else storesim.open_branch(url_main)
        sim.event("move", kind, str(op[1])[:40] if kind != "extend" else [s["id"] for s in op[1]])
        old_map = None
        if kind == "extend":
            specs = [s for s in op[1]]
            if not specs or specs[0]["parents"][:1] != [st.tip] or any(p not in mh.revs and not p.startswith("ghost-") for s in specs for p in s["parents"][1:]):
                return False
            old_map = dict(ctx["M"])
            bb = branchbuilder.BranchBuilder(branch=b)
            storesim.commit_specs(b, specs, builder=bb)
            for s in specs:
                mh.add(s)
            st.tip = specs[-1]["id"]
            st.refresh()
        elif kind in ("settip", "genhist"):
            rid = op[1]
            if rid not in mh.revs:
                return False
            if kind == "settip":
                b.set_last_revision_info(st.gm.revno(rid), rid.encode())
            else:
                b.generate_revision_history(rid.encode())
            st.tip = rid
        elif kind == "tag":
            if op[2] not in mh.revs:
                return False
            b.tags.set_tag(op[1], op[2].encode())
            st.tags[op[1]] = op[2]
        elif kind == "untag":
            if op[1] not in st.tags:
                return False
            b.tags.delete_tag(op[1])
            st.tags.pop(op[1])
        if kind not in ("tag", "untag"):
            reference(kind, old_map)
        cur["moved"] = True
        cur["hist"].append("MOVE:" + kind)
        sim.probe("move_" + kind)
        return True

    try:
        for op in plan["ops"]:
            if op[0] == "open":
                close()
                mode = op[1]
                cur["mode"] = mode
                if mode != "cold":
                    cur["obj"] = storesim.open_branch(url_main)
                    if mode == "rlock":
                        cur["obj"].lock_read()
                    elif mode == "wlock":
                        cur["obj"].lock_write()
                sim.event("open", mode)
            elif op[0] == "q":
                warmq = cur["mode"] in ("rlock", "wlock") and cur["asked"] > 0
                do_query(op[1:])
                sim.probe("q_" + phase())
                if warmq and any(len(v) == 3 for v in ctx["M"].values()):
                    sim.nontrivial = True
            else:
                if cur["mode"] == "rlock":
                    continue
                do_move(op)
    finally:
        try:
            close()
        except Exception:  # noqa: BLE001
            if sim.violation is None:
                raise
    sim.state_seen((fmt, len(st.lh), len(st.anc), has_merged))


# ------------------------------------------------------------------------------------
# shrinking


def shrink_candidates(plan):
    from simkit.shrink import generic_candidates

    yield from generic_candidates(plan)
    for p in graphsim.dag_shrinks(plan, tips=("main", "other")):
        yield p
    if plan.get("tags"):
        for name in sorted(plan["tags"]):
            p = copy.deepcopy(plan)
            p["tags"].pop(name)
            yield p
