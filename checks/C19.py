"""C19 — Text conflicts are reported exactly when conflict markers are written.

One run = one small 2a working tree with 1-3 versioned files.  For every file a triple of
texts BASE / THIS / OTHER is drawn over a tiny alphabet (ordinary lines, lines that equal
the conflict markers breezy writes, missing final newlines, CRLF runs).  THIS and OTHER
live on two branches: BASE is committed, the branch is sprouted, OTHER is committed on the
sibling, THIS is committed or left uncommitted in the tree.  The merge is the library form of
`brz merge`: Merger.from_revision_ids(tree, other_rev, [base_rev], other_branch=...) with
merge_type=Merge3Merger and seeded reprocess / show_base; cherrypick is reached the way the
code reaches it (an explicit base revision that is not an ancestor of THIS and/or OTHER).

Oracle: the `merge3` package, called with the names and markers breezy passes, is the
reference.  After the merge and a reopen of the tree: a TextConflict is recorded for a file
<=> the reference has a 'conflict' region; then the file equals the reference's marker
rendering and name.BASE / name.THIS / name.OTHER hold exactly the three texts; otherwise
the file equals the reference's clean merge and there are no helper files.  Then
`breezy.conflicts.resolve(tree, paths, action=take_this|take_other)`: every selected file
holds exactly the THIS / OTHER text (on disk and through the tree), its helpers and its
conflict record are gone, the other records and files are untouched."""

import contextlib
import hashlib
import io
import json
import os

from . import mergesim as M
from . import treesim as T

PROPERTY = "C19"
LEVEL = "exploration"
RULE = (
    "one case = one file's (BASE, THIS, OTHER) text triple merged into a working tree under one setting of (reprocess, show_base, "
    "how the base is chosen: found | explicit ancestor | cherrypick | reverse cherrypick | a revision older than the file (no BASE text, no .BASE helper), THIS committed or not, resolve action + "
    "selection); a run evaluates 1-3 files; non-trivial run = at least one file whose three texts are pairwise different (a real "
    "text merge ran); distinct = distinct event-log digests of such runs"
)
COMPONENTS = {
    "real": [
        "breezy.merge.Merger (find_base, set_base_revision, make_merger) and Merge3Merger (_entries3, _do_merge_contents, text_merge, _dump_conflicts, cook_conflicts)",
        "breezy.bzr.transform.InventoryTreeTransform (create_file, apply) on a 2a/dirstate working tree in a real /dev/shm directory",
        "breezy.bzr.conflicts (TextConflict, stanza persistence) and breezy.conflicts.resolve; conflicts file written through the storage seam (sim+file://)",
        "two 2a branches with their own repositories (ControlDir.sprout), fetch during merge",
        "merge3 + patiencediff as used by breezy; the same packages, called directly, are the reference",
    ],
    "simulated": ["the user's edits (seeded texts written to disk, replaced atomically)", "process restart before conflicts are read (WorkingTree.open)"],
    "stub": ["UI (SilentUIFactory)", "user identity / BRZ_HOME (scratch)"],
}
ASSUMPTIONS = [
    "the reference is merge3.Merge3(base, this, other, is_cherrypick=..., sequence_matcher=PatienceSequenceMatcher) rendered with name_a=TREE, name_b=MERGE-SOURCE, name_base=BASE-REVISION, base_marker='|||||||' iff show_base, reprocess as given: breezy is checked against its dependency, the dependency itself is not judged (e.g. a marker glued to a line without final newline is the reference's rendering too)",
    "guard sentinel_line (reported defect): user lines do not start with breezy's private sentinel '!START OF MERGE CONFLICT!I HOPE THIS IS UNIQUE' (text_merge takes such a line for a conflict start and rewrites it); the guard is lifted in 15% of the runs once known_findings.json has an open entry [C19, known-defect, sentinel_line] (and always with VERIF_C19_SENTINEL=1): such lines then join the alphabet and any failure of a run whose texts contain one carries that signature",
    "texts never contain NUL (binary files take the contents-conflict path, not the text merge)",
    "reprocess together with show_base is refused by the code (CantReprocessAndShowBase from inside the merge): the oracle then only requires that the tree is left exactly as it was (texts, no helpers, no conflict records); when no file needs a text merge the combination is accepted and judged like any other run",
    "only Merge3Merger: WeaveMerger / LCAMerger do not take base/this/other texts (their reference would be the weave plan) and are exercised by C17",
    "mode nobase (merge -r 1..-1 of files added in r2): the reference merges against an empty BASE and no .BASE helper is expected; before resolve the user may have deleted helper files (never the one the action renames into place): afterwards still no helper and no record may be left",
    "fault mode (20% of the runs): one file-system call of the merge's TreeTransform.apply() raises OSError (simkit.osseam, armed at the start of apply by xformsim.ApplyWatch); afterwards only 'a recorded text conflict is backed by the marker text and all helper files' is asserted - what a failed apply leaves on disk is C13's property",
    "resolve is called with action take_this / take_other only (what the property names); 'done' and 'auto' are not judged",
    "runs execute in-process (ISOLATION=thread): each run builds both branches, trees and the Sim from scratch",
]
STEP_CAP = 400000
ISOLATION = "thread"

SENTINEL = os.environ.get("VERIF_C19_SENTINEL") == "1"
GUARDS = ("sentinel_line",)
P_UNGUARDED = float(os.environ.get("VERIF_UNGUARDED", "0") or 0)
P_LIFT = 0.15
ORD = ["a", "b", "c", "d", "e"]
MARK = ["<<<<<<< TREE", "=======", ">>>>>>> MERGE-SOURCE", "||||||| BASE-REVISION", "<<<<<<<", ">>>>>>>", "<<<<<<< MERGE-SOURCE"]
SENT = ["!START OF MERGE CONFLICT!I HOPE THIS IS UNIQUE TREE", "!START OF MERGE CONFLICT!I HOPE THIS IS UNIQUE"]
NAMES = ["f", "g", "h h", "fü"]
MODES = ["found", "found", "found", "explicit", "cherrypick", "cherrypick", "reverse", "nobase", "nobase"]


def warm():
    from . import xformsim

    xformsim.install()  # os seam of the transform modules + apply hook (idempotent; inert unless a run activates it)
    if not M.base_warm():
        return
    plans = [
        {"dir": "d", "mode": "found", "reprocess": False, "show_base": True, "commit_this": True, "files": [{"name": "f", "base": "a\nb\nc\n", "this": "a\nX\nc\n", "other": "a\nY\nc\n"}, {"name": "g", "base": "a\n", "this": "a\n", "other": "b\n"}], "resolve": {"action": "take_this", "paths": ["f"]}},
        {"dir": "", "mode": "cherrypick", "reprocess": True, "show_base": False, "commit_this": False, "files": [{"name": "f", "orig": "a\n", "base": "a\nb\n", "this": "a\nq", "other": "a\nb\nc\n"}], "resolve": {"action": "take_other", "paths": None}},
        {"dir": "", "mode": "reverse", "reprocess": True, "show_base": True, "commit_this": False, "files": [{"name": "f", "orig": "a\n", "base": "a\nb\n", "this": "a\nq", "other": "a\nb\nc\n"}], "resolve": None},
    ]
    M.dry_runs(execute, plans)


def config(tier):
    if tier == "thorough":
        return {"budget_s": 700, "run_timeout": 180, "selftest": 48, "workers": 8}
    return {"budget_s": 50, "run_timeout": 180, "selftest": 24, "workers": 8}


# -- generation ----------------------------------------------------------------------------------


_gen = {"sentinel": False}  # set by generate() for the plan being generated


def _line(rng, pmark):
    x = rng.random()
    if _gen["sentinel"] and x < 0.08:
        return rng.choice(SENT)
    if x < pmark:
        return rng.choice(MARK)
    return rng.choice(ORD)


def _mutate(rng, lines, pmark):
    lines = list(lines)
    for _ in range(rng.choice([0, 1, 1, 1, 2, 2, 3])):
        k = rng.choice(["replace", "insert", "delete", "append", "dup"])
        if k == "replace" and lines:
            lines[rng.randrange(len(lines))] = _line(rng, pmark)
        elif k == "insert":
            lines.insert(rng.randint(0, len(lines)), _line(rng, pmark))
        elif k == "delete" and lines:
            del lines[rng.randrange(len(lines))]
        elif k == "append":
            lines.append(_line(rng, pmark))
        elif k == "dup" and lines:
            i = rng.randrange(len(lines))
            lines.insert(i, lines[i])
    return lines


def _render(rng, lines, eol, pcut):
    if not lines:
        return ""
    out = []
    for ln in lines:
        e = eol if eol != "mixed" else rng.choice(["\n", "\r\n"])
        out.append(ln + e)
    s = "".join(out)
    if rng.random() < pcut:
        s = s[: -2 if s.endswith("\r\n") else -1]
    return s


def gen_triple(rng, name, mode):
    pmark = rng.choice([0.0, 0.1, 0.3, 0.5])
    eol = rng.choice(["\n"] * 8 + ["\r\n", "mixed"])
    pcut = rng.choice([0.0, 0.2, 0.5])
    n = rng.choice([0, 1, 2, 3, 3, 4, 5, 6])
    base = [_line(rng, pmark) for _ in range(n)]
    if rng.random() < 0.1:
        this = [_line(rng, pmark) for _ in range(rng.randint(0, 4))]
    else:
        this = _mutate(rng, base, pmark)
    x = rng.random()
    if x < 0.1:
        other = [_line(rng, pmark) for _ in range(rng.randint(0, 4))]
    elif x < 0.2:
        other = _mutate(rng, this, pmark)
    else:
        other = _mutate(rng, base, pmark)
    f = {"name": name, "base": _render(rng, base, eol, pcut), "this": _render(rng, this, eol, pcut), "other": _render(rng, other, eol, pcut)}
    if mode in ("cherrypick", "reverse", "nobase"):
        f["orig"] = _render(rng, _mutate(rng, rng.choice([base, this]), pmark), eol, pcut)
    return f


def generate(rng, tier):
    # guard sentinel_line (reported defect): lifted in a share of the runs once known_findings.json
    # has the open entry [C19, known-defect, sentinel_line]; always with VERIF_C19_SENTINEL=1
    x = rng.random()
    _gen["sentinel"] = bool(SENTINEL or x < P_UNGUARDED or (x < P_LIFT and M.lifted_guards(PROPERTY, GUARDS)))
    try:
        return _generate(rng)
    finally:
        _gen["sentinel"] = False


def _generate(rng):
    mode = rng.choice(MODES)
    nfiles = rng.choice([1, 1, 2, 3])
    names = rng.sample(NAMES, nfiles)
    files = [gen_triple(rng, n, mode) for n in sorted(names)]
    x = rng.random()
    reprocess, show_base = (True, True) if x < 0.04 else (True, False) if x < 0.36 else (False, True) if x < 0.68 else (False, False)
    res = None
    if rng.random() < 0.8:
        paths = None if rng.random() < 0.4 else sorted(rng.sample(names, rng.randint(1, len(names))))
        res = {"action": rng.choice(["take_this", "take_other"]), "paths": paths}
        if rng.random() < 0.3:
            res["rm_helpers"] = sorted(rng.sample([".BASE", ".THIS", ".OTHER"], rng.randint(1, 2)))
    plan = {"dir": rng.choice(["", "", "d"]), "mode": mode, "reprocess": reprocess, "show_base": show_base, "commit_this": rng.random() < 0.5, "files": files, "resolve": res}
    if rng.random() < 0.2:
        # one file-system call of the merge's apply() fails
        plan["fault"] = {"at": rng.randint(1, 12), "errno": rng.choice(["EACCES", "ENOSPC", "EIO"])}
    return plan


def shrink_candidates(plan):
    import copy

    files = plan["files"]
    if len(files) > 1:
        for i in range(len(files)):
            p = copy.deepcopy(plan)
            del p["files"][i]
            if p.get("resolve") and p["resolve"]["paths"] is not None:
                keep = {f["name"] for f in p["files"]}
                p["resolve"]["paths"] = [x for x in p["resolve"]["paths"] if x in keep] or None
            yield p
    for key, val in (("resolve", None), ("reprocess", False), ("show_base", False), ("commit_this", False), ("dir", "")):
        if plan.get(key) != val:
            p = copy.deepcopy(plan)
            p[key] = val
            yield p
    if plan["mode"] != "found":
        p = copy.deepcopy(plan)
        p["mode"] = "found"
        yield p
    if plan.get("resolve") and plan["resolve"].get("rm_helpers"):
        for i in range(len(plan["resolve"]["rm_helpers"])):
            p = copy.deepcopy(plan)
            del p["resolve"]["rm_helpers"][i]
            yield p
    for i, f in enumerate(files):
        for key in ("base", "this", "other", "orig"):
            lines = f.get(key, "").splitlines(True)
            for j in range(len(lines)):
                p = copy.deepcopy(plan)
                p["files"][i][key] = "".join(lines[:j] + lines[j + 1 :])
                yield p
        if f["name"] != "f" and all(g["name"] != "f" for g in files):
            p = copy.deepcopy(plan)
            p["files"][i]["name"] = "f"
            if p.get("resolve") and p["resolve"]["paths"] is not None:
                p["resolve"]["paths"] = ["f" if x == f["name"] else x for x in p["resolve"]["paths"]]
            yield p


# -- execution -------------------------------------------------------------------------------------


def _h(*parts):
    return hashlib.sha1(repr(parts).encode("utf-8", "replace")).hexdigest()[:12]


def _put(root, rel, data):
    """Replace a file the way an editor does (new inode: never mistaken for the old file
    by a stat cache, whatever the lengths)."""
    full = os.path.join(root, rel)
    tmp = full + ".sim-tmp"
    with open(tmp, "wb") as f:
        f.write(data)
    os.replace(tmp, full)


def _short(b, n=160):
    return repr(b if len(b) <= n else b[:n] + b"...")


def execute(sim, plan):
    warm()
    M.begin(sim)
    from breezy import conflicts as _mod_conflicts
    from breezy import errors
    from breezy.merge import CantReprocessAndShowBase

    d = plan.get("dir", "")
    mode = plan["mode"]
    files = plan["files"]
    rel = {f["name"]: (d + "/" + f["name"] if d else f["name"]) for f in files}
    enc = {f["name"]: {k: f.get(k, "").encode("utf-8") for k in ("base", "this", "other", "orig")} for f in files}
    fid = {f["name"]: ("id-%d" % i).encode() for i, f in enumerate(files)}

    sentinel = any(b"!START OF MERGE CONFLICT!I HOPE THIS IS UNIQUE" in v for e_ in enc.values() for v in e_.values())

    def fail(tag, rest, detail):
        if sentinel:
            # the reported weakness of the marker detection (see ASSUMPTIONS)
            sim.fail(tag, ["C19", "known-defect", "sentinel_line"], "[%s, user text contains breezy's private start marker] %s\nplan: %s" % (tag, detail, json.dumps(plan, sort_keys=True)))
        sim.fail(tag, ["C19", tag] + list(rest), detail + "\nplan: " + json.dumps(plan, sort_keys=True))

    # -- history: r0 on both sides, OTHER (and the merge base of cherrypicks) on the sibling
    tree = T.make_tree(sim, "bzr", "t")
    root = tree._sim_root
    if d:
        tree.mkdir(d, b"dir-id")
    first = "orig" if mode in ("cherrypick", "reverse", "nobase") else "base"
    if mode == "nobase":
        # the files are born after the revision that serves as merge base (merge -r 1..-1):
        # same file id in THIS and OTHER, no BASE text, no .BASE helper
        _put(root, "zz", b"placeholder\n")
        tree.add(["zz"], ids=[b"zz-id"])
        M.commit(tree, "r0", 0)
        for f in files:
            enc[f["name"]]["base"] = b""
    for f in files:
        _put(root, rel[f["name"]], enc[f["name"]][first])
    tree.add([rel[f["name"]] for f in files], ids=[fid[f["name"]] for f in files])
    M.commit(tree, "r1" if mode == "nobase" else "r0", 0)
    other = M.sprout(tree, "o")
    oroot = other._sim_root
    steps = {"found": ["other"], "explicit": ["other"], "nobase": ["other"], "cherrypick": ["base", "other"], "reverse": ["other", "base"]}[mode]
    for n, key in enumerate(steps):
        for f in files:
            _put(oroot, rel[f["name"]], enc[f["name"]][key])
        M.commit(other, "mid" if key == "base" else "other", 1 + n)
    base_rev = {"found": None, "explicit": b"r0", "nobase": b"r0", "cherrypick": b"mid", "reverse": b"mid"}[mode]
    cherry = mode in ("cherrypick", "reverse")
    for f in files:
        _put(root, rel[f["name"]], enc[f["name"]]["this"])
    if plan["commit_this"]:
        M.commit(tree, "this", 5)
    tree = T.reopen(tree)
    before = T.disk_snapshot(root, "bzr")

    # -- reference
    reprocess, show_base = bool(plan["reprocess"]), bool(plan["show_base"])
    both = reprocess and show_base
    ref = {}
    need_merge = False
    real = False
    for f in files:
        e = enc[f["name"]]
        if mode == "nobase":
            need_merge = need_merge or e["this"] != e["other"]
        elif e["base"] != e["other"] and e["this"] != e["base"] and e["this"] != e["other"]:
            need_merge = True
        if both:
            continue
        text, conflict = M.ref_merge3(e["base"], e["this"], e["other"], cherrypick=cherry, reprocess=reprocess, show_base=show_base)
        ref[f["name"]] = (text, conflict)
    real = need_merge

    # -- the merge
    info = {}
    raised = None
    watch = None
    failed_apply = None
    if plan.get("fault") and not both:
        from simkit import osseam

        from . import xformsim

        osseam.activate(sim, {"": root})
        watch = xformsim.ApplyWatch(sim, fault_at=plan["fault"]["at"], errno_name=plan["fault"]["errno"])
    try:
        M.do_merge(tree, b"other", other.branch, "merge3", base_rev=base_rev, reprocess=reprocess, show_base=show_base, info=info)
    except CantReprocessAndShowBase as e:
        raised = e
    except errors.BzrError as e:
        if watch is not None and sim.faults_fired:
            failed_apply = e
        else:
            fail("merge_raised", [mode, type(e).__name__], "merge raised %r" % (e,))
    except OSError as e:
        if watch is None or not sim.faults_fired:
            raise
        failed_apply = e
    finally:
        if watch is not None:
            from simkit import osseam

            watch.close()
            osseam.deactivate(sim)
            sim.disarm()
    if watch is not None and sim.faults_fired:
        # a file-system call of apply() failed.  What the rollback leaves on disk is C13's
        # property; here: whatever conflict record exists must be backed by markers + helpers
        sim.probe("apply_fault_fired")
        sim.event("merge", mode, "apply-fault", plan["fault"]["at"], type(failed_apply).__name__ if failed_apply else "swallowed")
        tree = T.reopen(tree)
        disk = T.disk_snapshot(root, "bzr")
        for r in M.conflict_tuples(tree):
            names = [f["name"] for f in files if rel[f["name"]] == r[1]]
            ok = False
            if r[0] == "text conflict" and names:
                e = enc[names[0]]
                text, conflict = M.ref_merge3(e["base"], e["this"], e["other"], cherrypick=cherry, reprocess=reprocess, show_base=show_base)
                want = {"": text, ".THIS": e["this"], ".OTHER": e["other"]}
                if mode != "nobase":
                    want[".BASE"] = e["base"]
                ok = conflict and all(disk.get(r[1] + sfx) == (T.FILE, data, False) for sfx, data in want.items())
            if not ok:
                fail("record_without_markers", ["apply_fault"], "apply() failed at file-system call %d (%s): the tree has the record %r but %r does not hold the conflict text with its helpers (files: %r)" % (plan["fault"]["at"], plan["fault"]["errno"], r, r[1], sorted(disk)))
        sim.nontrivial = bool(need_merge)
        return
    if info.get("cherrypick") is not None and bool(info["cherrypick"]) != cherry:
        raise AssertionError("harness: cherrypick flag %r in mode %s" % (info, mode))
    sim.event("merge", mode, reprocess, show_base, plan["commit_this"], "raised" if raised else "ok")
    tree = T.reopen(tree)
    after = T.disk_snapshot(root, "bzr")
    recs = M.conflict_tuples(tree)
    if both:
        if raised is None:
            if need_merge:
                sim.probe("both_options_accepted")
                return
            # nothing needed a text merge: an ordinary run
            for f in files:
                e = enc[f["name"]]
                ref[f["name"]] = (e["other"] if e["this"] == e["base"] else e["this"], False)
        else:
            if not need_merge:
                fail("refused_without_text_merge", [mode], "CantReprocessAndShowBase although no file needed a text merge")
            if after != before or recs:
                fail("refused_merge_changed_tree", [mode], "the refused merge left the tree changed: %s; conflicts %r" % (_diff(before, after), recs))
            sim.probe("refused_both_options")
            sim.nontrivial = False
            return
    elif raised is not None:
        fail("merge_raised", [mode, "CantReprocessAndShowBase"], "CantReprocessAndShowBase with reprocess=%s show_base=%s" % (reprocess, show_base))

    # -- oracle 1: conflict recorded <=> reference conflict; contents; helpers
    expected = {}
    if d:
        expected[d] = (T.DIR, None, False)
    if mode == "nobase":
        expected["zz"] = (T.FILE, b"placeholder\n", False)
    want_recs = []
    for f in files:
        n = f["name"]
        e = enc[n]
        text, conflict = ref[n]
        expected[rel[n]] = (T.FILE, text, False)
        if conflict:
            want_recs.append(("text conflict", rel[n], None, fid[n], None, None))
            if mode != "nobase":
                expected[rel[n] + ".BASE"] = (T.FILE, e["base"], False)
            expected[rel[n] + ".THIS"] = (T.FILE, e["this"], False)
            expected[rel[n] + ".OTHER"] = (T.FILE, e["other"], False)
        sim.event("file", n, _h(e["base"], e["this"], e["other"]), "conflict" if conflict else "clean")
        sim.probe("ref_conflict" if conflict else "ref_clean")
        sim.state_seen((mode, reprocess, show_base, conflict, e["base"], e["this"], e["other"]))
    opts = [mode, "reprocess" if reprocess else "show_base" if show_base else "plain"]
    got_paths = sorted(r[1] for r in recs if r[0] == "text conflict")
    want_paths = sorted(r[1] for r in want_recs)
    if got_paths != want_paths:
        extra = sorted(set(got_paths) - set(want_paths))
        tag = "conflict_without_reference_conflict" if extra else "reference_conflict_not_recorded"
        fail(tag, opts, "text conflicts recorded for %r, the reference (merge3) has conflict regions in %r" % (got_paths, want_paths))
    if sorted(recs) != sorted(want_recs):
        fail("conflict_records", opts, "records %r, expected %r" % (recs, want_recs))
    for p in sorted(set(expected) | set(after)):
        if expected.get(p) == after.get(p):
            continue
        kind = "helper" if p.endswith((".BASE", ".THIS", ".OTHER")) else "content"
        if p not in after:
            fail(kind + "_missing", opts, "%r is missing after the merge; expected %s" % (p, _short(expected[p][1] or b"")))
        if p not in expected:
            fail(kind + "_unexpected", opts, "%r exists after the merge (%s); the reference has %s" % (p, _short(after[p][1] or b""), "no conflict" if kind == "helper" else "no such file"))
        fail(kind + "_differs", opts, "%r holds %s, expected %s" % (p, _short(after[p][1] or b""), _short(expected[p][1] or b"")))
    with tree.lock_read():
        for f in files:
            n = f["name"]
            if tree.path2id(rel[n]) != fid[n] or tree.get_file_text(rel[n]) != ref[n][0]:
                fail("tree_view", opts, "%r through the tree: id %r text %s" % (rel[n], tree.path2id(rel[n]), _short(tree.get_file_text(rel[n]))))
    sim.nontrivial = bool(real)
    sim.notes["evaluations"] = len(files)

    # -- oracle 2: resolve
    res = plan.get("resolve")
    if not res:
        return
    action = res["action"]
    sel = None if res["paths"] is None else [rel[p] for p in res["paths"] if p in rel]
    if sel is not None and not sel:
        return
    key = "this" if action == "take_this" else "other"
    # the user may have thrown helper files away already (never the one the action needs)
    for suffix in res.get("rm_helpers") or ():
        if suffix != "." + key.upper():
            for f in files:
                q = rel[f["name"]] + suffix
                if q in expected and (sel is None or rel[f["name"]] in sel):
                    os.unlink(os.path.join(root, q))
                    del expected[q]
                    sim.probe("helper_removed_by_user")
    try:
        with contextlib.redirect_stdout(io.StringIO()):
            _mod_conflicts.resolve(tree, sel, action=action)
    except Exception as e:  # noqa: BLE001 - resolve of recorded text conflicts must work
        import traceback

        tb = "".join(traceback.format_exception(type(e), e, e.__traceback__)[-5:])
        fail("resolve_raised", [action, type(e).__name__], "resolve(%r, action=%s) raised %r\n%s" % (sel, action, e, tb))
    tree = T.reopen(tree)
    for f in files:
        n = f["name"]
        if ref[n][1] and (sel is None or rel[n] in sel):
            expected[rel[n]] = (T.FILE, enc[n][key], False)
            for suffix in (".BASE", ".THIS", ".OTHER"):
                expected.pop(rel[n] + suffix, None)
            want_recs = [r for r in want_recs if r[1] != rel[n]]
            sim.probe("resolved_" + action)
    final = T.disk_snapshot(root, "bzr")
    recs = M.conflict_tuples(tree)
    sim.event("resolve", action, json.dumps(sel), len(recs))
    if sorted(recs) != sorted(want_recs):
        fail("resolve_records", [action], "after resolve(%r, %s): records %r, expected %r" % (sel, action, recs, want_recs))
    for p in sorted(set(expected) | set(final)):
        if expected.get(p) == final.get(p):
            continue
        kind = "helper" if p.endswith((".BASE", ".THIS", ".OTHER")) else "content"
        fail("resolve_" + kind, [action], "after resolve(%r, %s): %r is %s, expected %s" % (sel, action, p, _short((final.get(p) or (0, b"<missing>"))[1] or b""), _short((expected.get(p) or (0, b"<absent>"))[1] or b"")))
    with tree.lock_read():
        for f in files:
            n = f["name"]
            want = expected[rel[n]][1]
            if tree.path2id(rel[n]) != fid[n] or tree.get_file_text(rel[n]) != want:
                fail("resolve_tree_view", [action], "%r through the tree after resolve: id %r text %s, expected %s" % (rel[n], tree.path2id(rel[n]), _short(tree.get_file_text(rel[n])), _short(want)))


def _diff(a, b):
    out = []
    for p in sorted(set(a) | set(b)):
        if a.get(p) != b.get(p):
            out.append("%r: %r -> %r" % (p, a.get(p), b.get(p)))
    return "; ".join(out[:6])
