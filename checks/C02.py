"""C02 — Per-file history and last-changed revisions are recorded correctly.

One run = one generated DAG history (1-4 branches; commits, merges with per-file
decisions, octopus merges with 3-4 parents, criss-cross merges, revert-one-file-after-merge, identical parallel changes,
cherry-picks, kind changes, renames/moves, exec-bit changes, resurrected file ids, ghost
right-hand parents) committed through real working trees (lightweight checkouts on local
scratch disk of branches on simulated stores) into one shared repository or into one
repository per branch joined by fetch, with re-opens and pack() in between.  Afterwards
every stored revision is compared, file by file, with the model of the property:
last-changed revision, per-file parents, repository check."""

from simkit import world
from simkit.sim import HarnessTruncated, SimCrash, Violation

from . import storesim
from .storesim import DagGen, replay_dag

PROPERTY = "C02"
LEVEL = "exploration"
RULE = (
    "one case = one seeded history (format 2a | pack-0.92 | rich-root-pack, layout shared repository | one repository "
    "per branch joined by fetch, 6-30 revisions over 1-4 branches, re-open and pack() steps); non-trivial = the history "
    "contains a merge revision in which some file has two or more distinct candidate versions among the parents (the "
    "heads rule decides: carry-over from a non-first parent, revert after merge, identical parallel change, criss-cross, "
    "octopus merges whose right-hand parents share a version / are ancestors of each other / equal the basis); "
    "distinct = distinct event-log digests (store operation traces) of such runs"
)
COMPONENTS = {
    "real": [
        "breezy.commit.Commit on WorkingTree4/6 (dirstate iter_changes, Rust)",
        "Branch.get_commit_builder + record_iter_changes called directly with an explicit parent list for some octopus merges (a working tree drops right-hand parents that are not heads, so redundant parent lists can only be recorded this way)",
        "VersionedFileCommitBuilder.record_iter_changes, PackCommitBuilder._heads (per-file graph heads)",
        "pack repositories 2a / pack-0.92 / rich-root-pack: texts, inventories, CHK maps, pack()",
        "Repository.fetch between the per-branch repositories",
        "RevisionTree.get_file_revision, texts.get_parent_map, Repository.check() (_VersionedFileChecker)",
    ],
    "simulated": ["disk of repositories and branches (SimTransport over the memory transport)", "process re-open (fresh objects)", "clock of breezy.lockdir"],
    "stub": ["UI", "working-tree files live on local scratch disk (no seam); merged trees are computed by the model (per-file decisions), not by breezy's Merger"],
}
ASSUMPTIONS = [
    "per-file heads are heads in the per-file graph (what pack repositories use); knit repositories, which use the revision graph instead, are not covered",
    "the root directory of non-rich-root formats (pack-0.92) has no per-file history and is excluded from the last-changed oracle",
    "'parent directory' means the parent directory's file id: renaming a directory does not create new versions of its children",
    "ghost parents contribute no candidate versions",
    "merged trees come from seeded per-file decisions (keep this / take other / mix / new text / add / delete) rather than a merge algorithm: what is judged is the rule relating a revision's entries to its parents' entries",
]
FORMATS = ["2a", "2a", "pack-0.92", "pack-0.92", "rich-root-pack"]


def warm():
    storesim.warm_dag(("2a", "pack-0.92", "rich-root-pack"))


def config(tier):
    if tier == "thorough":
        return {"budget_s": 700, "run_timeout": 180, "selftest": 12}
    return {"budget_s": 50, "run_timeout": 180, "selftest": 6}


def generate(rng, tier):
    fmt = rng.choice(FORMATS)
    layout = rng.choice(["shared", "shared", "separate"])
    g = DagGen(rng, ghosts=rng.choice([0.0, 0.0, 0.1]), octopus=rng.choice([0.0, 0.1, 0.2]), twins=rng.choice([0.0, 0.1, 0.2]), dup_content=rng.choice([0.0, 0.15]))
    specs = g.run(rng.randint(6, 30), merge_p=rng.choice([0.25, 0.35, 0.5]))
    ops = []
    for s in specs:
        ops.append(["commit", s])
        r = rng.random()
        if r < 0.08:
            ops.append(["pack", s["branch"]])
        elif r < 0.2:
            ops.append(["reopen"])
    return {"fmt": fmt, "layout": layout, "ops": ops}


FIELDS = ["parent", "name", "kind", "content", "exec"]


def situation(mh, rid, fid):
    """Classify the (revision, file) case for signatures: number of per-file heads,
    merge or not, and which fields differ from the entry of the single head."""
    spec = mh.revs[rid]
    parents = [p for p in spec["parents"] if p in mh.revs]
    heads, carried = mh.file_rule(fid, spec["tree"][fid], parents)
    kind = "octopus" if len(parents) > 2 else "merge" if len(parents) > 1 else "linear"
    if len(heads) != 1:
        return f"{kind}:heads{min(len(heads), 3)}"
    h = heads[0]
    ent = None
    first = False
    for i, p in enumerate(parents):
        if fid in mh.revs[p]["tree"] and mh.ver[p][fid] == h:
            ent = mh.revs[p]["tree"][fid]
            first = first or i == 0
    diff = [n for n, a, b in zip(FIELDS, ent, spec["tree"][fid]) if a != b]
    return f"{kind}:head1-{'first' if first else 'other'}-parent:{'+'.join(diff) or 'same'}"


def execute(sim, plan):
    warm()
    sim.disarm()
    world.setup_sim(sim)
    fmt = plan["fmt"]
    url = world.new_store("repo")
    db = storesim.DagBuilder(url, fmt, plan["layout"])
    done = []
    tips = {}
    for op in plan["ops"]:
        if op[0] == "commit":
            spec = op[1]
            have = set(s["id"] for s in done)
            if not all(p in have or p in spec.get("ghosts", []) for p in spec["parents"]):
                continue  # shrunk away
            if spec["branch"] in db.wts and (not spec["parents"] or spec["parents"][0] != tips.get(spec["branch"])):
                continue  # shrunk: the branch tip is not this revision's first parent
            # an exception escaping the commit (pyo3 PanicException included) is reported by the
            # builder as a violation: oracle op_failed, signature [op_failed, fmt, commit, Class:frame]
            db.commit(spec)
            done.append(spec)
            tips[spec["branch"]] = spec["id"]
            sim.event("committed", spec["id"], ",".join(spec["parents"]))
        elif op[0] == "pack":
            if op[1] in db.wts:
                repo = storesim.open_branch(db.branch_url(op[1])).repository
                try:
                    with repo.lock_write():
                        repo.pack()
                except (SimCrash, Violation, HarnessTruncated, KeyboardInterrupt, SystemExit, MemoryError):
                    raise
                except BaseException as e:  # noqa: B036
                    storesim.report_op_failure(sim, "pack", fmt, e, f"pack() of the repository of branch {op[1]}")
                sim.probe("pack")
        elif op[0] == "reopen":
            db.forget()
            storesim.clear_caches()
            sim.probe("reopen")
    db.forget()
    storesim.clear_caches()
    mh = replay_dag(done)
    # -- coverage bookkeeping (from the model only)
    interesting = False
    tags = set()
    for spec in done:
        tags.update(spec["tags"])
        parents = [p for p in spec["parents"] if p in mh.revs]
        for fid in spec["tree"]:
            heads = mh.fpar.get((fid, spec["id"]))
            cands = {mh.ver[p][fid] for p in parents if fid in mh.revs[p]["tree"]}
            if len(parents) > 2:
                vers = [mh.ver[p][fid] if fid in mh.revs[p]["tree"] else None for p in parents]
                rh = [v for v in vers[1:] if v is not None]
                if any(rh.count(v) > 1 and v != vers[0] for v in rh):
                    sim.probe("octopus_two_right_parents_same_version_differing_from_basis")
                if vers[0] is not None and vers[0] in rh and len(cands) > 1:
                    sim.probe("octopus_right_parent_equal_to_basis_on_file")
            if len(parents) > 1 and len(cands) > 1:
                interesting = True
                if heads is None:
                    sim.probe("merge_carry_over_decided_by_heads")
                elif len(heads) >= 2:
                    sim.probe("merge_new_version_two_or_more_heads")
                else:
                    sim.probe("merge_new_version_single_head")
            if heads is not None and len(heads) == 0 and spec["parents"] and any(fid in s2["tree"] for s2 in done if s2["id"] in mh.ancestry(spec["id"]) and s2["id"] != spec["id"]):
                sim.probe("resurrected_file_id")
    for t in sorted(tags):
        sim.probe("tag_" + t)
    # -- oracle: every repository, every revision it holds
    for ru in db.repo_urls():
        repo = storesim.open_repo(ru)
        with repo.lock_read():
            have = {r.decode() for r in repo.all_revision_ids()}
            unknown = have - set(mh.revs)
            if unknown:
                sim.fail("revision_set", ["revision_set", fmt, "unknown-revisions"], f"repository {ru} lists revisions never committed: {sorted(unknown)}")
            if plan["layout"] == "shared" and have != set(mh.revs):
                sim.fail("revision_set", ["revision_set", fmt, "committed-revision-missing"], f"repository lacks committed revisions {sorted(set(mh.revs) - have)}")
            for kind, rid, fid, detail in storesim.dag_problems(repo, mh, [r for r in mh.order if r in have]):
                sit = situation(mh, rid, fid) if fid is not None and kind in ("last_changed", "text_parents", "text_missing") else "-"
                sim.fail(kind, [kind, fmt, sit], f"{rid} [{','.join(mh.revs[rid]['tags'])}]: {detail}")
        prob = storesim.check_clean(repo, unreferenced=True)
        if prob:
            what = "inconsistent-parents" if "inconsistent" in prob else "unreferenced-versions" if "unreferenced" in prob else "other"
            sim.fail("check", ["check", fmt, what], f"{ru}: {prob}")
        sim.probe("revisions_judged", len(have))
    sim.nontrivial = interesting
    sim.state_seen((fmt, plan["layout"], tuple(sorted(tags)), len(done)))
