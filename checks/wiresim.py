"""wiresim: the network world (C29, C30; later C03/C32 through `LoopbackMedium`).

Real: the smart protocol encoders/decoders (v1, v2, v3), message handlers, the client
medium request machinery (`SmartClientStreamMedium`, `_SmartClient`), the server media
(`SmartServerPipeStreamMedium`, `SmartServerSocketStreamMedium`) and their serve loops,
the request handler registry.  Simulated: the byte stream between them (`SimPipe`): how
written bytes are cut into delivered segments, how many bytes a `read(n)` returns, what
blocks, connection resets.  No threads, no sockets: the server runs synchronously inside
the client's first read of a response.

Loop-back server for other worlds (C03/C32):
    ww = wiresim.WireWorld(sim, get_transport(store_url), server="pipe"|"socket",
                           server_read="exact"|"atmost", client_read="atmost"|"exact"|"greedy",
                           strict=False, seg={"m": "hot", "ph": 0.6, "sh": True, "s": seed},
                           resets=[{"req": k, "kind": "send"|"eof_before"|"eof_after", "write": j}],
                           root_client_path=None | "/prefix/")
    t = wiresim.loopback_transport(ww)          # RemoteTransport("bzr://sim/") over LoopbackMedium
    b = ControlDir.open_from_transport(t.clone("br")).open_branch()   # RemoteBzrDir / RemoteBranch
    b = Branch.open(wiresim.loopback_url(ww, "br"))    # the same by URL: bzr+sim://<ww.name>/br (shared medium)
`resets` are consumed as the k-th request (0-based, counted over reconnections) is sent:
ConnectionResetError on its j-th write, or EOF on the first read of its response before
/ after the server executed it; the client's own retry logic then reconnects and gets
fresh pipes and a fresh server-side medium on the same backing transport.
`sim.faults_fired` counts reset_send / reset_eof_before / reset_eof_after; `ww.nreq`,
`ww.connections[i].c2s/.s2c` (SimPipe: msgs, rpos, in_flight()) are there for oracles.
Call `wiresim.warm()` (or `install()`) once per process first.  `install()` also replaces
the worker thread of the Repository.insert_stream* handlers by a deferred synchronous call
(`_DeferredThread`): same byte stream, no real concurrency, the inserting code runs in the
simulated client's thread at do_end().

Layers (each usable alone):
  SimPipe                 one direction of a connection; knows message boundaries
  WireWorld / Connection  two pipes + one real server-side medium on a backing transport
  LoopbackMedium          real `SmartClientStreamMedium` subclass over a WireWorld
  echo verbs + MWire      scripted request handlers and the model of what was sent
  gen_plan / run_plan     the C29/C30 workload (message grammar x segmentations)
"""

import bisect
import random
import struct
import sys

from simkit import world as simworld
from simkit.sim import HarnessTruncated, cur_sim, derive_seed

MAXCHUNK = 64 * 1024
V3_MARKER = b"bzr message 3 (bzr 1.6)\n"
V2_REQ = b"bzr request 2\n"
V2_RESP = b"bzr response 2\n"


# --------------------------------------------------------------------------- annotate
def sniff_version(direction, data):
    if direction == "body":
        return 2
    if data.startswith(V3_MARKER):
        return 3
    if data.startswith(V2_REQ if direction == "req" else V2_RESP):
        return 2
    return 1


def annotate(direction, data):
    """Independent reading of one encoded message -> dict(hot, interior, nl, ok).

    Offsets are cut positions relative to the message start (a cut at o means bytes
    [0, o) were delivered and byte o was not yet).  `interior`: cuts strictly inside a
    length prefix (between the 4 bytes of a v3 prefix; between the digits, or between the
    last digit and the terminating newline, of a v1/v2 length line).  `nl`: cuts directly
    before the newline that ends a length line.  `hot`: all structurally interesting
    cuts.  `ok` is False when the bytes do not follow the grammar this function knows
    (then only newline positions are reported)."""
    n = len(data)
    hot, interior, nlset = set(), set(), set()
    ok = True

    def line(p):
        q = data.find(b"\n", p)
        if q < 0:
            raise ValueError("no newline")
        hot.add(q)
        hot.add(q + 1)
        return q

    def length_line(p, base):
        q = line(p)
        val = int(bytes(data[p:q]), base)
        for o in range(p + 1, q + 1):
            interior.add(o)
        nlset.add(q)
        return q + 1, val

    try:
        v = sniff_version(direction, data)
        if v == 3:
            p = line(0) + 1

            def prefix(p):
                if p + 4 > n:
                    raise ValueError("short prefix")
                (ln,) = struct.unpack("!L", bytes(data[p : p + 4]))
                for o in (p + 1, p + 2, p + 3):
                    interior.add(o)
                    hot.add(o)
                hot.add(p + 4)
                if ln:
                    hot.add(p + 4 + ln - 1)
                hot.add(p + 4 + ln)
                return p + 4 + ln

            p = prefix(p)
            while p < n:
                k = data[p : p + 1]
                hot.add(p)
                hot.add(p + 1)
                if k in (b"s", b"b"):
                    p = prefix(p + 1)
                elif k == b"o":
                    p += 2
                    hot.add(p)
                elif k == b"e":
                    p += 1
                    break
                else:
                    raise ValueError("bad part kind")
            if p != n:
                raise ValueError("trailing bytes")
        else:
            p = 0
            if direction != "body":
                if v == 2:
                    p = line(p) + 1
                    if direction == "resp":
                        p = line(p) + 1
                p = line(p) + 1
            if p < n:
                if data.startswith(b"chunked\n", p):
                    p = line(p) + 1
                    while True:
                        q = data.find(b"\n", p)
                        if q < 0:
                            raise ValueError("no newline")
                        word = bytes(data[p:q])
                        if word == b"END":
                            line(p)
                            p = q + 1
                            break
                        if word == b"ERR":
                            line(p)
                            p = q + 1
                            continue
                        p, ln = length_line(p, 16)
                        if ln:
                            hot.add(p + ln - 1)
                        p += ln
                        hot.add(p)
                else:
                    p, ln = length_line(p, 10)
                    if ln:
                        hot.add(p + ln - 1)
                    p += ln
                    for o in range(p, p + 6):
                        hot.add(o)
                    if bytes(data[p : p + 5]) != b"done\n":
                        raise ValueError("no trailer")
                    p += 5
            if p != n:
                raise ValueError("trailing bytes")
    except (ValueError, struct.error):
        ok = False
        hot = set()
        interior, nlset = set(), set()
        p = 0
        while len(hot) < 64:
            q = data.find(b"\n", p)
            if q < 0:
                break
            hot.add(q)
            hot.add(q + 1)
            p = q + 1
    hot.add(n - 1)
    hot = sorted(o for o in hot if 0 < o < n)
    return {"hot": hot, "interior": interior, "nl": nlset, "ok": ok}


# ----------------------------------------------------------------------------- SimPipe
class _Msg:
    __slots__ = ("start", "end", "ann", "rng", "short", "splits", "reads", "direction", "version", "cats")


def seg_cuts(spec, n, ann):
    """Cut offsets (relative, 0 < o < n) and the stop-at-end flag for one message, a pure
    function of the plan's segmentation spec, the message length and its annotation."""
    mode = spec.get("m", "whole")
    rng = random.Random(spec.get("s", 0))
    cuts = set()
    if mode == "cuts":
        cuts.update(int(c) for c in spec.get("c", []))
    elif mode == "byte":
        if n <= 600:
            cuts.update(range(1, n))
        else:
            cuts.update(range(1, 81))
            cuts.update(range(n - 80, n))
            for h in ann["hot"]:
                cuts.update(range(max(1, h - 2), min(n, h + 3)))
    elif mode == "hot":
        ph = spec.get("ph", 0.5)
        for h in ann["hot"]:
            if rng.random() < ph:
                cuts.add(h)
        for _ in range(rng.randint(0, 3)):
            if n > 1:
                cuts.add(rng.randrange(1, n))
    elif mode == "rand":
        for _ in range(rng.randint(1, 8)):
            if n > 1:
                cuts.add(rng.randrange(1, n))
    return sorted(c for c in cuts if 0 < c < n), rng


class SimPipe:
    """One direction of a byte stream.  The writer appends bytes and marks message ends;
    the reader's `read(n, mode)` decides what a real pipe/socket would have delivered:

      mode 'exact'   blocking buffered read: exactly n bytes, or it blocks for ever when
                     fewer than n bytes are in flight (EOF: what is left)
      mode 'atmost'  read(2)/recv(2): between 1 and n bytes, never across a segment cut
      mode 'greedy'  recv(MAX_SOCKET_CHUNK) regardless of the size the caller wanted

    `strict`: a request for more bytes than remain in the current message is reported
    as `would_block` even in the modes that would deliver a short read (the property
    C30 is about the size asked for).  A read with nothing in flight always is."""

    def __init__(self, sim, name, strict=False, direction=None):
        self.sim = sim
        self.name = name
        self.strict = strict
        self.buf = bytearray()
        self.rpos = 0
        self.mark = 0
        self.msgs = []
        self.cuts = []  # absolute, sorted
        self.closed = False
        self._specs = []
        self._cur = 0
        self.direction = direction or ("req" if name.startswith("c2s") else "resp")
        self.reader_site = None  # fn() -> str naming the reader, for signatures
        self.default_spec = None  # fn(pipe name, message index) -> segmentation spec when none was queued

    # -- writer side ------------------------------------------------------------
    def expect(self, spec, reset=False):
        """Queue the segmentation spec of the next message(s) to be written."""
        if reset:
            del self._specs[:]
        self._specs.append(spec)

    def write(self, data):
        if self.closed:
            raise BrokenPipeError(32, "sim pipe closed")
        self.buf += data

    def mark_end(self, opaque=False):
        start, end = self.mark, len(self.buf)
        if end == start:
            return None
        spec = self._specs.pop(0) if self._specs else None
        if spec is None and self.default_spec is not None:
            spec = self.default_spec(self.name, len(self.msgs))
        spec = spec or {"m": "whole"}
        m = _Msg()
        m.start, m.end = start, end
        data = bytes(self.buf[start:end])
        m.direction = self.direction
        m.version = sniff_version(self.direction, data)
        m.ann = annotate(self.direction, data)
        rel, m.rng = seg_cuts(spec, end - start, m.ann)
        m.short = bool(spec.get("sh"))
        m.splits = 0
        m.reads = 0
        m.cats = set()
        for c in rel:
            self.cuts.append(start + c)
        if spec.get("end", True):
            self.cuts.append(end)
        self.msgs.append(m)
        self.mark = end
        if not m.ann["ok"] and not opaque:
            self.sim.probe("annotate_failed")
        return m

    def close(self):
        self.closed = True

    # -- reader side ------------------------------------------------------------
    def _cur_msg(self):
        msgs = self.msgs
        i = self._cur
        while i < len(msgs) and msgs[i].end <= self.rpos:
            i += 1
        self._cur = i
        return msgs[i] if i < len(msgs) else None

    def in_flight(self):
        return len(self.buf) - self.rpos

    def msg_left(self):
        m = self._cur_msg()
        return (m.end - self.rpos) if m is not None else self.in_flight()

    def _site(self):
        return self.reader_site() if self.reader_site else reader_site()

    def _block(self, want, left, why):
        m = self._cur_msg()
        v = m.version if m is not None else (self.msgs[-1].version if self.msgs else 0)
        side = "server" if self.direction == "req" else "client"
        site = self._site()
        self.sim.event(self.name, "BLOCK", why, want, left)
        self.sim.fail(
            "would_block",
            ["would_block", side, f"v{v}", site, why],
            f"{side} reader {site} asked {self.name} for {want} bytes with {left} bytes of the current v{v} message left and the peer waiting: it would block for ever ({why})",
        )

    def read(self, n, mode="atmost", cap=False):
        sim = self.sim
        sim.steps += 1
        if sim.steps > sim.step_cap:
            sim.truncated = True
            raise HarnessTruncated(f"step cap {sim.step_cap}")
        want = n
        if mode == "greedy":
            n = MAXCHUNK
        if n <= 0:
            sim.event(self.name, mode, want, 0)
            return b""
        m = self._cur_msg()
        avail = len(self.buf) - self.rpos
        left = (m.end - self.rpos) if m is not None else avail
        if self.strict and mode != "greedy" and n > left and not self.closed:
            self._block(want, left, "asks_beyond_message")
        limit = left if cap else avail
        if limit == 0:
            if self.closed:
                sim.event(self.name, mode, want, "EOF")
                return b""
            self._block(want, 0, "nothing_in_flight")
        if mode == "exact":
            if n > limit:
                if not self.closed:
                    self._block(want, limit, "asks_beyond_in_flight")
                k = limit
            else:
                k = n
        else:
            k = min(n, limit)
            i = bisect.bisect_right(self.cuts, self.rpos)
            if i < len(self.cuts):
                k = min(k, self.cuts[i] - self.rpos)
            if m is not None and m.short and k > 1 and m.rng.random() < 0.3:
                k = m.rng.randint(1, k)
        old = self.rpos
        self.rpos = new = old + k
        sim.event(self.name, mode, want, k)
        if m is not None:
            m.reads += 1
            if new < m.end:
                m.splits += 1
                rel = new - m.start
                if rel in m.ann["nl"]:
                    m.cats.add("nl")
                    sim.probe("split_before_length_newline")
                    sim.probe("decoder_split_inside_length_prefix")
                elif rel in m.ann["interior"]:
                    m.cats.add("prefix")
                    sim.probe("decoder_split_inside_length_prefix")
                else:
                    m.cats.add("in")
            elif new == m.end:
                if avail > left:
                    m.cats.add("end")
                    sim.probe("split_exactly_at_message_end")
            else:
                m.cats.add("cross")
                sim.probe("read_crossed_message_boundary")
        return bytes(self.buf[old:new])


_SMART_FILES = ("/bzr/smart/medium.py", "/bzr/smart/protocol.py", "/bzr/smart/message.py", "/bzr/smart/client.py")
_SKIP = {"read_bytes", "_read_bytes", "_get_line", "read_line", "_read_line", "_recv_tuple", "_read_response_tuple", "_extract_line"}


def reader_site():
    """Name of the nearest smart-protocol function that asked for bytes."""
    f = sys._getframe(1)
    first = None
    while f is not None:
        fn = f.f_code.co_filename
        if fn.endswith(_SMART_FILES):
            name = f.f_code.co_name
            if first is None:
                first = name
            if name not in _SKIP:
                return name
        f = f.f_back
    return first or "?"


# ------------------------------------------------------------------- server-side ends
class _PipeIn:
    """`in_file` of SmartServerPipeStreamMedium (no fileno: the select() wait is the
    seam and is skipped by the real code for such files)."""

    def __init__(self, pipe, mode):
        self.pipe = pipe
        self.mode = mode

    def read(self, n=-1):
        return self.pipe.read(n, self.mode)

    def close(self):
        pass


class _PipeOut:
    def __init__(self, pipe):
        self.pipe = pipe

    def write(self, data):
        self.pipe.write(data)
        return len(data)

    def flush(self):
        pass

    def close(self):
        self.pipe.close()


class SimSocket:
    """The socket object handed to the real SmartServerSocketStreamMedium."""

    def __init__(self, rpipe, wpipe):
        self.rpipe = rpipe
        self.wpipe = wpipe

    def setblocking(self, flag):
        pass

    def getpeername(self):
        return ("sim", 0)

    def recv(self, n):
        return self.rpipe.read(n, "atmost")

    def send(self, data):
        self.wpipe.write(bytes(data))
        return len(data)

    sendall = send

    def close(self):
        self.wpipe.close()


_server_classes = {}


def _socket_server_class():
    if "socket" not in _server_classes:
        from breezy.bzr.smart import medium

        class SimSocketServerMedium(medium.SmartServerSocketStreamMedium):
            def _wait_for_bytes_with_timeout(self, timeout_seconds):
                return  # select() on the descriptor is the seam; the simulation is synchronous

        _server_classes["socket"] = SimSocketServerMedium
    return _server_classes["socket"]


# ------------------------------------------------------------------------- the world
class WireWorld:
    """Configuration and shared state of one simulated network.

    cfg: server = 'pipe' | 'socket'; server_read = 'exact' | 'atmost' (pipe server only);
    client_read = 'exact' | 'atmost' | 'greedy'; strict = bool.
    `resets`: list of {"req": k, "kind": "send" | "eof_before" | "eof_after", "write": j}
    consumed as the k-th request (counted over all connections, 0-based) is sent."""

    def __init__(self, sim, backing_transport, server="pipe", server_read="exact", client_read="atmost", strict=False, resets=None, seg=None, root_client_path=None, name="sim"):
        self.sim = sim
        self.root_client_path = root_client_path  # None = the medium's default ("/"); C31 varies it
        self.name = name  # host part of the bzr+sim:// URLs that reach this world
        self.shared_medium = None
        if not hasattr(sim, "wires"):
            sim.wires = {}
        sim.wires[name] = self
        self.seg = seg  # default segmentation spec, e.g. {"m": "hot", "ph": 0.6, "sh": True, "s": seed}; per-message seeds are derived
        self.backing_transport = backing_transport
        self.server = server
        self.server_read = server_read
        self.client_read = client_read
        self.strict = strict
        self.resets = list(resets or [])
        self.connections = []
        self.nreq = 0  # requests started, over all connections
        self.after_serve = None  # fn(conn, k): oracle hook after request k of conn was served
        self.scripts = {}  # opid -> response spec (echo verbs)
        self.received = {}  # opid -> what the server-side handler saw
        self.server_events = []  # headers / post-body errors / terminations in arrival order
        self.serving = None  # (connection index, request index) being served
        sim.wire = self

    def connect(self):
        c = Connection(self, len(self.connections))
        self.connections.append(c)
        self.sim.event("net", "connect", c.idx)
        return c

    def default_spec(self, pipe_name, index):
        if self.seg is None:
            return None
        spec = dict(self.seg)
        spec["s"] = derive_seed(self.seg.get("s", 0), pipe_name, index)
        return spec

    def reset_for(self, kind_set):
        for r in self.resets:
            if not r.get("done") and r["req"] == self.nreq - 1 and r["kind"] in kind_set:
                return r
        return None


class Connection:
    def __init__(self, wworld, idx):
        from breezy.bzr.smart import medium

        self.world = wworld
        self.idx = idx
        sim = wworld.sim
        suffix = "" if idx == 0 else f"#{idx}"
        self.c2s = SimPipe(sim, "c2s" + suffix, wworld.strict)
        self.s2c = SimPipe(sim, "s2c" + suffix, wworld.strict)
        self.c2s.default_spec = self.s2c.default_spec = wworld.default_spec
        self.flushed = 0
        self.served = 0
        self.in_request = False
        self.writes_in_request = 0
        self.dead = False
        if wworld.server == "socket":
            self.sock = SimSocket(self.c2s, self.s2c)
            self.server = _socket_server_class()(self.sock, wworld.backing_transport, timeout=4.0)
        else:
            self.server = medium.SmartServerPipeStreamMedium(_PipeIn(self.c2s, wworld.server_read), _PipeOut(self.s2c), wworld.backing_transport, timeout=4.0)
        if wworld.root_client_path is not None:
            self.server.root_client_path = wworld.root_client_path

    # -- client side ------------------------------------------------------------
    def client_write(self, data):
        w = self.world
        if not self.in_request:
            self.in_request = True
            self.writes_in_request = 0
            w.nreq += 1
        r = w.reset_for({"send"})
        if r is not None and r.get("write", 0) <= self.writes_in_request:
            r["done"] = True
            w.sim.faults_fired["reset_send"] += 1
            w.sim.event("net", "RESET", "send", self.idx)
            self.kill()
            raise ConnectionResetError("injected: connection reset while sending")
        self.writes_in_request += 1
        if self.dead:
            raise ConnectionResetError("sim connection is closed")
        self.c2s.write(data)

    def request_complete(self):
        if self.c2s.mark_end() is not None:
            self.flushed += 1
        self.in_request = False

    def client_read(self, count):
        w = self.world
        if self.served < self.flushed and not self.dead:
            r = w.reset_for({"eof_before", "eof_after"})
            if r is not None:
                r["done"] = True
                w.sim.faults_fired["reset_" + r["kind"]] += 1
                w.sim.event("net", "RESET", r["kind"], self.idx)
                if r["kind"] == "eof_after":
                    self.pump()
                self.kill()
                return b""
            self.pump()
        if self.dead:
            return b""
        return self.s2c.read(count, w.client_read, cap=True)

    def kill(self):
        """The connection is gone: the client sees EOF, the server-side medium is dropped."""
        self.dead = True
        self.c2s.close()
        self.s2c.close()

    close = kill

    # -- server side ------------------------------------------------------------
    def server_pushback(self):
        return len(self.server._push_back_buffer or b"")

    def server_pos(self):
        """Offset in c2s up to which the server side has logically consumed bytes."""
        return self.c2s.rpos - self.server_pushback()

    def pump(self):
        """Run the real server loop for every complete request not yet served."""
        sim = self.world.sim
        srv = self.server
        while self.served < self.flushed and not srv.finished:
            k = self.served
            self.world.serving = (self.idx, k)
            proto = srv._build_protocol()
            srv._serve_one_request(proto)
            self.served += 1
            self.s2c.mark_end()
            if sim.violation is not None:
                raise sim.violation
            if self.world.after_serve is not None:
                self.world.after_serve(self, k)
        if srv.finished:
            self.s2c.close()


# -------------------------------------------------------------------- client medium
_client_classes = {}


def loopback_medium_class():
    if "c" in _client_classes:
        return _client_classes["c"]
    from breezy import errors
    from breezy.bzr.smart import medium

    class LoopbackMedium(medium.SmartClientStreamMedium):
        """A client medium whose bytes go to a real server-side medium over SimPipes.

        `LoopbackMedium(wire_world)`; every (re)connection gets fresh pipes and a fresh
        server-side medium on the same backing transport."""

        def __init__(self, wire_world, base="bzr://sim/"):
            medium.SmartClientStreamMedium.__init__(self, base)
            self.wire = wire_world
            self.conn = None

        def _ensure_connection(self):
            if self.conn is None:
                self.conn = self.wire.connect()

        def _accept_bytes(self, data):
            self._ensure_connection()
            self.conn.client_write(data)

        def _flush(self):
            if self.conn is not None:
                self.conn.request_complete()

        def _read_bytes(self, count):
            if self.conn is None:
                raise errors.MediumNotConnected(self)
            return self.conn.client_read(min(count, MAXCHUNK))

        def disconnect(self):
            conn, self.conn = getattr(self, "conn", None), None
            if conn is not None:
                conn.kill()

    _client_classes["c"] = LoopbackMedium
    return LoopbackMedium


def LoopbackMedium(wire_world, base="bzr://sim/"):  # noqa: N802 - factory with a class-like name
    return loopback_medium_class()(wire_world, base)


def loopback_transport(wire_world, base="bzr://sim/"):
    """A RemoteTransport talking to `wire_world.backing_transport` through the loop-back
    medium; use `ControlDir.open_from_transport(t)` etc. on it."""
    from breezy.transport import remote

    return remote.RemoteTransport(base, medium=LoopbackMedium(wire_world, base))


SIM_SCHEME = "bzr+sim://"


def loopback_url(wire_world, path=""):
    """URL under which the served directory of `wire_world` can be opened by name
    (`Branch.open(url)`, stacked-on locations, ...): bzr+sim://<world name>/<path>.  All
    transports opened that way share one client medium (one connection, re-established
    by the real client code after a reset), like one breezy process talking to one host."""
    return f"{SIM_SCHEME}{wire_world.name}/{path}"


def _sim_url_factory(url):
    from breezy.transport import remote

    host = url[len(SIM_SCHEME) :].split("/", 1)[0]
    ww = cur_sim().wires[host]
    if ww.shared_medium is None:
        ww.shared_medium = LoopbackMedium(ww, f"{SIM_SCHEME}{host}/")
    return remote.RemoteTransport(url, medium=ww.shared_medium)


def _register_scheme():
    from dromedary import register_transport, register_urlparse_netloc_protocol, transport_list_registry

    if SIM_SCHEME not in transport_list_registry.keys():
        register_urlparse_netloc_protocol(SIM_SCHEME[:-3])
        register_transport(SIM_SCHEME, _sim_url_factory)


# ----------------------------------------------------------------- echo verbs + hooks
_installed = {}


def blob(spec):
    """Plan encoding of byte strings: latin-1 str literal, ['r', seed, n] pseudo-random
    bytes, ['p', pattern, n] repeated pattern."""
    if spec is None:
        return None
    if isinstance(spec, str):
        return spec.encode("latin-1")
    if spec[0] == "r":
        return random.Random(spec[1]).randbytes(spec[2])
    pat = spec[1].encode("latin-1")
    return (pat * (spec[2] // len(pat) + 1))[: spec[2]]


def _make_exc(desc):
    from breezy import errors
    from dromedary import errors as te

    if desc[0] == "NoSuchFile":
        return te.NoSuchFile(desc[1])
    if desc[0] == "TokenMismatch":
        return errors.TokenMismatch(blob(desc[1]), blob(desc[2]))
    raise AssertionError(desc)


def exc_tuple(desc):
    if desc[0] == "NoSuchFile":
        return (b"NoSuchFile", desc[1].encode("utf-8"))
    return (b"TokenMismatch", blob(desc[1]), blob(desc[2]))


def install():
    """Register the echo verbs and the observation wrappers, once per process."""
    if _installed:
        return
    from breezy.bzr.smart import medium, message, request

    def _wire():
        try:
            return getattr(cur_sim(), "wire", None)
        except RuntimeError:
            return None

    def build_response(spec):
        if spec.get("raise"):
            raise _make_exc(spec["raise"])
        args = tuple(blob(a) for a in spec["args"])
        cls = request.SuccessfulSmartServerResponse if spec.get("ok", True) else request.FailedSmartServerResponse
        if spec.get("stream") is not None:

            def gen():
                for c in spec["stream"]:
                    yield blob(c)
                err = spec.get("err")
                if err is not None:
                    if "failed" in err:
                        yield request.FailedSmartServerResponse(tuple(blob(a) for a in err["failed"]))
                    else:
                        raise _make_exc(err["raise"])

            return cls(args, body_stream=gen())
        return cls(args, blob(spec.get("body")))

    class SimNoBody(request.SmartServerRequest):
        def do(self, opid, *args):
            w = _wire()
            w.received[opid] = {"args": args, "chunks": None, "ended": True}
            return build_response(w.scripts[opid])

    class SimBody(request.SmartServerRequest):
        def do(self, opid, *args):
            self._opid = opid
            _wire().received[opid] = {"args": args, "chunks": [], "ended": False}
            return None

        def do_chunk(self, chunk_bytes):
            _wire().received[self._opid]["chunks"].append(chunk_bytes)

        def do_end(self):
            w = _wire()
            w.received[self._opid]["ended"] = True
            return build_response(w.scripts[self._opid])

    class SimEarly(request.SmartServerRequest):
        """A verb that takes a body but answers from do() (what a real handler does when
        its arguments are refused: translate_client_path raising in PutRequest.do, ...)."""

        def do(self, opid, *args):
            w = _wire()
            w.received[opid] = {"args": args, "chunks": [], "ended": True, "early": True}
            return build_response(w.scripts[opid])

        def do_chunk(self, chunk_bytes):
            raise AssertionError("body delivered to a handler that already answered")

    request.request_handlers.register(b"sim.early", SimEarly, info="read")
    request.request_handlers.register(b"sim.nobody", SimNoBody, info="read")
    request.request_handlers.register(b"sim.body", SimBody, info="read")

    orig_push_back = medium.SmartMedium._push_back
    orig_post = request.SmartServerRequestHandler.post_body_error_received
    orig_headers = message.MessageHandler.headers_received

    def _push_back(self, data):
        if data:
            w = _wire()
            if w is not None:
                w.sim.probe("push_back_nonempty")
                w.sim.probe("push_back_server" if isinstance(self, medium.SmartServerStreamMedium) else "push_back_client")
        return orig_push_back(self, data)

    def post_body_error_received(self, error_args):
        w = _wire()
        if w is not None:
            w.server_events.append(("post_body_error", tuple(error_args), w.serving))
        return orig_post(self, error_args)

    def headers_received(self, headers):
        if isinstance(self, message.ConventionalRequestHandler):
            w = _wire()
            if w is not None:
                w.server_events.append(("headers", dict(headers), w.serving))
        return orig_headers(self, headers)

    def _observe_terminate(cls):
        orig = cls.terminate_due_to_error

        def terminate_due_to_error(self):
            w = _wire()
            if w is not None:
                et, ev, tb = sys.exc_info()
                where = "?"
                while tb is not None:
                    if tb.tb_frame.f_code.co_filename.endswith(_SMART_FILES + ("/bzr/smart/request.py",)):
                        where = tb.tb_frame.f_code.co_name
                    tb = tb.tb_next
                w.server_events.append(("terminated", f"{et.__name__ if et else None}:{where}", str(ev)[:300]))
            return orig(self)

        cls.terminate_due_to_error = terminate_due_to_error

    _observe_terminate(medium.SmartServerPipeStreamMedium)
    _observe_terminate(medium.SmartServerSocketStreamMedium)
    _install_sync_inserter()
    _register_scheme()
    medium.SmartMedium._push_back = _push_back
    request.SmartServerRequestHandler.post_body_error_received = post_body_error_received
    message.MessageHandler.headers_received = headers_received
    _installed["x"] = True


class _DeferredThread:
    """Stand-in for threading.Thread inside breezy.bzr.smart.repository: the insert_stream
    handlers decode and insert the record stream in a worker thread fed through a queue
    while the network loop delivers chunks.  In the synchronous loop-back world that
    thread would race with the client (which reads the source repository through the same
    seam) and would not belong to the simulation.  Here start() does nothing and join()
    runs the target in the calling thread: by then (do_end) every chunk and the end
    sentinel are in the queue, so the worker sees exactly the same byte stream."""

    def __init__(self, target=None, args=(), kwargs=None, **_ignored):
        self._target, self._args, self._kwargs = target, args, kwargs or {}
        self._ran = False

    def start(self):
        pass

    def join(self, timeout=None):
        if not self._ran:
            self._ran = True
            self._target(*self._args, **self._kwargs)

    def is_alive(self):
        return not self._ran


class _ThreadingShim:
    Thread = _DeferredThread

    def __getattr__(self, name):
        import threading

        return getattr(threading, name)


def _install_sync_inserter():
    from breezy.bzr.smart import repository as smart_repo

    if not isinstance(smart_repo.threading, _ThreadingShim):
        smart_repo.threading = _ThreadingShim()


def pin_lock_info():
    """Determinism pin for worlds in which lock info files travel over the wire (a client
    peeks at lock/held/info through the VFS `get` verb): the Rust LockHeldInfo records the
    real pid and the wall-clock start time, whose decimal lengths would leak into message
    lengths and hence into the segmentation of the byte streams.  breezy.lockdir gets a
    stand-in whose for_this_process() is the real one with pid 1 (a live process, like the
    real holder) and the virtual clock as start time; nonce, user, host name, extra holder
    info and all parsing/liveness code stay real.  Idempotent."""
    import re

    import breezy.lockdir as ld

    real = ld.LockHeldInfo
    if getattr(real, "_sim_pinned", False):
        return

    class _Meta(type):
        def __instancecheck__(cls, obj):
            return isinstance(obj, real)

    class PinnedLockHeldInfo(metaclass=_Meta):
        _sim_pinned = True
        from_info_file_bytes = staticmethod(real.from_info_file_bytes)

        @staticmethod
        def for_this_process(extra_holder_info):
            data = real.for_this_process(extra_holder_info).to_bytes()
            try:
                now = int(cur_sim().time())
            except RuntimeError:
                now = 1_000_000
            data = re.sub(rb"(?m)^pid: \d+$", b"pid: 1", data, count=1)
            data = re.sub(rb"secs_since_epoch: \d+", b"secs_since_epoch: %d" % now, data, count=1)
            data = re.sub(rb"nanos_since_epoch: \d+", b"nanos_since_epoch: 0", data, count=1)
            return real.from_info_file_bytes(data)

    ld.LockHeldInfo = PinnedLockHeldInfo


_warmed = False


def warm():
    global _warmed
    if _warmed:
        return
    simworld.quiet_breezy()
    import breezy.bzr.smart.client  # noqa: F401
    import breezy.bzr.smart.medium  # noqa: F401
    import breezy.bzr.smart.message  # noqa: F401
    import breezy.bzr.smart.protocol  # noqa: F401
    import breezy.bzr.smart.request  # noqa: F401
    import breezy.bzr.smart.vfs  # noqa: F401
    from simkit.sim import Sim

    install()
    # one dry exchange per protocol version resolves every lazy import before the fork
    for strict in (False, True):
        plan = {
            "server": "pipe",
            "server_read": "exact",
            "client_read": "exact",
            "ops": [_dry_op(v) for v in (1, 2, 3)] + [{"v": 3, "kind": "real_get", "path": "f1", "seg": {}}, {"v": 2, "kind": "hello", "seg": {}}],
        }
        try:
            run_plan(Sim(0, plan), plan, strict)
        except Exception:  # noqa: BLE001, S110 - only here to resolve imports; real runs judge the code under test
            pass
    _warmed = True


def _dry_op(v):
    return {
        "v": v,
        "kind": "body",
        "args": ["a"],
        "body": "xyz",
        "resp": {"ok": True, "args": ["ok"], "body": "pq"},
        "read": "body",
        "seg": {},
    }


# ------------------------------------------------------------------ workload grammar
V1_ERROR_CODES = ["norepository", "NoSuchFile", "FileExists", "DirectoryNotEmpty", "ShortReadvError", "ReadOnlyError", "nobranch", "NoSuchRevision", "LockContention", "TokenMismatch", "ReadError", "PermissionDenied"]
OK_WORDS = ["ok", "yes", "no", "readv", "sim", "0", "", "ok ", "done", "END", "success", "chunked", "3"]
FAIL_WORDS = ["NoSuchFile", "LockContention", "weird", "nobranch", "ReadError", "failed"]
ARG_POOL_SAFE = ["", "a", "path/to/file", "\xc3\xa9t\xc3\xa9", "with space", "1234", "done", "END", "ERR", "chunked", "success", "failed", "bzr request 2", "\x00", "\r", "\xff\xfe", "0", "e", "s", "b", "oS", "5:abcde", "l1:ae", "i42e", "\x00\x00\x00\x05"]
ARG_POOL_V3 = ["a\x01b", "line1\nline2", "\n", "\x01", "\x01\n", "done\n", "END\n", "bzr message 3 (bzr 1.6)\n", "tail\n"]
FILES = {"f1": ["p", "hello world\n", 11], "f2": ["r", 77, 3000], "f3": "", "f4": ["p", "done\nEND\n12\n", 700]}


def gen_arg(rng, v):
    x = rng.random()
    if x < 0.55:
        pool = ARG_POOL_SAFE + (ARG_POOL_V3 if v == 3 else [])
        return rng.choice(pool)
    n = rng.choice([1, 2, 3, 5, 8, 12])
    if v == 3:
        return "".join(chr(rng.choice([1, 10, rng.randrange(256)])) for _ in range(n))
    out = []
    for _ in range(n):
        c = rng.randrange(256)
        while c in (1, 10):
            c = rng.randrange(256)
        out.append(chr(c))
    return "".join(out)


def gen_args(rng, v, lo=0, hi=4):
    return [gen_arg(rng, v) for _ in range(rng.randint(lo, hi))]


def gen_blob(rng, big_ok=True):
    x = rng.random()
    if x < 0.12:
        return ""
    if x < 0.22:
        return rng.choice(["x", "\n", "0", "\x00"])
    if x < 0.45:
        return rng.choice(["done\n", "END\n", "ERR\n", "0\n", "chunked\n", "5\nabcde", "12", "1\n", "done", "e", "b\x00\x00\x00\x01x", "oS", "ab\x01cd\n"]) * rng.randint(1, 3)
    if x < 0.65:
        return ["r", rng.randrange(1 << 30), rng.randint(2, 40)]
    if x < 0.80:
        return ["r", rng.randrange(1 << 30), rng.randint(41, 400)]
    if x < 0.90:
        return ["p", rng.choice(["done\n", "END\n", "0\n", "ab", "\n", "\x00\x00\x00\x01"]), rng.randint(100, 3000)]
    if x < 0.985 or not big_ok:
        return ["r", rng.randrange(1 << 30), rng.randint(1000, 9000)]
    if rng.random() < 0.3:
        # around the encoder's 1 MiB buffer: a single part written past the buffered bytes
        return ["r", rng.randrange(1 << 30), rng.choice([1048575, 1048576, 1048577, 1048600])]
    return ["r", rng.randrange(1 << 30), rng.choice([65530, 65536, 65537, 70000])]


def gen_chunks(rng):
    n = rng.choice([0, 1, 1, 2, 3, 4, 6])
    out = []
    for _ in range(n):
        out.append("" if rng.random() < 0.25 else gen_blob(rng, big_ok=rng.random() < 0.15))
    return out


def gen_seg(rng):
    mode = rng.choices(["whole", "byte", "hot", "rand"], [2, 2, 9, 4])[0]
    return {"m": mode, "s": rng.randrange(1 << 30), "ph": rng.choice([0.25, 0.5, 0.8, 1.0]), "sh": rng.random() < 0.5, "end": rng.random() < 0.6}


def gen_resp(rng, v):
    shapes = ["none", "none", "body", "body", "failed", "raise"]
    if v >= 2:
        shapes += ["stream", "stream", "stream_err"]
    if v == 3:
        shapes += ["stream_raise"]
    shape = rng.choice(shapes)
    if shape == "failed":
        first = rng.choice(V1_ERROR_CODES if v == 1 else FAIL_WORDS)
        return {"ok": False, "args": [first] + gen_args(rng, v, 0, 3)}
    if shape == "raise":
        if v == 3 and rng.random() < 0.5:
            return {"raise": ["TokenMismatch", gen_arg(rng, 3), gen_arg(rng, 3)]}
        return {"raise": ["NoSuchFile", rng.choice(["f", "dir/name", "a b", "x" * 40])]}
    first = rng.choice(OK_WORDS)
    spec = {"ok": True, "args": [first] + gen_args(rng, v, 0, 3)}
    if shape == "body":
        spec["body"] = gen_blob(rng)
    elif shape.startswith("stream"):
        spec["stream"] = gen_chunks(rng)
        if shape == "stream_err":
            spec["err"] = {"failed": [rng.choice(FAIL_WORDS)] + gen_args(rng, 3, 0, 3)}
        elif shape == "stream_raise":
            spec["err"] = {"raise": ["NoSuchFile", rng.choice(["f", "dir/name"])] if rng.random() < 0.5 else ["TokenMismatch", gen_arg(rng, 3), gen_arg(rng, 3)]}
    return spec


def resp_shape(spec):
    if spec.get("raise") or not spec.get("ok", True):
        return "failed"
    if spec.get("stream") is not None:
        return "stream_err" if spec.get("err") else "stream"
    return "body" if spec.get("body") is not None else "none"


def gen_read(rng, v, shape):
    """How the client consumes the response (all choices are supported uses of the API)."""
    if shape == "failed":
        return rng.choice(["none", "cancel"])
    if shape == "none":
        opts = ["none", "cancel"]
        if v == 3:
            opts += ["body", "stream"]
        return rng.choice(opts)
    if shape == "body":
        opts = ["body", "body", "body_pieces"]
        if v == 3:
            opts += ["stream", "late_body"]
        return rng.choice(opts)
    if shape == "stream" and v == 3 and rng.random() < 0.2:
        return "body"
    return "stream"


def gen_direct(rng, strict):
    dec = rng.choice(["length", "chunked", "chunked", "v3"])
    op = {"v": 3 if dec == "v3" else 2, "kind": "direct", "dec": dec, "seg": {"q": gen_seg(rng)}}
    if dec == "length":
        op["body"] = gen_blob(rng)
    else:
        if dec == "v3":
            op["args"] = gen_args(rng, 3, 1, 3)
        if dec == "v3" and rng.random() < 0.4:
            op["body"] = gen_blob(rng)
        else:
            op["stream"] = gen_chunks(rng)
            if rng.random() < 0.4 and (dec == "chunked" or op["stream"]):
                op["err"] = [rng.choice(FAIL_WORDS)] + gen_args(rng, 3, 0, 3)
    if not strict:
        op["tail"] = rng.choice(["", "x", "\n", "bzr request 2\nhello\n", "bzr message 3 (bzr 1.6)\n\x00\x00", "5\nabcde", "END\n", "done\n", ["r", rng.randrange(1 << 30), rng.randint(1, 300)]])
    return op


def gen_op(rng, strict):
    if rng.random() < 0.12:
        return gen_direct(rng, strict)
    v = rng.choice([1, 2, 3, 3])
    kinds = ["nobody"] * 5 + ["body"] * 5 + ["readv"] * 2 + ["unknown", "real_get", "real_readv", "hello"]
    if v == 3:
        kinds += ["stream"] * 3 + ["stream_raise", "call_body_verb"]
    kind = rng.choice(kinds)
    early = kind in ("body", "stream") and rng.random() < 0.15
    op = {"v": v, "kind": kind, "seg": {"q": gen_seg(rng), "r": gen_seg(rng)}}
    if kind in ("real_get", "real_readv"):
        op["path"] = rng.choice(sorted(FILES))
        if kind == "real_readv":
            size = len(blob(FILES[op["path"]]))
            offs = []
            pos = 0
            for _ in range(rng.randint(0, 5)):
                if pos >= size:
                    break
                start = rng.randint(pos, size)
                ln = rng.randint(0, min(size - start, 200))
                offs.append([start, ln])
                pos = start + ln
            op["readv"] = offs
        return op
    if kind == "hello":
        return op
    op["args"] = gen_args(rng, v)
    if kind == "unknown":
        op["verb"] = rng.choice(["sim.missing", "nope", "Branch.nonsense"])
        if v == 3:
            x = rng.random()
            if x < 0.3:
                op["body"] = gen_blob(rng)
            elif x < 0.5:
                op["stream"] = gen_chunks(rng)
        return op
    if kind == "body":
        op["body"] = gen_blob(rng)
    elif kind == "readv":
        op["readv"] = [[rng.choice([0, 1, 9, 10, 99, 1000, 65535, 2**31, 2**40]), rng.choice([0, 1, 7, 100, 4096, 10**6])] for _ in range(rng.choice([0, 1, 2, 3, 8, 40]))]
    elif kind in ("stream", "stream_raise"):
        op["stream"] = gen_chunks(rng)
    op["resp"] = gen_resp(rng, v)
    if early:
        op["early"] = True
        op["resp"] = gen_resp(rng, 1)  # answered from do(): args only, a body or a failure
    op["read"] = gen_read(rng, v, resp_shape(op["resp"]))
    if rng.random() < 0.3 and v == 3:
        op["headers"] = {gen_arg(rng, 3): gen_arg(rng, 3) for _ in range(rng.randint(0, 3))}
    return op


def gen_plan(rng, tier, strict):
    plan = {}
    if strict:
        plan["server"] = "pipe"
        plan["server_read"] = rng.choice(["exact", "exact", "atmost"])
        plan["client_read"] = rng.choice(["exact", "exact", "atmost"])
    else:
        plan["server"] = rng.choice(["pipe", "socket", "socket"])
        plan["server_read"] = rng.choice(["atmost", "atmost", "exact"])
        plan["client_read"] = rng.choice(["atmost", "atmost", "greedy", "greedy", "exact"])
    n = rng.choice([1, 2, 2, 3, 3, 4, 5, 6])
    ops = [gen_op(rng, strict) for _ in range(n)]
    if not strict and rng.random() < 0.5:
        for op in ops[1:]:
            if rng.random() < 0.7:
                op["pl"] = True
    plan["ops"] = ops
    return plan


def shrink_candidates(plan):
    """Generic op dropping first, then simplifications of single ops."""
    import copy

    from simkit.shrink import generic_candidates

    yield from generic_candidates(plan)
    for key in ("server_read", "client_read"):
        if plan.get(key) not in ("atmost", None):
            p = copy.deepcopy(plan)
            p[key] = "atmost"
            yield p
    for i, op in enumerate(plan["ops"]):
        if op.get("pl"):
            p = copy.deepcopy(plan)
            del p["ops"][i]["pl"]
            yield p
        for d in ("q", "r"):
            seg = op.get("seg", {}).get(d)
            if seg and seg.get("m") != "whole":
                p = copy.deepcopy(plan)
                p["ops"][i]["seg"][d] = {"m": "whole", "end": seg.get("end", True)}
                yield p
            if seg and seg.get("sh"):
                p = copy.deepcopy(plan)
                p["ops"][i]["seg"][d]["sh"] = False
                yield p
        if op.get("args"):
            p = copy.deepcopy(plan)
            p["ops"][i]["args"] = []
            yield p
        if op.get("headers"):
            p = copy.deepcopy(plan)
            del p["ops"][i]["headers"]
            yield p
        for key in ("body", "tail"):
            b = op.get(key)
            if b not in (None, "", "x"):
                for repl in ("", "x"):
                    p = copy.deepcopy(plan)
                    p["ops"][i][key] = repl
                    yield p
        if op.get("stream"):
            for j in range(len(op["stream"])):
                p = copy.deepcopy(plan)
                del p["ops"][i]["stream"][j]
                yield p
        r = op.get("resp")
        if r:
            if r.get("body") not in (None, "", "x"):
                for repl in ("", "x"):
                    p = copy.deepcopy(plan)
                    p["ops"][i]["resp"]["body"] = repl
                    yield p
            if r.get("stream"):
                for j in range(len(r["stream"])):
                    p = copy.deepcopy(plan)
                    del p["ops"][i]["resp"]["stream"][j]
                    yield p
            if len(r.get("args", [])) > 1:
                p = copy.deepcopy(plan)
                p["ops"][i]["resp"]["args"] = r["args"][:1]
                yield p


# --------------------------------------------------------------------- model + runner
class MWire:
    """Model of one exchange: what was handed to the encoders, hence what the decoders
    on the other side must deliver."""

    def __init__(self, op, opid):
        self.op = op
        self.opid = opid
        v = op["v"]
        kind = op["kind"]
        self.v = v
        self.req_headers = None
        self.body = self.readv = self.stream = None
        self.stream_raises = False
        if kind == "direct":
            return
        if kind == "hello":
            self.verb, self.args = b"hello", ()
            self.req_chunks = None
            self.resp = {"ok": True, "args": (b"ok", b"2"), "shape": "none"}
            self.read = "none"
            return
        if kind == "real_get":
            self.verb, self.args = b"get", (op["path"].encode(),)
            self.req_chunks = None
            self.resp = {"ok": True, "args": (b"ok",), "shape": "body", "body": blob(FILES[op["path"]])}
            self.read = "body"
            return
        if kind == "real_readv":
            self.verb, self.args = b"readv", (op["path"].encode(),)
            data = blob(FILES[op["path"]])
            self.readv = [tuple(o) for o in op["readv"]]
            self.resp = {"ok": True, "args": (b"readv",), "shape": "body", "body": b"".join(data[s : s + ln] for s, ln in self.readv)}
            self.read = "body"
            return
        self.args = (str(opid).encode(),) + tuple(blob(a) for a in op["args"])
        if kind == "unknown":
            self.verb = op["verb"].encode()
            self.resp = {"unknown": True}
            self.read = "none"
        else:
            self.verb = b"sim.nobody" if kind == "nobody" else (b"sim.early" if op.get("early") else b"sim.body")
            spec = op["resp"]
            shape = resp_shape(spec)
            self.resp = {"shape": shape}
            if spec.get("raise"):
                self.resp.update(ok=False, args=exc_tuple(spec["raise"]))
            else:
                self.resp.update(ok=spec.get("ok", True), args=tuple(blob(a) for a in spec["args"]))
                if shape == "body":
                    self.resp["body"] = blob(spec["body"])
                elif shape in ("stream", "stream_err"):
                    self.resp["chunks"] = [blob(c) for c in spec["stream"]]
                    err = spec.get("err")
                    if err is not None:
                        self.resp["err"] = tuple(blob(a) for a in err["failed"]) if "failed" in err else exc_tuple(err["raise"])
            self.read = op["read"]
        self.body = blob(op.get("body"))
        self.readv = [tuple(o) for o in op["readv"]] if op.get("readv") is not None else None
        self.stream = [blob(c) for c in op["stream"]] if op.get("stream") is not None else None
        self.stream_raises = kind == "stream_raise"
        if op.get("headers") is not None:
            self.req_headers = {blob(k): blob(val) for k, val in op["headers"].items()}

    def shape_key(self):
        op = self.op
        return (self.v, op["kind"], self.resp.get("shape", "unknown"), self.read)


class _StreamAbort(Exception):
    pass


def _fail(sim, oracle, m, what, detail):
    sim.fail(oracle, [oracle, f"v{m.v}", what], f"op {m.opid} ({m.op['kind']}, v{m.v}): {detail}")


def _short(b, n=60):
    if isinstance(b, (bytes, bytearray)) and len(b) > n:
        return f"{bytes(b[:n])!r}...({len(b)} bytes)"
    return repr(b)


def _first_diff(a, b):
    n = min(len(a), len(b))
    for i in range(n):
        if a[i] != b[i]:
            return i
    return n


class Runner:
    """Executes a plan: real client encoders -> SimPipe -> real server loop -> SimPipe ->
    real client decoders, comparing everything decoded with MWire."""

    def __init__(self, sim, plan, strict):
        from breezy.bzr.smart import client
        from dromedary.memory import MemoryTransport

        install()
        self.sim = sim
        self.plan = plan
        self.strict = strict
        backing = MemoryTransport("memory:///")
        for name, spec in FILES.items():
            backing.put_bytes(name, blob(spec))
        self.wire = WireWorld(
            sim,
            backing,
            server=plan.get("server", "pipe"),
            server_read=plan.get("server_read", "exact"),
            client_read=plan.get("client_read", "atmost"),
            strict=strict,
        )
        self.wire.after_serve = self.after_serve
        self.medium = LoopbackMedium(self.wire)
        self.medium._ensure_connection()
        self.conn = self.medium.conn
        self.client_mod = client
        self.sent = []  # MWire in the order their requests were flushed
        self.nontrivial = False

    # -- oracle evaluated by the pump after the server loop finished request k ------------
    def after_serve(self, conn, k):
        sim = self.sim
        m = self.sent[k]
        msg = conn.c2s.msgs[k]
        pos = conn.server_pos()
        cls = "unknown_verb" if m.op["kind"] == "unknown" else ("answered_before_body" if m.op.get("early") else "dispatched")
        if conn.server.finished:
            why = [e for e in self.wire.server_events if e[0] == "terminated"]
            tag, text = (why[-1][1], why[-1][2]) if why else ("finished", "")
            _fail(sim, "server_gave_up", m, tag, f"the server medium terminated the connection while serving request {k} ({tag}: {text}); the request bytes were consumed up to offset {pos - msg.start} of {msg.end - msg.start}, {conn.c2s.in_flight() + conn.server_pushback()} bytes of following requests are lost")
        if pos < msg.end:
            _fail(
                sim,
                "message_end",
                m,
                cls + ":server_stopped_early",
                f"server loop reported request {k} complete with {msg.end - pos} bytes of it unread: {_short(bytes(conn.c2s.buf[pos : msg.end]))}; they would be parsed as the next request",
            )
        if pos > msg.end:
            _fail(
                sim,
                "excess_lost",
                m,
                cls + ":server_consumed_next_message",
                f"after request {k} the server side holds no push-back for {pos - msg.end} bytes that belong to the following request: {_short(bytes(conn.c2s.buf[msg.end : pos]))}",
            )
        if conn.c2s.rpos > msg.end:
            sim.probe("excess_bytes_carried_to_next_message")

    # -- sending ----------------------------------------------------------------------------
    def _request_obj(self, m):
        cl = self.client_mod._SmartClient(self.medium, headers=m.req_headers)
        kw = {}
        if m.readv is not None:
            kw["readv_body"] = m.readv
        elif m.body is not None:
            kw["body"] = m.body
        elif m.stream is not None:
            kw["body_stream"] = self._stream_gen(m)
        expect = m.read not in ("none", "late_body")
        return self.client_mod._SmartClientRequest(cl, m.verb, m.args, expect_response_body=expect, **kw)

    def _stream_gen(self, m):
        def gen():
            yield from m.stream
            if m.stream_raises:
                raise _StreamAbort("sim: client-side stream source failed")

        return gen()

    def send(self, m, first=True):
        seg = m.op.get("seg", {})
        self.conn.c2s.expect(seg.get("q"), reset=True)
        self.conn.s2c.expect(seg.get("r"), reset=first)
        self.medium._protocol_version = m.v
        req = self._request_obj(m)
        self.sent.append(m)
        return req

    # -- one exchange, request and response interleaved as a real client does ----------------
    def exchange(self, m):
        req = self.send(m)
        handler = None
        outcome = {}
        try:
            handler = req._send(m.v)
        except _StreamAbort:
            outcome["stream_abort"] = True
        self.read_response(m, req, handler, outcome)

    def pipelined(self, group):
        reqs = []
        for m in group:
            req = self.send(m, first=not reqs)
            outcome = {}
            handler = None
            try:
                handler = req._send(m.v)
            except _StreamAbort:
                outcome["stream_abort"] = True
            reqs.append((m, req, handler, outcome, self.medium._current_request))
            # the stream medium allows one request at a time; the harness sends the next
            # request before reading this response (pipelining shim)
            self.medium._current_request = None
        self.sim.probe("pipelined_group")
        for m, req, handler, outcome, mreq in reqs:
            self.medium._current_request = mreq
            self.read_response(m, req, handler, outcome)

    # -- receiving ------------------------------------------------------------------------------
    def read_response(self, m, req, handler, outcome):
        from breezy import errors
        from dromedary import errors as te

        sim = self.sim
        conn = self.conn
        k = self.sent.index(m)
        if handler is None:
            # v3 body stream aborted by the client: the request is still a complete message
            # and the server answers it; read the answer with a fresh response handler
            handler = self._v3_handler_for_aborted(m)
        got = {}
        try:
            try:
                got["args"] = handler.read_response_tuple(expect_body=req.expect_response_body)
            except te.ErrorFromSmartServer as e:
                got["error"] = tuple(e.error_tuple)
            except te.UnknownSmartMethod as e:
                got["unknown"] = e.verb
            else:
                how = m.read
                if how == "cancel":
                    handler.cancel_read_body()
                elif how in ("body", "late_body"):
                    got["body"] = handler.read_body_bytes()
                elif how == "body_pieces":
                    parts = []
                    for i in range(1000000):
                        # small pieces first, larger ones for the tail of very large bodies
                        piece = handler.read_body_bytes(7 if i < 3000 else 100003)
                        if not piece:
                            break
                        parts.append(piece)
                    got["body"] = b"".join(parts)
                elif how == "stream":
                    chunks = []
                    got["chunks"] = chunks
                    try:
                        for c in handler.read_streamed_body():
                            chunks.append(c)
                    except te.ErrorFromSmartServer as e:
                        got["stream_error"] = tuple(e.error_tuple)
        except (ConnectionError, te.SmartProtocolError, errors.BzrError, AssertionError, ValueError, TypeError, struct.error, IndexError) as e:
            if sim.violation is not None:
                raise sim.violation from None
            shape = m.resp.get("shape", "unknown")
            if shape == "stream_err" and not m.resp["chunks"]:
                shape = "stream_err_before_first_chunk"
            rmsg = conn.s2c.msgs[k] if k < len(conn.s2c.msgs) else None
            if self.strict and rmsg is not None and self.medium._current_request is None and conn.s2c.rpos < rmsg.end:
                sim.fail(
                    "message_end",
                    ["message_end", f"v{m.v}", shape, f"client_finished_before_message_end:{type(e).__name__}"],
                    f"op {m.opid} ({m.op['kind']}, v{m.v}, response {shape}): the client released the medium (finished_reading) at offset {conn.s2c.rpos - rmsg.start} of {rmsg.end - rmsg.start} of a well-formed response, raising {type(e).__name__}: {str(e)[-300:]}; the unread rest would be taken for the next response",
                )
            sim.fail("decode_failed", ["decode_failed", f"v{m.v}", shape, f"client:{type(e).__name__}"], f"op {m.opid} ({m.op['kind']}, v{m.v}, response {shape}): the client could not decode the response: {type(e).__name__}: {str(e)[-700:]}")
        if sim.violation is not None:
            raise sim.violation
        self.check_server_side(m, outcome)
        self.check_client_side(m, got, handler)
        # connection state after the exchange
        if self.medium._current_request is not None:
            _fail(sim, "message_end", m, "client_left_request_open", "the client finished decoding the response without releasing the medium (finished_reading was not reached)")
        rmsg = conn.s2c.msgs[k] if k < len(conn.s2c.msgs) else None
        if rmsg is not None:
            cpos = conn.s2c.rpos - len(self.medium._push_back_buffer or b"")
            if cpos != rmsg.end:
                _fail(sim, "message_end", m, "client_stopped_early" if cpos < rmsg.end else "client_overread", f"client finished response {k} at offset {cpos - rmsg.start} of {rmsg.end - rmsg.start}")
        for direction, pipe in (("req", conn.c2s), ("resp", conn.s2c)):
            if k < len(pipe.msgs):
                msg = pipe.msgs[k]
                sim.probe(f"v{msg.version}_{direction}_msgs")
                if msg.splits >= 1:
                    self.nontrivial = True
                    sim.probe("messages_split_inside")
                sim.state_seen((m.shape_key(), direction, tuple(sorted(msg.cats))))

    def _v3_handler_for_aborted(self, m):
        from breezy.bzr.smart import message, protocol

        mreq = self.medium._current_request
        handler = message.ConventionalResponseHandler()
        decoder = protocol.ProtocolThreeDecoder(handler, expect_version_marker=True)
        handler.setProtoAndMediumRequest(decoder, mreq)
        return handler

    # -- comparisons ----------------------------------------------------------------------------
    def check_server_side(self, m, outcome):
        sim = self.sim
        kind = m.op["kind"]
        if kind in ("hello", "real_get", "real_readv", "unknown"):
            return
        rec = self.wire.received.get(m.args[0])
        if rec is None:
            _fail(sim, "request_mismatch", m, "not_dispatched", f"the request handler for {m.verb!r} never ran")
        if tuple(rec["args"]) != m.args[1:]:
            _fail(sim, "request_mismatch", m, "args", f"server decoded args {rec['args']!r}, client encoded {m.args[1:]!r}")
        if not rec["ended"]:
            _fail(sim, "request_mismatch", m, "no_end", "the server never saw the end of the request body")
        from breezy.bzr.smart import vfs

        if kind == "nobody":
            return
        if rec.get("early"):
            self.sim.probe("handler_answered_before_body")
            return
        chunks = rec["chunks"]
        joined = b"".join(chunks)
        if m.readv is not None:
            want = b"\n".join(b"%d,%d" % o for o in m.readv)
            offs = vfs.ReadvRequest._deserialise_offsets(None, joined)
            if offs != m.readv:
                _fail(sim, "request_mismatch", m, "readv", f"server decoded readv offsets {offs[:6]!r}..., client encoded {m.readv[:6]!r}...")
            if joined != want:
                _fail(sim, "request_mismatch", m, "readv_bytes", f"readv body differs at byte {_first_diff(joined, want)}")
        elif m.body is not None:
            if joined != m.body:
                _fail(sim, "request_mismatch", m, "body", f"server decoded a body of {len(joined)} bytes, client encoded {len(m.body)}; first difference at byte {_first_diff(joined, m.body)}: got {_short(joined)} want {_short(m.body)}")
            if m.v == 3 and chunks != [m.body]:
                _fail(sim, "request_mismatch", m, "body_parts", f"v3 body arrived as {len(chunks)} parts")
        elif m.stream is not None:
            if chunks != m.stream:
                _fail(sim, "request_mismatch", m, "stream_chunks", f"server decoded stream chunks {[_short(c, 20) for c in chunks]!r}, client encoded {[_short(c, 20) for c in m.stream]!r}")
            if m.stream_raises:
                sim.probe("error_mid_stream")
                sim.probe("error_mid_request_stream")
                if not outcome.get("stream_abort"):
                    _fail(sim, "request_mismatch", m, "stream_error_not_raised", "the client encoder swallowed the error raised by the body stream")
                errs = [e[1] for e in self.wire.server_events if e[0] == "post_body_error" and e[2] == (0, self.sent.index(m))]
                if errs != [(b"error",)]:
                    _fail(sim, "request_mismatch", m, "stream_error", f"server saw post-body errors {errs!r}, client sent ('error',)")
        elif chunks:
            _fail(sim, "request_mismatch", m, "spurious_body", f"server saw body parts {chunks!r} for a request without body")
        if m.req_headers is not None:
            hs = [e[1] for e in self.wire.server_events if e[0] == "headers" and e[2] == (0, self.sent.index(m))]
            if hs != [m.req_headers]:
                _fail(sim, "request_mismatch", m, "headers", f"server decoded headers {hs!r}, client sent {m.req_headers!r}")

    def check_client_side(self, m, got, handler):
        import breezy

        sim = self.sim
        r = m.resp
        if r.get("unknown"):
            if got.get("unknown") != m.verb:
                _fail(sim, "response_mismatch", m, "unknown_method", f"expected UnknownSmartMethod({m.verb!r}), client decoded {got!r}")
            sim.probe("unknown_method")
            return
        if m.v == 3 and getattr(handler, "headers", None) != {b"Software version": breezy.__version__.encode("utf-8")}:
            _fail(sim, "response_mismatch", m, "headers", f"client decoded response headers {getattr(handler, 'headers', None)!r}")
        if not r["ok"]:
            if got.get("error") != r["args"]:
                _fail(sim, "response_mismatch", m, "error_args", f"server sent failure {r['args']!r}, client decoded {got!r}")
            sim.probe("failed_response")
            return
        if "args" not in got or tuple(got["args"]) != r["args"]:
            _fail(sim, "response_mismatch", m, "args", f"server sent args {r['args']!r}, client decoded {({k: _short(v) for k, v in got.items()})!r}")
        shape = r["shape"]
        how = m.read
        if shape == "none":
            if how in ("body", "late_body") and got.get("body") != b"":
                _fail(sim, "response_mismatch", m, "spurious_body", f"client decoded body {_short(got.get('body'))} from a response without body")
            if how == "stream" and got.get("chunks") != []:
                _fail(sim, "response_mismatch", m, "spurious_chunks", f"client decoded chunks {got.get('chunks')!r} from a response without body")
        elif shape == "body":
            want = r["body"]
            if how == "stream":
                if b"".join(got.get("chunks", [])) != want or len(got["chunks"]) != 1:
                    _fail(sim, "response_mismatch", m, "body_as_stream", f"client decoded parts {[_short(c, 20) for c in got.get('chunks', [])]!r}, server sent one body of {len(want)} bytes")
            elif got.get("body") != want:
                g = got.get("body") or b""
                _fail(sim, "response_mismatch", m, "body", f"server sent a body of {len(want)} bytes, client decoded {len(g)}; first difference at byte {_first_diff(g, want)}: got {_short(g)} want {_short(want)}")
        else:
            want = r["chunks"]
            if how == "body":
                if got.get("body") != b"".join(want):
                    _fail(sim, "response_mismatch", m, "stream_as_body", "joined stream differs")
                return
            chunks = list(got.get("chunks", []))
            err = r.get("err")
            got_err = None
            if err is not None:
                sim.probe("error_mid_stream")
                sim.probe("error_mid_response_stream")
                if m.v == 2:
                    from breezy.bzr.smart import request

                    if chunks and isinstance(chunks[-1], request.FailedSmartServerResponse):
                        got_err = tuple(chunks.pop().args)
                else:
                    got_err = got.get("stream_error")
            if any(not isinstance(c, bytes) for c in chunks) or chunks != want:
                _fail(sim, "response_mismatch", m, "stream_chunks", f"server streamed {[_short(c, 20) for c in want]!r}, client decoded {[_short(c, 20) for c in chunks]!r}")
            if got_err != err:
                _fail(sim, "response_mismatch", m, "stream_error", f"server ended the stream with error {err!r}, client decoded {got_err!r}")
            if err is None and "stream_error" in got:
                _fail(sim, "response_mismatch", m, "spurious_stream_error", f"client raised {got['stream_error']!r}")

    # -- decoders driven directly (paths no medium consumes: unused_data of body decoders) ------
    def direct(self, m):
        from breezy.bzr.smart import message, protocol, request

        sim = self.sim
        op = m.op
        dec_kind = op["dec"]
        out = []
        body = blob(op.get("body"))
        chunks = [blob(c) for c in op["stream"]] if op.get("stream") is not None else None
        err = tuple(blob(a) for a in op["err"]) if op.get("err") else None
        args = tuple(blob(a) for a in op.get("args", []))
        tail = blob(op.get("tail")) or b""
        stream = None
        if chunks is not None:
            stream = list(chunks) + ([request.FailedSmartServerResponse(err)] if err is not None else [])
        if dec_kind == "length":
            out.append(protocol.SmartProtocolBase()._encode_bulk_data(body))
            dec = protocol.LengthPrefixedBodyDecoder()
            direction = "body"
        elif dec_kind == "chunked":
            protocol._send_stream(iter(stream), out.append)
            dec = protocol.ChunkedBodyDecoder()
            direction = "body"
        else:
            protocol.ProtocolThreeResponder(out.append).send_response(request.SuccessfulSmartServerResponse(args, body, iter(stream) if stream is not None else None))

            class Rec(message.MessageHandler):
                def __init__(self):
                    message.MessageHandler.__init__(self)
                    self.parts = []

                def byte_part_received(self, byte):
                    self.parts.append(("o", byte))

                def bytes_part_received(self, data):
                    self.parts.append(("b", data))

                def structure_part_received(self, structure):
                    self.parts.append(("s", structure))

                def end_received(self):
                    self.parts.append(("e",))

            rec = Rec()
            dec = protocol.ProtocolThreeDecoder(rec, expect_version_marker=True)
            direction = "resp"
        encoded = b"".join(out)
        pipe = SimPipe(sim, f"dec{m.opid}", self.strict, direction=direction)
        pipe.reader_site = lambda: f"direct_{dec_kind}"
        pipe.expect(op.get("seg", {}).get("q"))
        pipe.write(encoded)
        msg = pipe.mark_end()
        if tail:
            pipe.expect({"m": "whole"})
            pipe.write(tail)
            pipe.mark_end(opaque=True)
        mode = "exact" if self.plan.get("client_read") == "exact" else "atmost"
        got_body = []
        got_chunks = []

        def drain():
            if dec_kind == "length":
                got_body.append(dec.read_pending_data())
            elif dec_kind == "chunked":
                for c in iter(dec.read_next_chunk, None):
                    got_chunks.append(c)

        def finished():
            if dec_kind == "v3":
                return dec.next_read_size() == 0
            return dec.finished_reading

        try:
            if self.strict:
                # the loop every reader in breezy runs: ask for next_read_size() bytes
                while not finished():
                    data = pipe.read(dec.next_read_size(), mode)
                    if data == b"":
                        _fail(sim, "message_end", m, f"direct_{dec_kind}:read_size_zero", "next_read_size() returned 0 (a read of 0 bytes is EOF to every caller) before the message was complete")
                    dec.accept_bytes(data)
                    drain()
                if pipe.rpos != msg.end:
                    _fail(sim, "message_end", m, f"direct_{dec_kind}:finished_early", f"decoder reported completion at offset {pipe.rpos} of {msg.end}")
            else:
                # a socket-like reader: whatever arrived is handed to the decoder, also past the end
                while pipe.in_flight():
                    dec.accept_bytes(pipe.read(MAXCHUNK, "atmost"))
                    drain()
        except (AssertionError, ValueError, TypeError, struct.error, IndexError, request.errors.BzrError, protocol.transport_errors.TransportError) as e:
            if sim.violation is not None:
                raise sim.violation from None
            _fail(sim, "decode_failed", m, f"direct_{dec_kind}:{type(e).__name__}", f"decoder raised {type(e).__name__}: {str(e)[-500:]}")
        if not finished():
            _fail(sim, "message_end", m, f"direct_{dec_kind}:not_finished", "all bytes of the message were delivered but the decoder does not report completion")
        if not self.strict and dec.unused_data != tail:
            _fail(sim, "excess_lost", m, f"direct_{dec_kind}:unused_data", f"{len(tail)} bytes followed the message: {_short(tail)}; decoder.unused_data is {_short(dec.unused_data)}")
        if tail:
            sim.probe("direct_tail_checked")
        if dec_kind == "length":
            g = b"".join(got_body)
            if g != body:
                _fail(sim, "response_mismatch", m, "direct_length:body", f"decoded {len(g)} bytes, encoded {len(body)}; first difference at {_first_diff(g, body)}")
        elif dec_kind == "chunked":
            got_err = None
            if got_chunks and isinstance(got_chunks[-1], request.FailedSmartServerResponse):
                got_err = tuple(got_chunks.pop().args)
            if got_chunks != chunks or got_err != err:
                _fail(sim, "response_mismatch", m, "direct_chunked:chunks", f"decoded {[_short(c, 20) for c in got_chunks]!r} err {got_err!r}, encoded {[_short(c, 20) for c in chunks]!r} err {err!r}")
            if err is not None:
                sim.probe("error_mid_stream")
        else:
            import breezy

            want = [("o", b"S"), ("s", args)]
            if body is not None:
                want.append(("b", body))
            elif chunks is not None:
                want += [("b", c) for c in chunks]
                if err is not None:
                    want += [("o", b"E"), ("s", err)]
                    sim.probe("error_mid_stream")
            want.append(("e",))
            if rec.parts != want or rec.headers != {b"Software version": breezy.__version__.encode("utf-8")}:
                _fail(sim, "response_mismatch", m, "direct_v3:parts", f"decoded parts {[(p[0], _short(p[1], 20) if len(p) > 1 else None) for p in rec.parts]!r}, encoded {[(p[0], _short(p[1], 20) if len(p) > 1 else None) for p in want]!r}")
        sim.probe(f"direct_{dec_kind}")
        if msg.splits >= 1:
            self.nontrivial = True
            sim.probe("messages_split_inside")
        sim.state_seen(("direct", dec_kind, tuple(sorted(msg.cats)), bool(tail)))

    # -- driver -----------------------------------------------------------------------------------
    def run(self):
        ops = self.plan["ops"]
        models = []
        for i, op in enumerate(ops):
            m = MWire(op, i)
            models.append(m)
            if op["kind"] not in ("hello", "real_get", "real_readv", "unknown", "direct"):
                self.wire.scripts[str(i).encode()] = op["resp"]
        i = 0
        while i < len(models):
            j = i + 1
            if models[i].op["kind"] == "direct":
                self.direct(models[i])
                i = j
                continue
            while j < len(models) and models[j].op.get("pl") and models[j].op["kind"] != "direct" and not self.strict:
                j += 1
            if j - i == 1:
                self.exchange(models[i])
            else:
                self.pipelined(models[i:j])
            i = j
        # nothing may be left over on either side
        conn = self.conn
        if conn.c2s.in_flight() or conn.server_pushback():
            self.sim.fail("message_end", ["message_end", "leftover_request_bytes"], f"{conn.c2s.in_flight()} request bytes never read, {conn.server_pushback()} bytes left in the server's push-back buffer")
        if conn.s2c.in_flight() or self.medium._push_back_buffer:
            self.sim.fail("message_end", ["message_end", "leftover_response_bytes"], f"{conn.s2c.in_flight()} response bytes never read, push-back {self.medium._push_back_buffer!r}")
        self.sim.nontrivial = self.nontrivial


def run_plan(sim, plan, strict):
    Runner(sim, plan, strict).run()
