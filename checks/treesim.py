"""treesim — the working-tree world (DESIGN.md section 4, "T").

* `MTree`: abstract model of a versioned file system: a *disk* layer (path -> kind /
  bytes or link target / exec bit), a *versioned* layer (path -> file id + the kind the
  tree recorded when it last looked), a *basis* (last committed snapshot) and the list of
  committed snapshots.  No breezy imports.  Two flavours: "bzr" (file ids, versioned
  directories) and "git" (path identity, directories exist only through their files).
* real-tree helpers: `make_tree`, `open_tree`, `reopen`, `disk_snapshot`,
  `tree_snapshot`, `observe`, `normalise_changes`.
* workload: `gen_ops(rng, model, n, weights)` (pure, model guided) and
  `apply_op(tree, model, op)`.
* `MTree.classify(op)` -> "ok" | "error" (must be refused, nothing changes) | "skip" (the
  model declines: outcome decided by conflict resolution / heuristics, or a GUARDS entry).
  `GUARDS` lists states/operations that hit defects already reported; `fail()` gives
  failures inside such a territory (guard lifted) the signature
  [property, "known-defect", guard]; `lifted_guards(prop)` reads known_findings.json.
* two writers: `gen_writers(rng, model, names)` (independent operations for two actors),
  `install_index_seam()` (scheduling points at the git index file operations).
* determinism helpers: `install_order_pin` (see there), `relativise_log` (scratch paths and random name parts out of the
  event log), `settle_randomness`, `quiet`.

Conventions: paths are tree-relative, "/"-separated, "" is the root.  File contents are
`content(n)`: the n of every write in a run is unique, hence every rewrite changes the
length of the file (DESIGN.md section 8, dirstate stat cache).  Symlink targets never
resolve to anything (no code path may follow them into another part of the tree).
"""

import os
import posixpath
import shutil
import stat

CONTROL = {"bzr": ".bzr", "git": ".git"}
ROOT_ID = b"tree-root"
FILE, DIR, LINK = "file", "directory", "symlink"


def content(n):
    return b"v%d\n" % n + b"#" * n


def link_target(n):
    return "nowhere-%d" % n


def inside(d, p):
    """p is d or below d."""
    return d == "" or p == d or p.startswith(d + "/")


def strictly_inside(d, p):
    return p != d and inside(d, p)


def parent(p):
    return posixpath.dirname(p)


def ancestors(p):
    out = []
    while p:
        p = parent(p)
        out.append(p)
    return out


def ignored(p):
    """Default user ignore rules that can match a generated name (backup files)."""
    return posixpath.basename(p).endswith("~")


class Unmodelled(Exception):
    """The model declines to predict this operation in this state.  `guard`: the entry of
    GUARDS that is the reason (None: the outcome is simply not modelled)."""

    def __init__(self, guard=None):
        Exception.__init__(self, guard)
        self.guard = guard


# --------------------------------------------------------------------------------------
# the model
# --------------------------------------------------------------------------------------


# States / operations that run into defects already reported for the code under test.
# While a guard is on, the generator and the executor stay out of that state, so that the
# rest of the space is explored; runs with the guard off reproduce the finding.
GUARDS = {
    # git: a tracked path below something that is a plain file now makes every
    # status / iter_changes raise NotADirectoryError (snapshot_workingtree -> _live_entry)
    "git_enotdir": True,
    # bzr: when a versioned directory with versioned children has been replaced by a file or
    # symlink, the first status refresh re-types its dirstate entry and the children vanish
    # from the working inventory (but not from dirstate iter_changes): the set of versioned
    # paths changes without any operation, generic and dirstate comparisons disagree, and
    # revert raises NoSuchFile
    "bzr_dir_replaced": True,
    # bzr: iter_changes restricted to a path below something that is a plain file now
    # raises AssertionError("lstat(...): Not a directory") from the dirstate code (commit
    # and revert of selected files, status of selected files)
    "bzr_enotdir_filter": True,
    # bzr: DirStateWorkingTree.unversion([d]) compares a byte with a str
    # (block[0][len(path)] == "/"), so only d's own dirblock is dropped: entries in
    # subdirectories of d (d/sub/f) stay in the dirstate without a parent (_validate fails,
    # iter_changes: AssertionError 'Could not find target parent in wt')
    "bzr_unversion_nested": False,  # fixed in /repo b6f3490: territory always explored
    # bzr: revert that re-creates a removed (unversioned) directory and has to move a still
    # versioned entry back into it raises DuplicateKey (the directory is versioned once by
    # _alter_files and once more by resolve_unversioned_parent)
    "bzr_revert_removed_parent": True,
    # bzr: add of a path whose parent directory was unversioned (remove --keep) but is still
    # in the basis is accepted: the dirstate then holds an entry without a parent
    # (_validate fails, inventory and iter_changes disagree)
    "bzr_add_under_removed_parent": True,
    # bzr (C10): with a path filter, InterDirStateTree does not report an unversioned path
    # that is named by the filter when the same path is versioned in the basis (removed with
    # --keep); without a filter, and in the generic implementation, it is reported
    "bzr_filter_unversioned_at_removed": True,
    # bzr (C10): InterCHKRevisionTree with include_unchanged reports (new path, new path)
    # for an unchanged entry below a renamed directory; the generic code reports its old path
    "chk_unchanged_old_path": True,
    # bzr (C10): with a path filter and chained renames (b -> e while e -> d) the generic
    # InterInventoryTree looks up more related paths in the target than in the source and
    # reports the entry whose source side it did not load as (old path known, not versioned
    # in the source); InterDirStateTree reports the rename
    "generic_filter_half_record": True,
    # bzr (C10): filter on an unchanged file below a renamed directory, include_unchanged:
    # the generic code also reports the renamed parent, InterDirStateTree does not (without
    # include_unchanged neither reports it)
    "filter_unchanged_parent": True,
    # bzr (C10, also visible as partial commits / reverts that take in more than selected):
    # with a path filter, InterDirStateTree follows paths rather than ids and also reports
    # real changes of entries that merely sit (in either tree) at or around a path related to
    # a selected entry - e.g. the old occupant of a selected entry's new path, or a new
    # directory (and its children) that took over the old path of a renamed parent; the
    # generic code selects by id and does not report them
    "dirstate_filter_overinclusion": True,
    # bzr: with a path filter, entries are reported more than once: InterDirStateTree yields
    # entries below the OLD path of a renamed directory two or three times (revert of such
    # paths then raises FileExistsError / DuplicateKey: same trans id handled twice); the
    # generic code and InterCHKRevisionTree re-emit, from _handle_precise_ids, an already
    # reported entry that sat in the source at the path of a reported entry's new parent
    # (old ids are added after the "don't emit twice" subtraction)
    "bzr_filter_duplicates": True,
    # git: a commit whose changes name one path twice - as the source of a guessed copy /
    # rename and as a path that stays (modified file + new file with its old content), or a
    # file <-> symlink kind change (reported as delete + add) - records the right tree but
    # drops the path from the index (MutableGitIndexTree.update_basis_by_delta)
    "git_commit_path_reuse": True,
    # git: revert that has to re-create a file inside a directory which still exists on
    # disk but holds no tracked file any more raises KeyError (resolve_duplicate ->
    # cancel_creation of the existing directory)
    "git_revert_untracked_dir": True,
    # git: GitRevisionTree.is_versioned / has_filename of a path below something that is a
    # file in that revision raises dulwich NotTreeError (only NoSuchFile is handled);
    # rename_one(after) / the "already moved" mode ask the basis tree about the target
    "git_basis_lookup_below_blob": False,  # fixed in /repo 08bff96: territory always explored
}


def active_guards():
    """Guards of defects that are still open (a fixed defect has its entry set to False: its
    former territory is ordinary ground, explored and judged like everything else)."""
    return {g for g, on in GUARDS.items() if on}


class MTree:
    def __init__(self, flavour, unguarded=()):
        self.flavour = flavour
        self.guards = {g for g, on in GUARDS.items() if on and g not in unguarded}
        self.disk = {}  # path -> (kind, data, exec)
        # path -> (file_id | None, recorded kind).  bzr: includes "" and directories.
        # git: only non-directories (the index).
        self.inv = {}
        # path -> (file_id | None, kind, data, exec).  bzr: incl. "" and dirs; git: files/links
        self.basis = {}
        self.revs = []  # [(revid, basis snapshot)]
        if flavour == "bzr":
            self.inv[""] = (ROOT_ID, DIR)

    # -- copying / identity -----------------------------------------------------------
    def copy(self):
        m = MTree.__new__(MTree)
        m.flavour = self.flavour
        m.guards = self.guards
        m.disk = dict(self.disk)
        m.inv = dict(self.inv)
        m.basis = dict(self.basis)
        m.revs = list(self.revs)
        return m

    def digest(self):
        return (
            self.flavour,
            tuple(sorted(self.disk.items())),
            tuple(sorted(self.inv.items())),
            tuple(sorted(self.basis.items())),
            len(self.revs),
        )

    # -- disk layer --------------------------------------------------------------------
    def dkind(self, p):
        if p == "":
            return DIR
        n = self.disk.get(p)
        return n[0] if n else None

    def can_create(self, p):
        return p != "" and p not in self.disk and self.dkind(parent(p)) == DIR

    def disk_below(self, d):
        return [p for p in self.disk if strictly_inside(d, p)]

    def disk_remove(self, p):
        for q in self.disk_below(p):
            del self.disk[q]
        self.disk.pop(p, None)

    def disk_move(self, a, b):
        moved = {}
        for q in [a] + self.disk_below(a):
            moved[b + q[len(a):]] = self.disk.pop(q)
        self.disk.update(moved)

    def backup_name(self, p):
        n = 1
        while True:
            cand = "%s.~%d~" % (p, n)
            node = self.disk.get(cand)
            # transport.has follows symlinks; ours dangle
            if node is None or node[0] == LINK:
                return cand
            n += 1

    # -- versioned layer -----------------------------------------------------------------
    def versioned_paths(self):
        if self.flavour == "bzr":
            return set(self.inv)
        out = {""}
        for p in self.inv:
            out.add(p)
            out.update(ancestors(p))
        return out

    def is_versioned(self, p):
        if p in self.inv or p == "":
            return True
        if self.flavour == "git":
            return any(strictly_inside(p, q) for q in self.inv)
        return False

    def inv_below(self, d):
        return [p for p in self.inv if strictly_inside(d, p)]

    def ids_in_use(self):
        return {e[0] for e in self.inv.values()}

    def basis_ids(self):
        return {e[0]: p for p, e in self.basis.items()}

    def inv_move(self, a, b):
        moved = {}
        for q in [a] + self.inv_below(a):
            if q in self.inv:
                moved[b + q[len(a):]] = self.inv.pop(q)
        self.inv.update(moved)

    def unversion(self, p):
        for q in self.inv_below(p):
            del self.inv[q]
        self.inv.pop(p, None)

    def regular_below(self, p):
        """Every versioned entry at/below p is on disk with the recorded kind, and (git) no
        index entry has turned into a directory."""
        for q in [p] + self.inv_below(p):
            if q not in self.inv:
                continue
            if self.dkind(q) != self.inv[q][1]:
                return False
        return True

    # -- derived observables ---------------------------------------------------------------
    def extras(self):
        out = set()
        if self.flavour == "bzr":
            for d, (_fid, ikind) in self.inv.items():
                if ikind != DIR or self.dkind(d) != DIR:
                    continue
                for q in self.disk:
                    if parent(q) == d and q != "" and q not in self.inv:
                        out.add(q)
        else:
            for q, node in self.disk.items():
                if node[0] != DIR and q not in self.inv:
                    out.add(q)
        return out

    def unknowns(self):
        return {p for p in self.extras() if not ignored(p)}

    def optional_record(self, want_unversioned):
        """Predicate over normalised change records the oracle takes no position on."""
        if self.flavour == "bzr":
            return lambda r: r[0] == "u" and self.optional_unversioned(r[1])
        if not want_unversioned:
            return None
        # git, want_unversioned: a path removed from the index but kept on disk is part of
        # both snapshots, so neither its removal nor the unversioned file is reported
        kept = {p for p in self.basis if p not in self.inv and self.dkind(p) not in (None, DIR)}
        return lambda r: r[1] in kept

    def optional_unversioned(self, p):
        """bzr: p lies below a versioned entry that was recorded as a non-directory and is a
        directory now.  extras() does not look into it (it walks recorded directories),
        iter_changes(want_unversioned) does; the property does not say which is right."""
        if self.flavour != "bzr":
            return False
        return any(a in self.inv and self.inv[a][1] != DIR and self.dkind(a) == DIR for a in ancestors(p) if a)

    def _parent_id(self, layer, p):
        if p == "":
            return None
        e = layer.get(parent(p))
        return e[0] if e else None

    def changes(self, include_unchanged=False, want_unversioned=False, basis=None):
        """Expected normalised iter_changes(basis -> working tree) (see normalise_changes)."""
        basis = self.basis if basis is None else basis
        out = set()
        if self.flavour == "bzr":
            old = {e[0]: (p,) + tuple(e[1:]) for p, e in basis.items()}
            new = {e[0]: p for p, e in self.inv.items()}
            for fid in set(old) | set(new):
                if fid in old:
                    opath, okind, odata, oexec = old[fid]
                    oparent = self._parent_id(basis, opath)
                else:
                    opath = okind = odata = oparent = None
                    oexec = False
                npath = new.get(fid)
                if npath is not None:
                    nkind, ndata, nexec = self.disk.get(npath) or (None, None, False)
                    if npath == "":
                        nkind = DIR
                    nparent = self._parent_id(self.inv, npath)
                else:
                    nkind = ndata = nparent = None
                    nexec = False
                changed = okind != nkind or (okind in (FILE, LINK) and odata != ndata)
                moved = (
                    fid in old
                    and npath is not None
                    and (oparent != nparent or posixpath.basename(opath) != posixpath.basename(npath))
                )
                differs = changed or (fid in old) != (npath is not None) or moved or bool(oexec) != bool(nexec)
                if differs or include_unchanged:
                    out.add(("v", opath, npath, changed, fid in old, npath is not None, okind, nkind, bool(oexec), bool(nexec)))
        else:
            for p in set(basis) | set(self.inv):
                o = basis.get(p)
                ostate = (o[1], bool(o[3])) if o else None
                odata = o[2] if o else None
                if p in self.inv:
                    node = self.disk.get(p)
                    if node is None or node[0] == DIR:
                        # missing, or an index entry that became a directory: reported as
                        # missing, as removed or as an (untracked) directory
                        nstate, ndata = None, None
                    else:
                        nstate, ndata = (True, node[0], bool(node[2])), node[1]
                else:
                    nstate, ndata = None, None
                if ostate is None and nstate is None:
                    continue
                same = ostate is not None and nstate is not None and ostate == nstate[1:] and odata == ndata
                if same and not include_unchanged:
                    continue
                out.add(("p", p, ostate, nstate, not same))
        if want_unversioned:
            for p in self.extras():
                out.add(("u", p, self.disk[p][0]))
        return out

    # -- classification + application of operations ---------------------------------------------
    # classify(op) -> "ok" | "error" | "skip";  apply(op) mutates (only for "ok").

    def classify(self, op):
        return self.classify_ex(op)[0]

    def classify_ex(self, op):
        """(classification, guard that caused a 'skip' or None)."""
        try:
            m = self.copy()
            r = m._do(op)
            if r == "ok":
                g = m.guarded_state()
                if g:
                    return "skip", g
            return r, None
        except Unmodelled as e:
            return "skip", e.guard

    def territory(self, op):
        """Name of the reported defect (GUARDS entry) that `op` runs into from this state,
        or None: what the same model with every guard on would refuse to predict."""
        m = self.copy()
        m.guards = active_guards()
        r, g = m.classify_ex(op)
        return g if r == "skip" else None

    def territory_state(self):
        """The reported defect whose (guarded) STATE the model is in right now, or None."""
        m = self.copy()
        m.guards = active_guards()
        return m.guarded_state()

    def dir_replaced(self):
        """bzr: some versioned directory with versioned children is a file / symlink now."""
        if self.flavour != "bzr":
            return False
        return any(q and e[1] == DIR and self.dkind(q) in (FILE, LINK) and self.inv_below(q) for q, e in self.inv.items())

    def usable_filter(self, paths):
        """The part of a path filter that does not run into a guarded defect: a filter path
        is dropped when it, or a path related to it through renames, or anything versioned
        below those, lies below something that is a plain file on disk now."""
        if not (self.flavour == "bzr" and "bzr_enotdir_filter" in self.guards):
            return list(paths)
        bids = self.basis_ids()
        wids = {e[0]: q for q, e in self.inv.items()}
        out = []
        for s in paths:
            reach = {s}
            grew = True
            while grew:
                grew = False
                for fid in set(bids) | set(wids):
                    ps = [x for x in (bids.get(fid), wids.get(fid)) if x is not None]
                    if any(inside(r, x) for r in reach for x in ps):
                        for x in ps:
                            if x not in reach:
                                reach.add(x)
                                grew = True
            if any(self.dkind(a) == FILE for r in reach for a in ancestors(r) if a):
                continue
            out.append(s)
        return out

    def guarded_state(self):
        if "git_enotdir" in self.guards and self.flavour == "git":
            for p in self.inv:
                if any(self.dkind(a) == FILE for a in ancestors(p) if a):
                    return "git_enotdir"
        if "bzr_dir_replaced" in self.guards and self.dir_replaced():
            return "bzr_dir_replaced"
        return None

    def apply(self, op):
        r = self._do(op)
        if r != "ok":
            raise AssertionError(("apply of a non-ok op", op, r))

    def _do(self, op):
        return getattr(self, "_op_" + op["o"])(op)

    # disk-only operations (performed by the "user"; never fail when generated)
    def _op_write(self, op):
        p = op["p"]
        cur = self.disk.get(p)
        if cur is None:
            if not self.can_create(p):
                raise Unmodelled()
            self.disk[p] = (FILE, content(op["n"]), False)
        elif cur[0] == FILE:
            self.disk[p] = (FILE, content(op["n"]), cur[2])
        else:
            raise Unmodelled()
        return "ok"

    def _op_mkdir_disk(self, op):
        if not self.can_create(op["p"]):
            raise Unmodelled()
        self.disk[op["p"]] = (DIR, None, False)
        return "ok"

    def _op_symlink(self, op):
        p = op["p"]
        cur = self.disk.get(p)
        if (cur is None and self.can_create(p)) or (cur is not None and cur[0] == LINK):
            self.disk[p] = (LINK, link_target(op["n"]), False)
            return "ok"
        raise Unmodelled()

    def _op_kindchange(self, op):
        p, k = op["p"], op["k"]
        cur = self.disk.get(p)
        if cur is None or cur[0] == k:
            raise Unmodelled()
        self.disk_remove(p)
        self.disk[p] = {FILE: (FILE, content(op["n"]), False), DIR: (DIR, None, False), LINK: (LINK, link_target(op["n"]), False)}[k]
        return "ok"

    def _op_rm_disk(self, op):
        if op["p"] not in self.disk:
            raise Unmodelled()
        self.disk_remove(op["p"])
        return "ok"

    def _op_chmod(self, op):
        cur = self.disk.get(op["p"])
        if cur is None or cur[0] != FILE:
            raise Unmodelled()
        self.disk[op["p"]] = (FILE, cur[1], bool(op["x"]))
        return "ok"

    # tree operations
    def _op_mkdir(self, op):
        p = op["p"]
        if p == "" or p in self.disk:
            if p != "" and self.dkind(parent(p)) == DIR:
                return "error"  # FileExists, nothing done
            raise Unmodelled()
        if self.dkind(parent(p)) != DIR:
            raise Unmodelled()
        if self.flavour == "bzr":
            par = self.inv.get(parent(p))
            if par is None or par[1] != DIR or p in self.inv:
                raise Unmodelled()  # directory would be created, then add fails / is skipped
            self.inv[p] = (op["id"].encode(), DIR)
        self.disk[p] = (DIR, None, False)
        return "ok"

    def _op_add(self, op):
        p = op["p"]
        if p == "":
            raise Unmodelled()
        if p not in self.disk:
            if self.is_versioned(p):
                raise Unmodelled()
            return "error"  # NoSuchFile
        if self.flavour == "git":
            k = self.disk[p][0]
            if k == DIR:
                raise Unmodelled()  # no-op
            if any(a in self.inv for a in ancestors(p)) or self.inv_below(p):
                raise Unmodelled()  # file/directory conflict inside the index
            self.inv[p] = (None, k)
            return "ok"
        if p in self.inv:
            raise Unmodelled()  # silently skipped
        par = self.inv.get(parent(p))
        if par is None:
            if "bzr_add_under_removed_parent" in self.guards and parent(p) in self.basis:
                raise Unmodelled("bzr_add_under_removed_parent")
            return "error"  # parent not versioned
        if par[1] != DIR:
            raise Unmodelled()
        fid = op["id"].encode()
        if fid in self.ids_in_use():
            raise Unmodelled()
        self.inv[p] = (fid, self.disk[p][0])
        return "ok"

    def smart_add_id(self, op, path):
        return ("sa%d-%s" % (op["n"], path.replace("/", "_"))).encode()

    def _op_smart_add(self, op):
        p = op["p"]
        if p != "" and p not in self.disk:
            if self.is_versioned(p):
                raise Unmodelled()
            return "error"  # NoSuchFile
        if ignored(p) or any(ignored(a) for a in ancestors(p) if a):
            raise Unmodelled()
        kids = {}
        for q in self.disk:
            kids.setdefault(parent(q), []).append(q)
        if self.flavour == "git":
            for q in list(self.inv):
                if self.dkind(q) == DIR and (inside(p, q) or inside(q, p)):
                    raise Unmodelled()  # index entry turned directory: index would hold q and q/x
            def index_add(q):
                if self.inv_below(q) or any(a in self.inv for a in ancestors(q)):
                    raise Unmodelled()  # the index would hold q and q/x
                self.inv[q] = (None, self.disk[q][0])

            if self.dkind(p) != DIR:
                if p not in self.inv:
                    index_add(p)
                return "ok"
            stack = [p]
            while stack:
                d = stack.pop()
                for c in sorted(kids.get(d, [])):
                    if ignored(c):
                        continue
                    if self.disk[c][0] == DIR:
                        stack.append(c)
                    elif c not in self.inv:
                        index_add(c)
            return "ok"
        used = self.ids_in_use()

        def version(q):
            fid = self.smart_add_id(op, q)
            if fid in used:
                raise Unmodelled()
            used.add(fid)
            self.inv[q] = (fid, self.disk[q][0])

        if p not in self.inv:
            for q in [a for a in reversed(ancestors(p)) if a] + [p]:
                if q in self.inv:
                    continue
                par = self.inv[parent(q)]
                if par[1] != DIR:
                    self.inv[parent(q)] = (par[0], DIR)  # "the kind change now"
                version(q)
        stack = [p] if self.dkind(p) == DIR else []
        while stack:
            d = stack.pop()
            if self.inv[d][1] != DIR:
                continue  # walked by recorded kind
            if self.dkind(d) != DIR:
                raise Unmodelled()  # listdir of something that is no directory any more
            for c in sorted(kids.get(d, [])):
                if c in self.inv:
                    stack.append(c)
                elif not ignored(c):
                    version(c)
                    if self.disk[c][0] == DIR:
                        stack.append(c)
        return "ok"

    def _op_remove(self, op):
        p, keep, force = op["p"], op["keep"], op["force"]
        if p == "" or not self.is_versioned(p):
            raise Unmodelled()
        if keep:
            self.unversion(p)
            return "ok"
        if not self.regular_below(p) or self.dkind(p) is None:
            raise Unmodelled()
        if force:
            self.unversion(p)
            self.disk_remove(p)
            return "ok"
        if self.flavour == "bzr":
            self._check_filter_paths([p])
        if self.flavour == "git":
            if any(q not in self.inv and self.disk[q][0] != DIR for q in [p] + self.disk_below(p)):
                raise Unmodelled()  # unversioned files below p
            added, deleted, modified = self._git_delta()
            # "changed" depends on guessed renames / copies: a new path, or one whose kind
            # changed (reported as delete + add), may be paired with a vanished or modified one
            tg = [q for q in added if inside(p, q)] + [q for q in modified if inside(p, q) and self.dkind(q) not in (None, self.basis[q][1])]
            if tg and (deleted or [q for q in modified if q not in tg]):
                raise Unmodelled()
        # not forced: what is changed or unknown is kept under a backup name
        files = sorted([q for q in [p] + self.disk_below(p) if self.is_versioned(q)], reverse=True)
        changed = set()
        bids = self.basis_ids()
        for q in files:
            if self.flavour == "bzr":
                fid = self.inv[q][0]
                b = self.basis.get(bids[fid]) if fid in bids else None
            else:
                b = self.basis.get(q)
            node = self.disk[q]
            if b is None:
                if self.flavour == "git" and node[0] == DIR:
                    continue
                changed.add(q)
                if self.flavour == "git":
                    changed.update(a for a in ancestors(q) if a)
            elif b[1] != node[0] or (node[0] in (FILE, LINK) and b[2] != node[1]) or (self.flavour == "git" and bool(b[3]) != bool(node[2])):
                changed.add(q)
                if self.flavour == "git":
                    changed.update(a for a in ancestors(q) if a)
        self.unversion(p)
        for q in files:
            node = self.disk.get(q)
            if node is None:
                raise Unmodelled()
            if self.flavour == "bzr":
                if node[0] == DIR and self.disk_below(q):
                    self.disk_move(q, self.backup_name(q))
                elif q in changed:
                    self.disk_move(q, self.backup_name(q))
                else:
                    self.disk_remove(q)
            else:
                if q in changed:
                    self.disk_move(q, self.backup_name(q))
                else:
                    self.disk_remove(q)
        return "ok"

    def _git_basis_lookup(self, b):
        if "git_basis_lookup_below_blob" in self.guards and any(x in self.basis for x in ancestors(b) if x):
            raise Unmodelled("git_basis_lookup_below_blob")

    def _op_unversion(self, op):
        """WorkingTree.unversion([p]): p and everything below stop being versioned."""
        p = op["p"]
        if p == "" or not self.is_versioned(p):
            raise Unmodelled()
        if self.flavour == "bzr" and "bzr_unversion_nested" in self.guards:
            if any(parent(q) != p for q in self.inv_below(p)):
                raise Unmodelled("bzr_unversion_nested")
        self.unversion(p)
        return "ok"

    def _rename_after(self, a, b, op):
        """rename_one / move with after=True: only the versioned layer changes; the disk is
        taken as the user left it."""
        if inside(b, a):
            raise Unmodelled()
        b_on = b in self.disk
        if self.flavour == "bzr":
            if a not in self.inv:
                if a in self.basis:
                    raise Unmodelled()  # rename_one resurrects basis entries
                return "error"
            par = self.inv.get(parent(b))
            if par is not None and par[1] != DIR:
                raise Unmodelled()
            replace = False
            if b in self.inv:
                # allowed only when the occupant is newly added (its file id is unknown to
                # the basis) - and never by move()
                if op["o"] == "move" or self.inv[b][0] in self.basis_ids():
                    return "error"
                replace = True
            if not b_on:
                return "error"  # "New file has not been created yet"
            if par is None:
                return "error"  # target directory is not versioned
            if replace:
                self.unversion(b)
            self.inv_move(a, b)
            return "ok"
        # git: the index entry is re-created from what is on disk at the target
        if a not in self.inv:
            raise Unmodelled()  # accepted silently (the missing index entry is ignored)
        if not b_on:
            return "error"
        self._git_basis_lookup(b)
        if b in self.basis or any(strictly_inside(b, q) for q in self.basis):
            return "error"  # AlreadyVersioned, decided by path in the basis
        if self.dkind(b) == DIR or self.dkind(parent(b)) != DIR:
            raise Unmodelled()
        if any(x in self.inv for x in ancestors(b)) or self.inv_below(b):
            raise Unmodelled()  # the index would hold b and b/x
        del self.inv[a]
        self.inv[b] = (None, self.dkind(b))
        return "ok"

    def _rename(self, a, b, op):
        if a == "" or b == "" or inside(a, b):
            raise Unmodelled()
        if op.get("after"):
            return self._rename_after(a, b, op)
        a_on, b_on = a in self.disk, b in self.disk
        if self.flavour == "bzr":
            if a not in self.inv:
                if a in self.basis:
                    raise Unmodelled()  # rename_one resurrects basis entries
                return "error"
            if b in self.inv:
                return "error"
            par = self.inv.get(parent(b))
            if par is None:
                if self.dkind(parent(b)) != DIR:
                    raise Unmodelled()
                return "error"
            if par[1] != DIR or self.dkind(parent(b)) != DIR:
                raise Unmodelled()
            if a_on and b_on:
                return "error"
            if not a_on and not b_on:
                return "error"
            if a_on:
                self.disk_move(a, b)
            self.inv_move(a, b)
            return "ok"
        # git
        if not self.is_versioned(a):
            if self.dkind(a) == DIR or not a_on:
                raise Unmodelled()
            if self.is_versioned(b) or b_on or self.dkind(parent(b)) != DIR:
                raise Unmodelled()
            return "error"
        if self.is_versioned(b):
            return "error"
        if self.dkind(parent(b)) != DIR:
            raise Unmodelled()
        if a_on and b_on:
            return "error"
        if not a_on and not b_on:
            return "error"
        if not self.regular_below(a):
            raise Unmodelled()
        if any(x in self.inv for x in ancestors(b)):
            raise Unmodelled()
        if not a_on:
            self._git_basis_lookup(b)
            # already moved by the user: only simple files are modelled
            if a not in self.inv or self.dkind(b) == DIR or b in self.basis or any(strictly_inside(b, q) for q in self.basis):
                raise Unmodelled()
            del self.inv[a]
            self.inv[b] = (None, self.dkind(b))
            return "ok"
        self.disk_move(a, b)
        self.inv_move(a, b)
        return "ok"

    def _op_rename(self, op):
        return self._rename(op["p"], op["to"], op)

    def _op_move(self, op):
        a, d = op["p"], op["to"]
        if self.dkind(d) != DIR:
            raise Unmodelled()
        if self.flavour == "bzr":
            e = self.inv.get(d)
            if e is None:
                return "error" if a in self.inv or a not in self.basis else "skip"
            if e[1] != DIR:
                raise Unmodelled()
        return self._rename(a, posixpath.join(d, posixpath.basename(a)) if d else posixpath.basename(a), op)

    def _check_filter_paths(self, sel):
        if len(self.usable_filter(sel)) != len(sel):
            raise Unmodelled("bzr_enotdir_filter")

    def _selection_closed(self, chosen, bids, wids):
        """A path filter selects more than the entries below the given paths: whatever else
        sits (in either tree) at a path of a selected entry, and every changed parent of a
        selected entry.  The model only predicts selections that need none of that."""
        if "bzr_filter_duplicates" in self.guards:
            if any(f in bids and f in wids and bids[f] != wids[f] for f in chosen):
                raise Unmodelled("bzr_filter_duplicates")
        related = [bids[f] for f in chosen if f in bids] + [wids[f] for f in chosen if f in wids]
        for fid in (set(bids) | set(wids)) - chosen:
            for q in ([bids[fid]] if fid in bids else []) + ([wids[fid]] if fid in wids else []):
                if any(inside(r, q) for r in related):
                    raise Unmodelled()
        for fid in chosen:
            if fid not in wids:
                continue
            for a in ancestors(wids[fid]):
                afid = self.inv[a][0]
                if afid in chosen:
                    continue
                if bids.get(afid) != a or self.dkind(a) != DIR or self.basis[a][1] != DIR:
                    raise Unmodelled()

    def _git_delta(self):
        """(added, deleted, modified) paths of the index against the basis."""
        added = [q for q in self.inv if q not in self.basis and self.dkind(q) not in (None, DIR)]
        deleted = [q for q in self.basis if q not in self.inv]
        modified = []
        for q in self.inv:
            if q in self.basis:
                node = self.disk.get(q)
                b = self.basis[q]
                if node is None or (node[0], node[1], bool(node[2])) != (b[1], b[2], bool(b[3])):
                    modified.append(q)
        return added, deleted, modified

    # -- commit ------------------------------------------------------------------------------
    def _wt_entry(self, p):
        """Committable state of versioned path p, or None when it is missing."""
        node = self.disk.get(p) if p else (DIR, None, False)
        if node is None:
            return None
        return (self.inv[p][0], node[0], node[1], bool(node[2]) if node[0] == FILE else False)

    def _op_commit(self, op):
        sel = op.get("paths")
        if self.flavour == "git":
            if any(self.dkind(q) == DIR for q in self.inv):
                raise Unmodelled()
            if sel is not None:
                for s in sel:
                    if not self.is_versioned(s) and not any(inside(s, q) for q in self.basis):
                        raise Unmodelled()  # accepted silently; nothing says it must be refused
            added, deleted, modified = self._git_delta()
            if sel is not None and added and (deleted or modified):
                raise Unmodelled()  # guessed renames / copies pull paths outside the selection in
            if sel is not None:
                for q in self.inv:
                    if any(inside(s, q) for s in sel) and any(a in self.basis for a in ancestors(q) if a):
                        raise Unmodelled()  # a selected path turns an unselected file of the basis into a directory
            if "git_commit_path_reuse" in self.guards:
                if added and modified:
                    raise Unmodelled("git_commit_path_reuse")
                basis_dirs = {a for q in self.basis for a in ancestors(q) if a}
                if any(q in basis_dirs for q in added):
                    raise Unmodelled("git_commit_path_reuse")  # directory of the basis replaced by a file
                for q in self.inv:
                    if q in self.basis and self.dkind(q) not in (None, self.basis[q][1]):
                        raise Unmodelled("git_commit_path_reuse")
            new = {}
            for q, e in self.basis.items():
                if sel is not None and not any(inside(s, q) for s in sel):
                    new[q] = e
            for q in list(self.inv):
                if sel is None or any(inside(s, q) for s in sel):
                    ent = self._wt_entry(q)
                    if ent is None:
                        del self.inv[q]
                    else:
                        new[q] = ent
                        self.inv[q] = (None, ent[1])
            # a file and a directory of the same name cannot both be in a git tree
            for q in new:
                if any(a in new for a in ancestors(q) if a):
                    raise Unmodelled()
            self.basis = new
            self.revs.append((op["rev"], dict(new)))
            return "ok"
        if sel is None:
            new = {}
            for q in sorted(self.inv):
                ent = self._wt_entry(q)
                if ent is None or (q and parent(q) not in new) or (q and new[parent(q)][1] != DIR):
                    continue
                new[q] = ent
            self.inv = {q: (e[0], e[1]) for q, e in new.items()}
            self.basis = new
            self.revs.append((op["rev"], dict(new)))
            return "ok"
        for s in sel:
            if s not in self.inv and s not in self.basis:
                return "error"  # PathsNotVersionedError
        self._check_filter_paths(sel)
        bids = self.basis_ids()
        wids = {e[0]: q for q, e in self.inv.items()}
        chosen = set()
        for fid in set(bids) | set(wids):
            if any((fid in bids and inside(s, bids[fid])) or (fid in wids and inside(s, wids[fid])) for s in sel):
                chosen.add(fid)
        self._selection_closed(chosen, bids, wids)
        new = {}
        for q, e in self.basis.items():
            if e[0] not in chosen:
                new[q] = e
        gone = []
        for fid in chosen:
            if fid not in wids:
                continue
            q = wids[fid]
            ent = self._wt_entry(q)
            if ent is None:
                gone.append(q)
                continue
            if q in new:
                raise Unmodelled()  # path still taken by an entry that is not selected
            new[q] = ent
        # the result must be a tree without help from entries that were not selected
        for q, e in new.items():
            if q == "":
                continue
            par = new.get(parent(q))
            if par is None or par[1] != DIR:
                raise Unmodelled()
            if e[0] in chosen and e[0] in wids:
                want = self.inv[parent(q)][0]
            else:
                want = self.basis[parent(bids[e[0]])][0] if parent(bids[e[0]]) in self.basis else None
            if par[0] != want:
                raise Unmodelled()
        if "" not in new:
            raise Unmodelled()
        for q in gone:
            if self.inv_below(q):
                raise Unmodelled()
        for q in gone:
            del self.inv[q]
        for q, e in new.items():
            if e[0] in chosen and q in self.inv and self.inv[q][0] == e[0]:
                self.inv[q] = (e[0], e[1])
        self.basis = new
        self.revs.append((op["rev"], dict(new)))
        return "ok"

    # -- revert ------------------------------------------------------------------------------
    def _op_revert(self, op):
        sel = op.get("paths")
        if self.flavour == "git":
            return self._revert_git(sel)
        return self._revert_bzr(sel)

    def _revert_git(self, sel):
        if sel is not None:
            for s in sel:
                if not self.is_versioned(s) and not any(inside(s, q) for q in self.basis):
                    raise Unmodelled()
        if any(self.dkind(q) == DIR for q in self.inv):
            raise Unmodelled()
        # rename detection (content similarity) decides whether an added path is moved
        # back or left behind: only predictable when nothing can be paired
        added, deleted, modified = self._git_delta()
        added = [q for q in self.inv if q not in self.basis]
        if added and (deleted or modified):
            raise Unmodelled()
        # a directory of the index that is something else on disk now
        for q in self.inv:
            if any(self.dkind(a) not in (DIR, None) for a in ancestors(q) if a):
                raise Unmodelled()
        # a kind change is reported as removal + addition of the same path: the new content
        # is then kept as "<path>.moved" next to the restored one (conflict resolution)
        for q in self.inv:
            if q in self.basis and self.dkind(q) not in (None, self.basis[q][1]):
                raise Unmodelled()

        def chosen(q):
            return sel is None or any(inside(s, q) for s in sel)

        wt_dirs = {a for q in self.inv for a in ancestors(q) if a}
        for q in added:
            if not chosen(q):
                continue
            node = self.disk.get(q)
            del self.inv[q]
            if node is not None and node[0] == LINK:
                del self.disk[q]
        for q, e in self.basis.items():
            if not chosen(q):
                continue
            node = self.disk.get(q)
            want = (e[1], e[2], e[3])
            if q in self.inv and node is not None and (node[0], node[1], bool(node[2])) == (want[0], want[1], bool(want[2])):
                continue
            if q not in self.inv and node is not None:
                raise Unmodelled()  # an unversioned file is in the way
            if q not in self.inv and "git_revert_untracked_dir" in self.guards:
                for a in ancestors(q):
                    if a and self.dkind(a) == DIR and not self.inv_below(a):
                        raise Unmodelled("git_revert_untracked_dir")
            if node is not None and node[0] == DIR:
                raise Unmodelled()
            for a in ancestors(q):
                if a and self.dkind(a) not in (DIR, None):
                    raise Unmodelled()
            for a in reversed([a for a in ancestors(q) if a]):
                if a not in self.disk:
                    self.disk[a] = (DIR, None, False)
            self.disk[q] = want
            self.inv[q] = (None, e[1])
        # directories that existed only for added paths go away when nothing is left in them
        basis_dirs = {a for q in self.basis for a in ancestors(q) if a}
        for d in sorted(wt_dirs - basis_dirs, key=lambda x: -x.count("/")):
            if sel is not None and not any(inside(s, d) or inside(d, s) for s in sel):
                continue
            if self.dkind(d) == DIR and not self.disk_below(d):
                del self.disk[d]
        return "ok"

    def _revert_bzr(self, sel):
        if "bzr_dir_replaced" in self.guards and self.dir_replaced():
            raise Unmodelled("bzr_dir_replaced")
        bids = self.basis_ids()
        wids = {e[0]: q for q, e in self.inv.items()}
        if sel is not None:
            for s in sel:
                if s not in self.inv and s not in self.basis:
                    raise Unmodelled()
            self._check_filter_paths(sel)
            chosen = {
                fid
                for fid in set(bids) | set(wids)
                if any((fid in bids and inside(s, bids[fid])) or (fid in wids and inside(s, wids[fid])) for s in sel)
            }
            self._selection_closed(chosen, bids, wids)
        else:
            chosen = set(bids) | set(wids)
        # node tree of the disk: every node keeps its children by name
        nodes = {"": {"kind": DIR, "data": None, "exec": False, "kids": {}, "fid": ROOT_ID, "ver": True}}
        for q in sorted(self.disk):
            k, d, x = self.disk[q]
            n = {"kind": k, "data": d, "exec": x, "kids": {}, "fid": None, "ver": False}
            nodes[q] = n
            nodes[parent(q)]["kids"][posixpath.basename(q)] = n
        byid = {}
        for q, (fid, _ik) in self.inv.items():
            n = nodes.get(q)
            if n is None:
                n = {"kind": None, "data": None, "exec": False, "kids": {}, "fid": fid, "ver": True, "ghost": True}
                par = nodes.get(parent(q))
                if par is None:
                    # versioned, missing, below something missing
                    par = byid.get(self.inv[parent(q)][0]) if parent(q) in self.inv else None
                    if par is None:
                        raise Unmodelled()
                par["kids"][posixpath.basename(q)] = n
                nodes[q] = n
            n["fid"] = fid
            n["ver"] = True
            byid[fid] = n

        def detach(n):
            for m in list(nodes.values()) + list(byid.values()):
                for name, kid in list(m["kids"].items()):
                    if kid is n:
                        del m["kids"][name]

        # 1. entries that are not in the basis stop being versioned
        for fid in chosen:
            if fid in wids and fid not in bids:
                n = byid[fid]
                n["ver"] = False
                if n["kind"] in (DIR, LINK):
                    n["delete"] = True
                elif n["kind"] is None:
                    n["delete"] = True
        # 2. entries of the basis get their basis state back
        placed = []
        for fid in chosen:
            if fid not in bids:
                continue
            bp = bids[fid]
            _f, bkind, bdata, bexec = self.basis[bp]
            n = byid.get(fid)
            if n is not None and n.get("ghost") and fid in wids and self.inv[wids[fid]][1] != bkind:
                # missing on disk and recorded with another kind than in the basis (re-added
                # by hand with the old id): the recorded kind is not refreshed by revert and
                # a restored child then meets "parent is not a directory"
                raise Unmodelled()
            if n is None:
                n = {"kind": None, "data": None, "exec": False, "kids": {}, "fid": fid, "ver": True, "new": True}
                byid[fid] = n
            if n["kind"] == DIR and bkind != DIR:
                n["was_dir"] = True
            n["kind"], n["data"], n["exec"], n["ver"] = bkind, bdata, bexec, True
            placed.append((fid, bp))
        # 3. every placed entry goes under its basis parent with its basis name
        for fid, bp in placed:
            if bp == "":
                continue
            n = byid[fid]
            pfid = self.basis[parent(bp)][0]
            pn = byid.get(pfid)
            if pn is None:
                raise Unmodelled()  # parent is not part of the working tree any more
            if "bzr_revert_removed_parent" in self.guards and pn.get("new") and not n.get("new"):
                raise Unmodelled("bzr_revert_removed_parent")
            detach(n)
            name = posixpath.basename(bp)
            if name in pn["kids"]:
                raise Unmodelled()  # something else is (still) at that name
            pn["kids"][name] = n
        # 4. walk the result
        reverted = {fid for fid, _bp in placed}
        disk, inv = {}, {"": (ROOT_ID, DIR)}
        seen = set()

        def all_deleted(n):
            return all(g.get("delete") and all_deleted(g) for g in n["kids"].values())

        def walk(path, n):
            if id(n) in seen:
                raise Unmodelled()
            seen.add(id(n))
            for name in sorted(n["kids"]):
                kid = n["kids"][name]
                q = posixpath.join(path, name) if path else name
                if kid.get("delete"):
                    if not all_deleted(kid):
                        raise Unmodelled()  # directory to delete still has contents
                    continue
                if kid["kind"] is None:
                    if kid["ver"]:
                        inv[q] = (kid["fid"], dict(self.inv).get(wids.get(kid["fid"]), (None, FILE))[1])
                        if kid["kids"]:
                            walk_missing(q, kid)
                    continue
                if n["kind"] != DIR:
                    raise Unmodelled()  # child of something that is no directory
                disk[q] = (kid["kind"], kid["data"], kid["exec"])
                if kid["ver"]:
                    if not n["ver"]:
                        raise Unmodelled()
                    # recorded kind: what was reverted is as in the basis, the rest keeps
                    # what the tree had recorded
                    if kid.get("ghost") and kid["fid"] in wids:
                        # missing before the revert: the recorded kind is not refreshed
                        inv[q] = (kid["fid"], self.inv[wids[kid["fid"]]][1])
                    elif kid["fid"] in reverted or kid["fid"] not in wids:
                        inv[q] = (kid["fid"], kid["kind"])
                    else:
                        inv[q] = (kid["fid"], self.inv[wids[kid["fid"]]][1])
                walk(q, kid)

        def walk_missing(path, n):
            for name in sorted(n["kids"]):
                kid = n["kids"][name]
                q = posixpath.join(path, name)
                if kid["kind"] is not None or not kid["ver"] or kid.get("delete"):
                    if kid.get("delete"):
                        continue
                    raise Unmodelled()
                inv[q] = (kid["fid"], self.inv[wids[kid["fid"]]][1])
                walk_missing(q, kid)

        walk("", nodes[""])
        for fid, bp in placed:
            if id(byid[fid]) not in seen and bp != "":
                raise Unmodelled()
        # every versioned entry needs a versioned parent
        for q in inv:
            if q and parent(q) not in inv:
                raise Unmodelled()
        if len({e[0] for e in inv.values()}) != len(inv):
            raise Unmodelled()
        self.disk, self.inv = disk, inv
        return "ok"

    def _op_reopen(self, op):
        return "ok"

    def _op_lockcycle(self, op):
        return "ok"


class MTree1(MTree):
    """MTree that declines commits selecting more than one path.  The bytes of the pack such a
    commit writes (hence the pack's md5 name, the order of pack-names and every later index
    lookup) depend on the iteration order of a Rust HashSet in the dirstate iter_changes code,
    i.e. on hash keys drawn from the getrandom stream after process-history-dependent lazy
    initialisations: the same (seed, plan) gives different event logs in different worker
    processes (see mask_content_names).  For checks whose subject is not commit itself."""

    def copy(self):
        m = MTree.copy(self)
        m.__class__ = type(self)
        return m

    def _do(self, op):
        if op["o"] == "commit" and op.get("paths") is not None and len(op["paths"]) > 1:
            raise Unmodelled()
        return MTree._do(self, op)


def fail(sim, prop, tag, rest, detail, territory=None):
    """sim.fail with a signature that names the reported defect (GUARDS entry) whose
    territory the run has entered with that guard lifted, if any: such failures are matched
    against known_findings.json ([prop, "known-defect", guard]); everything else keeps the
    oracle's own signature."""
    prop = sim.notes.get("prop", prop)
    # most specific first: what the failing comparison itself worked out, then the guarded
    # state the model is in right now, then the first territory the run entered
    t = territory or sim.notes.get("territory_state") or sim.notes.get("territory")
    if t:
        sim.fail(tag, [prop, "known-defect", t], "[%s, in the territory of %s] %s" % (tag, t, detail))
    sim.fail(tag, [prop, tag] + list(rest), detail)


def lifted_guards(prop):
    """Guards whose defect has an open entry for `prop` in known_findings.json (signature
    [prop, "known-defect", guard, ...]): a share of the runs lifts them, so that the finding
    keeps being reproduced and reported as KNOWN-FINDING."""
    from simkit import findings

    out = set()
    for e in findings.load(prop):
        s = e.get("signature") or []
        if e.get("status") == "open" and len(s) >= 3 and s[0] == prop and s[1] == "known-defect" and s[2] in GUARDS:
            out.add(s[2])
    return sorted(out)


STATE_CHANGING = {"unversion", "write", "mkdir_disk", "symlink", "kindchange", "rm_disk", "chmod", "mkdir", "add", "smart_add", "remove", "rename", "move", "commit", "revert"}

# --------------------------------------------------------------------------------------
# workload generation (pure: uses only rng and the model)
# --------------------------------------------------------------------------------------

DEFAULT_WEIGHTS = {
    "write": 5,
    "mkdir": 2,
    "mkdir_disk": 1,
    "add": 4,
    "smart_add": 2,
    "remove": 2,
    "rename": 4,
    "move": 3,
    "rename_after": 2,
    "unversion": 2,
    "chmod": 1,
    "symlink": 1,
    "kindchange": 1,
    "rm_disk": 1,
    "commit": 3,
    "revert": 2,
    "reopen": 1,
    "lockcycle": 1,
    "illegal": 1,
}


def make_namespace(rng):
    """3-6 paths of depth <= 3, grown as a tree (every path's parent is the root or another
    path of the namespace) so that directories with several children are common."""
    names = ["a", "b", "c", "d", "e"]
    want = rng.randint(3, 6)
    out = []
    if rng.random() < 0.3:
        # a directory X and a sibling whose name has X as a prefix ("d", "d2") and which
        # holds a subdirectory with entries: trips prefix tests on paths without separator
        x = rng.choice(names)
        s, h = rng.choice(names), rng.choice(names)
        out = [x, x + "2", x + "2/" + s, x + "2/" + s + "/" + h]
        out.append(x + "/" + rng.choice(names))
        want = max(want, len(out))
    while len(out) < want:
        parents = [""] + [p for p in out if p.count("/") < 2]
        par = rng.choice(parents[-3:] if rng.random() < 0.5 else parents)
        name = rng.choice(names)
        p = par + "/" + name if par else name
        if p not in out:
            out.append(p)
    # a sibling whose name sorts between a directory and that directory's contents
    # ("d", "d-x", "d/e"): trips code that relies on sorted path order
    dirs = sorted({parent(p) for p in out if parent(p)})
    if dirs and rng.random() < 0.4:
        sib = rng.choice(dirs) + rng.choice(["-x", ".x"])
        if len(out) >= 6:
            out.remove(rng.choice([p for p in out if not any(strictly_inside(p, q) for q in out)]))
        out.append(sib)
    return sorted(out)


def minimal_filter(paths):
    """`paths` without those that lie inside another one (the same selection)."""
    ps = sorted(set(paths))
    return [p for p in ps if not any(q != p and inside(q, p) for q in ps)]


def swarm_weights(rng):
    w = {}
    for k, v in DEFAULT_WEIGHTS.items():
        w[k] = rng.choice([0, 1, 1, 2, 3]) * v if k not in ("write", "add", "commit") else rng.choice([1, 2, 3]) * v
    return w


class Gen:
    def __init__(self, rng, model, names):
        self.rng = rng
        self.m = model
        self.names = names
        self.n = 0

    def fresh(self):
        self.n += 1
        return self.n

    def pick(self, seq):
        seq = sorted(seq)
        return self.rng.choice(seq) if seq else None

    def build_step(self):
        """Create one more path of the namespace; what has descendants in the namespace
        becomes a directory most of the time."""
        m, rng = self.m, self.rng
        p = self.new_path()
        if not p:
            return None
        if any(strictly_inside(p, q) for q in self.names):
            kind = rng.choice(["mkdir", "mkdir", "mkdir_disk", "mkdir_disk", "write"])
        else:
            kind = rng.choice(["write", "write", "write", "mkdir", "mkdir_disk", "symlink"])
        if kind == "write":
            return {"o": "write", "p": p, "n": self.fresh()}
        if kind == "symlink":
            return {"o": "symlink", "p": p, "n": self.fresh()}
        if kind == "mkdir_disk":
            return {"o": "mkdir_disk", "p": p}
        return {"o": "mkdir", "p": p, "id": "d%d" % self.fresh()}

    def pick_source(self):
        """A versioned path to rename / move; directories with versioned contents are
        preferred half of the time."""
        m = self.m
        vs = [p for p in m.versioned_paths() if p]
        dirs = [p for p in vs if m.dkind(p) == DIR and any(strictly_inside(p, q) for q in m.versioned_paths())]
        big = [p for p in dirs if len(m.inv_below(p)) >= 2]
        if big and self.rng.random() < 0.6:
            return self.pick(big)
        if dirs and self.rng.random() < 0.5:
            return self.pick(dirs)
        return self.pick(vs)

    def new_path(self):
        """A namespace path that can be created on disk now (deeper ones preferred)."""
        c = [p for p in self.names if self.m.can_create(p)]
        deep = [p for p in c if "/" in p]
        return self.pick(deep if deep and self.rng.random() < 0.6 else c)

    def propose(self, kind):
        m, rng = self.m, self.rng
        if kind == "write":
            cands = [p for p in self.names if m.can_create(p) or m.dkind(p) == FILE]
            deep = [p for p in cands if "/" in p and m.can_create(p)]
            p = self.pick(deep if deep and self.rng.random() < 0.4 else cands)
            return p and {"o": "write", "p": p, "n": self.fresh()}
        if kind == "mkdir_disk":
            p = self.new_path()
            return p and {"o": "mkdir_disk", "p": p}
        if kind == "mkdir":
            p = self.new_path()
            return p and {"o": "mkdir", "p": p, "id": "d%d" % self.fresh()}
        if kind == "symlink":
            cands = [p for p in self.names if m.can_create(p) or m.dkind(p) == LINK]
            p = self.pick(cands)
            return p and {"o": "symlink", "p": p, "n": self.fresh()}
        if kind == "kindchange":
            p = self.pick([p for p in self.names if p in m.disk])
            if not p:
                return None
            k = rng.choice([k for k in (FILE, DIR, LINK) if k != m.dkind(p)])
            return {"o": "kindchange", "p": p, "k": k, "n": self.fresh()}
        if kind == "rm_disk":
            vd = [p for p in m.disk if m.is_versioned(p)]
            twins = [p for p in vd if m.dkind(p) == DIR and any(q != p and q.startswith(p) and not inside(p, q) for q in m.versioned_paths())]
            p = self.pick(twins if twins and rng.random() < 0.5 else vd or list(m.disk))
            return p and {"o": "rm_disk", "p": p}
        if kind == "chmod":
            p = self.pick([p for p in m.disk if m.dkind(p) == FILE])
            return p and {"o": "chmod", "p": p, "x": not m.disk[p][2]}
        if kind == "add":
            cands = [p for p in m.disk if p not in m.inv]
            p = self.pick(cands)
            if not p:
                return None
            n = self.fresh()
            fid = "f%d" % n
            # sometimes give a removed path its old identity back
            if m.flavour == "bzr" and p in m.basis and m.basis[p][0] not in m.ids_in_use() and rng.random() < 0.5:
                fid = m.basis[p][0].decode()
            return {"o": "add", "p": p, "id": fid}
        if kind == "smart_add":
            p = self.pick([p for p in list(m.disk) + [""] if not m.is_versioned(p) or m.dkind(p) == DIR])
            return None if p is None else {"o": "smart_add", "p": p, "n": self.fresh()}
        if kind == "remove":
            p = self.pick([p for p in m.versioned_paths() if p])
            if not p:
                return None
            keep = rng.random() < 0.5
            return {"o": "remove", "p": p, "keep": keep, "force": (not keep) and rng.random() < 0.5}
        if kind == "rename":
            a = self.pick_source()
            if not a:
                return None
            # any free name (a..e) in an existing directory, depth <= 3
            dirs = [""] + [d for d in m.disk if m.dkind(d) == DIR and d.count("/") < 2 and not inside(a, d)]
            if m.flavour == "bzr":
                dirs = [d for d in dirs if d in m.inv]
            cands = [posixpath.join(d, n) if d else n for d in dirs for n in "abcde"]
            cands = [p for p in cands if p not in m.disk and not m.is_versioned(p)]
            if not a in m.disk:
                cands = [p for p in self.names if not inside(a, p) and not m.is_versioned(p) and p in m.disk]
            b = self.pick(cands)
            return b and {"o": "rename", "p": a, "to": b}
        if kind == "rename_after":
            return self.rename_after()
        if kind == "unversion":
            vs = [p for p in m.versioned_paths() if p]
            dirs = [p for p in vs if m.dkind(p) == DIR or any(strictly_inside(p, q) for q in vs)]
            twins = [p for p in dirs if any(q != p and q.startswith(p) and not inside(p, q) for q in vs)]
            p = self.pick(twins if twins and rng.random() < 0.7 else dirs if dirs and rng.random() < 0.7 else vs)
            return p and {"o": "unversion", "p": p}
        if kind == "move":
            a = self.pick_source()
            if not a:
                return None
            d = self.pick([d for d in m.versioned_paths() if m.dkind(d) == DIR and not inside(a, d) and d != parent(a)])
            return None if d is None else {"o": "move", "p": a, "to": d}
        if kind == "commit":
            paths = None
            if rng.random() < 0.4:
                pool = sorted((set(m.versioned_paths()) | set(m.basis)) - {""})
                if pool:
                    paths = sorted(rng.sample(pool, min(len(pool), rng.randint(1, 2))))
            n = self.fresh()
            return {"o": "commit", "paths": paths, "rev": "rev-%d" % n, "t": 1700000000 + n}
        if kind == "revert":
            paths = None
            if rng.random() < 0.4:
                pool = sorted((set(m.versioned_paths()) | set(m.basis)) - {""})
                if pool:
                    paths = sorted(rng.sample(pool, min(len(pool), rng.randint(1, 2))))
            return {"o": "revert", "paths": paths}
        if kind == "reopen":
            return {"o": "reopen"}
        if kind == "lockcycle":
            return {"o": "lockcycle"}
        if kind == "illegal":
            return self.illegal()
        raise KeyError(kind)

    def rename_after(self, want=None):
        """rename_one / move with after=True.  Targets of every sort are proposed: a path
        occupied by a committed entry that was moved there, by a just-added entry, by an
        unversioned (removed or unknown) file; `want` = classification asked for."""
        m, rng = self.m, self.rng
        vs = [p for p in m.inv if p]
        a = self.pick(vs)
        if not a:
            return None
        bids = m.basis_ids() if m.flavour == "bzr" else {}
        moved = [p for p in vs if p != a and p in m.disk and ((m.flavour == "bzr" and m.inv[p][0] in bids and bids[m.inv[p][0]] != p) or (m.flavour == "git" and p not in m.basis))]
        added = [p for p in vs if p != a and p in m.disk and m.flavour == "bzr" and m.inv[p][0] not in bids]
        unv = [p for p in m.disk if not m.is_versioned(p) and m.dkind(p) != DIR]
        pools = [x for x in (moved, moved, added, unv, unv) if x]
        if not pools:
            return None
        b = self.pick([p for p in rng.choice(pools) if not inside(a, p) and not inside(p, a)])
        if not b:
            return None
        if posixpath.basename(a) == posixpath.basename(b) and rng.random() < 0.5 and parent(b) != parent(a):
            return {"o": "move", "p": a, "to": parent(b), "after": 1}
        return {"o": "rename", "p": a, "to": b, "after": 1}

    def illegal(self):
        """An operation the model says must be refused (classify == 'error')."""
        m, rng = self.m, self.rng
        choice = rng.choice(["rename_after", "rename_after", "add_missing", "add_orphan", "rename_unversioned", "rename_onto", "rename_both", "rename_into_unversioned", "mkdir_exists", "commit_unversioned", "move_unversioned_dir"])
        free = [p for p in self.names if p not in m.disk and not m.is_versioned(p)]
        if choice == "rename_after":
            return self.rename_after()
        if choice == "add_missing":
            p = self.pick(free)
            return p and {"o": "add", "p": p, "id": "f%d" % self.fresh()}
        if choice == "add_orphan":
            p = self.pick([p for p in m.disk if parent(p) and not m.is_versioned(parent(p))])
            return p and {"o": "add", "p": p, "id": "f%d" % self.fresh()}
        if choice == "rename_unversioned":
            a = self.pick([p for p in m.disk if not m.is_versioned(p) and p not in m.basis and m.dkind(p) != DIR])
            b = self.pick([p for p in free if m.dkind(parent(p)) == DIR and m.is_versioned(parent(p))])
            return a and b and {"o": "rename", "p": a, "to": b}
        if choice == "rename_onto":
            vs = [p for p in m.versioned_paths() if p and p in m.disk]
            a = self.pick(vs)
            b = self.pick([p for p in vs if a and not inside(a, p) and not inside(p, a)])
            return a and b and {"o": "rename", "p": a, "to": b}
        if choice == "rename_both":
            a = self.pick([p for p in m.versioned_paths() if p and p in m.disk])
            b = self.pick([p for p in m.disk if not m.is_versioned(p) and a and not inside(a, p) and m.is_versioned(parent(p))])
            return a and b and {"o": "rename", "p": a, "to": b}
        if choice == "rename_into_unversioned":
            a = self.pick([p for p in m.versioned_paths() if p and p in m.disk])
            b = self.pick([p for p in free if m.dkind(parent(p)) == DIR and not m.is_versioned(parent(p)) and a and not inside(a, p)])
            return a and b and {"o": "rename", "p": a, "to": b}
        if choice == "mkdir_exists":
            p = self.pick([p for p in m.disk])
            return p and {"o": "mkdir", "p": p, "id": "d%d" % self.fresh()}
        if choice == "commit_unversioned":
            p = self.pick([p for p in self.names if not m.is_versioned(p) and not any(inside(p, q) for q in m.basis)])
            n = self.fresh()
            return p and {"o": "commit", "paths": [p], "rev": "rev-%d" % n, "t": 1700000000 + n}
        if choice == "move_unversioned_dir":
            a = self.pick([p for p in m.versioned_paths() if p and p in m.disk])
            d = self.pick([d for d in m.disk if m.dkind(d) == DIR and not m.is_versioned(d) and a and not inside(a, d)])
            return a and d and {"o": "move", "p": a, "to": d}
        return None


def gen_ops(rng, model, n, weights, names=None):
    """n operations generated from a simulation of `model` (which is advanced).  Most
    have valid preconditions; operations drawn from the 'illegal' bucket must be refused."""
    names = names or make_namespace(rng)
    g = Gen(rng, model, names)
    pool = [k for k, w in sorted(weights.items()) for _ in range(int(w))] or ["write"]
    ops = []
    tries = 0
    # most runs start by growing a tree (so that later operations meet directories with
    # several versioned children), then version it in one go and sometimes commit it
    script = []
    twin = [x for x in names if x + "2" in names]
    if rng.random() < 0.7 or twin:
        k = min(max(2, n // 3), len(names))
        if twin:
            k = len(names) + 1
        script = ["build"] * k
        script.append("smart_add_root")
        if rng.random() < 0.6:
            script.append("commit_all")
        if twin and rng.random() < 0.7:
            # stop versioning X next to its look-alike X2/...: directly, or by deleting it
            # and letting commit unversion what is missing
            script += rng.choice([["twin_unversion"], ["twin_rm", "commit_all"]])
    while len(ops) < n and tries < n * 30:
        tries += 1
        kind = rng.choice(pool)
        if script:
            kind = script.pop(0)
            if kind == "smart_add_root":
                op = {"o": "smart_add", "p": "", "n": g.fresh()}
            elif kind == "commit_all":
                k2 = g.fresh()
                op = {"o": "commit", "paths": None, "rev": "rev-%d" % k2, "t": 1700000000 + k2}
            elif kind == "build":
                op = g.build_step()
            elif kind == "twin_unversion":
                op = {"o": "unversion", "p": twin[0]}
            elif kind == "twin_rm":
                op = {"o": "rm_disk", "p": twin[0]}
            else:
                op = g.propose(kind)
            if op and model.classify(op) == "ok":
                model.apply(op)
                ops.append(op)
            continue
        if not model.disk and kind not in ("write", "mkdir", "mkdir_disk", "symlink"):
            kind = rng.choice(["write", "write", "mkdir", "mkdir_disk"])
        op = g.propose(kind)
        if not op:
            continue
        c = model.classify(op)
        if kind == "illegal" or (kind == "rename_after" and c == "error"):
            if c != "error":
                continue
            op["bad"] = 1
        elif c != "ok":
            continue
        else:
            model.apply(op)
        ops.append(op)
    return ops


# --------------------------------------------------------------------------------------
# real trees
# --------------------------------------------------------------------------------------


def quiet():
    """No notes / warnings of the library on the terminal."""
    import logging

    import breezy.trace

    breezy.trace.be_quiet(True)
    lg = logging.getLogger("brz")
    lg.setLevel(logging.CRITICAL)
    for h in list(lg.handlers):
        lg.removeHandler(h)
    lg.addHandler(logging.NullHandler())
    lg.propagate = False


def install_order_pin():
    """Determinism pin (idempotent).  With two or more search roots the dirstate
    iter_changes (Rust) walks them in the iteration order of a hash set whose keys are
    drawn per thread, so the order of its results - and with it the order in which commit
    inserts texts, i.e. the bytes and the content-hash NAME of the pack it writes - differs
    from one execution of a run to the next.  The results of such calls are handed on
    sorted by path (parents still come before their children); nothing is added or dropped,
    duplicates stay."""
    from breezy import osutils
    from breezy.bzr import workingtree_4 as w4

    cls = w4.InterDirStateTree
    if getattr(cls.iter_changes, "_verif_pin", False):
        return
    orig = cls.iter_changes

    def key(c):
        p = c.path[1] if c.path[1] is not None else c.path[0]
        return ((p or "").split("/"), c.path[1] is None, c.file_id or b"", c.path[0] or "")

    def iter_changes(self, include_unchanged=False, specific_files=None, pb=None, extra_trees=None, require_versioned=True, want_unversioned=False):
        it = orig(self, include_unchanged, specific_files, pb, extra_trees, require_versioned, want_unversioned=want_unversioned)
        if not specific_files or len(osutils.minimum_path_selection(specific_files)) < 2:
            return it
        return iter(sorted(it, key=key))

    iter_changes._verif_pin = True
    cls.iter_changes = iter_changes


def settle_randomness(seed):
    """Per-process lazy consumers of OS randomness (tempfile's name generator re-seeds itself
    after a fork, at its first use) would shift the deterministic getrandom stream of
    whichever run happens to come first in a worker: trigger them, then restart the stream."""
    import tempfile

    from simkit import batch

    tempfile._get_candidate_names().rng  # noqa: B018 - property with the side effect
    batch._reseed(seed)


class IndexCrash(BaseException):
    """The simulated process died inside a write of the git index."""


def install_index_seam():
    """Seam at the file operations of the git index (idempotent): creation of index.lock
    (dulwich GitFile), reading the index (Index), writes into the lock file or - where the
    code writes it in place - into `index` itself, and the commit / abort of the lock file.

    * scheduling points while a Sim runs several actors (two-writer phase);
    * fault point while `sim.index_fault = {"mode": "error" | "crash", "at": k, "frac": f,
      "active": bool}` is set (set it before the lock is taken, switch "active" on for the
      window in which the fault may strike): the k-th write into the index (lock) file writes only the fraction f of its
      data, then raises OSError(ENOSPC) ("error") or the process dies ("crash": IndexCrash is
      raised and every later operation on these files is without effect - the lock file is
      neither committed nor removed, exactly what a killed process leaves behind).
    Otherwise a plain pass-through.  (bzr trees need no such seam for scheduling: their
    checkout lock lives on the sim+file:// transport.)"""
    import builtins
    import errno

    import breezy.git.workingtree as gw

    from simkit.sim import CTX

    if getattr(gw.GitFile, "_verif_seam", False):
        return
    real_gitfile, real_index = gw.GitFile, gw.Index

    def cur():
        return getattr(CTX, "sim", None)

    def multi_sim():
        s = cur()
        return s if s is not None and s.multi else None

    def fault_of(s):
        return getattr(s, "index_fault", None) if s is not None else None

    class IndexFileProxy:
        """The lock file (GitFile) or the index opened for writing in place."""

        def __init__(self, f, what):
            self.__dict__.update(_f=f, _done=False, _what=what)

        def __getattr__(self, name):
            return getattr(self._f, name)

        def write(self, data):
            s = cur()
            ft = fault_of(s)
            if ft is not None and ft.get("dead"):
                return len(data)
            if ft is not None and ft.get("active") and not ft.get("fired"):
                ft["writes"] = ft.get("writes", 0) + 1
                if ft["writes"] == ft["at"]:
                    ft["fired"] = True
                    part = bytes(data)[: int(len(data) * ft.get("frac", 0.5))]
                    self._f.write(part)
                    try:
                        self._f.flush()
                    except Exception:  # noqa: BLE001
                        pass
                    kind = "index_write_" + ft["mode"]
                    s.faults_fired[kind] += 1
                    s.event("main", "index.write", self._what, "FAULT:" + ft["mode"], vol=len(part))
                    if ft["mode"] == "crash":
                        ft["dead"] = True
                        raise IndexCrash()
                    raise OSError(errno.ENOSPC, "No space left on device (injected)")
            return self._f.write(data)

        def _finish(self, op, fn):
            ft = fault_of(cur())
            if ft is not None and ft.get("dead"):
                return None  # the process is gone: nothing is committed, nothing cleaned up
            s = None if self._done else multi_sim()
            self.__dict__["_done"] = True
            if s is not None:
                s.before_op(op, "index", True)
            r = fn()
            if s is not None:
                s.after_op(op, "index")
            return r

        def close(self):
            return self._finish("index.commit" if self._what == "index.lock" else "index.close", self._f.close)

        def abort(self):
            return self._finish("index.abort", self._f.abort)  # AttributeError for a plain file, as in real life

    def gitfile(path, mode="rb", *a, **kw):
        s = cur()
        if "w" not in mode or os.path.basename(path) != "index" or (multi_sim() is None and fault_of(s) is None):
            return real_gitfile(path, mode, *a, **kw)
        ms = multi_sim()
        if ms is not None:
            ms.before_op("index.lock", "index", True)
        f = real_gitfile(path, mode, *a, **kw)  # FileLocked when another writer holds it
        if ms is not None:
            ms.after_op("index.lock", "index")
        return IndexFileProxy(f, "index.lock")

    def index(path, *a, **kw):
        s = multi_sim()
        if s is not None:
            s.before_op("index.read", os.path.basename(str(path)), False)
        r = real_index(path, *a, **kw)
        if s is not None:
            s.after_op("index.read", os.path.basename(str(path)))
        return r

    def seam_open(file, mode="r", *a, **kw):
        s = cur()
        ft = fault_of(s)
        if ft is None or isinstance(file, int) or "w" not in mode or os.path.basename(str(file)) != "index":
            return builtins.open(file, mode, *a, **kw)
        if ft.get("dead"):
            raise IndexCrash()
        return IndexFileProxy(builtins.open(file, mode, *a, **kw), "index")

    gitfile._verif_seam = True
    gw.GitFile = gitfile
    gw.Index = index
    gw.open = seam_open


WRITER_OPS = ("add", "rename", "remove")


def op_paths(op):
    return [op["p"]] + ([op["to"]] if "to" in op else [])


def independent(op, others):
    """No path of `op` is at, below or above a path of any of `others`: such operations
    commute, so every serial order of a set of them gives the same tree."""
    for o in others:
        for x in op_paths(op):
            for y in op_paths(o):
                if inside(x, y) or inside(y, x):
                    return False
    return True


def gen_writers(rng, model, names):
    """Scripts for two writers on one tree: 1-3 operations each (add / rename_one /
    remove --keep), pairwise independent and valid in the state `model` (which is
    advanced).  None when the state does not offer enough."""
    g = Gen(rng, model, names)
    g.n = 500  # content / id numbers of the writers' phase
    cands = []
    for p in sorted(model.disk):
        if not model.is_versioned(p) and model.dkind(p) != DIR:
            cands.append({"o": "add", "p": p, "id": "w%d" % g.fresh()})
    for p in sorted(model.versioned_paths()):
        if not p:
            continue
        cands.append({"o": "remove", "p": p, "keep": True, "force": False})
        if p in model.disk:
            free = [n for n in "abcde" if n not in model.disk and not model.is_versioned(n)]
            if free:
                cands.append({"o": "rename", "p": p, "to": rng.choice(free)})
    rng.shuffle(cands)
    scripts = {"A": [], "B": []}
    chosen = []
    want = {"A": rng.randint(1, 3), "B": rng.randint(1, 3)}
    turn = 0
    for op in cands:
        name = "AB"[turn % 2]
        if len(scripts[name]) >= want[name]:
            name = "AB"[(turn + 1) % 2]
            if len(scripts[name]) >= want[name]:
                break
        if not independent(op, chosen) or model.classify(op) != "ok":
            continue
        model.apply(op)
        scripts[name].append(op)
        chosen.append(op)
        turn += 1
    if not scripts["A"] or not scripts["B"]:
        return None
    return scripts


def tree_url(root, flavour):
    return ("sim+file://" + root) if flavour == "bzr" else root


def make_tree(sim, flavour, name="t"):
    """Create a standalone tree below the run's scratch directory; returns the opened
    WorkingTree (bzr trees through the storage seam)."""
    from breezy import controldir

    root = os.path.join(os.environ["VERIF_SCRATCH"], name)
    os.makedirs(root)
    fmt = controldir.format_registry.make_controldir("2a" if flavour == "bzr" else "git")
    wt = controldir.ControlDir.create_standalone_workingtree(root, format=fmt)
    if flavour == "bzr":
        with wt.lock_write():
            wt.set_root_id(ROOT_ID)
    del wt
    return open_tree(root, flavour)


def open_tree(root, flavour):
    from breezy.workingtree import WorkingTree

    t = WorkingTree.open(tree_url(root, flavour))
    t._sim_flavour = flavour
    t._sim_root = root
    return t


def reopen(tree):
    root, flavour = tree._sim_root, tree._sim_flavour
    del tree
    return open_tree(root, flavour)


_VOLATILE = None


def relativise_log(sim, root):
    """Keep out of the event log (and so of the digest) what is not a function of
    (seed, plan): scratch paths embed pids; the random parts of lock and upload names come
    from per-thread generators of a dozen extension modules, each seeded from the
    deterministic getrandom stream in an order that depends on which process-wide lazy
    initialisations already happened (measured: `is_url` draws only on first use)."""
    global _VOLATILE
    import re

    if _VOLATILE is None:
        _VOLATILE = re.compile(r"(?<=/lock/)[a-z0-9]{10}(?=\.tmp)|(?<=/releasing\.)[a-z0-9]{20}(?=\.tmp)|(?<=/upload/)[a-z0-9]{20}(?=\.)")
    orig = sim.event
    base = os.path.dirname(root)
    sub = _VOLATILE.sub

    def event(*fields, vol=None):
        orig(*[sub("~", str(f).replace(base, "<S>")) for f in fields], vol=vol)

    sim.event = event


_CONTENT_NAMES = None


def mask_content_names(sim):
    """Call after relativise_log.  Pack and index files are named after the md5 of the pack's
    bytes, and those bytes are not a function of (seed, plan) alone: a commit of several
    selected paths (specific_files) inserts the texts in the order the Rust dirstate code
    iterates a HashSet, whose keys the thread draws from the deterministic getrandom stream
    at its first use - after whichever process-wide lazy initialisations (also consumers of
    that stream) happen to run first in this worker process.  Measured (C42, thorough tier,
    seed 6, run 47): shifting the stream by 8 bytes right after the per-run reseed swaps the
    two text records of the commit ['a b', 'd\u00e9'] and with it the pack name; everything else
    in the log is identical.  The names are replaced by '#' in the event log (the files on
    disk keep their names)."""
    global _CONTENT_NAMES
    import re

    if _CONTENT_NAMES is None:
        _CONTENT_NAMES = re.compile(r"(?<=/packs/)[0-9a-f]{32}(?=\.)|(?<=/indices/)[0-9a-f]{32}(?=\.)|(?<=/obsolete_packs/)[0-9a-f]{32}(?=\.)")
    orig = sim.event
    sub = _CONTENT_NAMES.sub

    def event(*fields, vol=None):
        orig(*[sub("#", str(f)) for f in fields], vol=vol)

    sim.event = event


def disk_snapshot(root, flavour=None):
    """path -> (kind, bytes | target | None, exec) of everything below root except the
    control directory."""
    out = {}
    skip = set(CONTROL.values()) if flavour is None else {CONTROL[flavour]}

    def walk(rel):
        for name in sorted(os.listdir(os.path.join(root, rel))):
            if rel == "" and name in skip:
                continue
            p = posixpath.join(rel, name) if rel else name
            full = os.path.join(root, p)
            st = os.lstat(full)
            if stat.S_ISLNK(st.st_mode):
                out[p] = (LINK, os.readlink(full), False)
            elif stat.S_ISDIR(st.st_mode):
                out[p] = (DIR, None, False)
                walk(p)
            else:
                with open(full, "rb") as f:
                    out[p] = (FILE, f.read(), bool(st.st_mode & stat.S_IEXEC))

    walk("")
    return out


def tree_snapshot(tree):
    """path -> (kind, bytes | target | None, exec, file_id) for every versioned path of any
    Tree (kind None when a working tree's file is missing).  Takes a read lock."""
    from breezy.transport import NoSuchFile

    out = {}
    with tree.lock_read():
        ids = getattr(tree, "supports_file_ids", False) and not type(tree).__module__.startswith("breezy.git")
        for p in tree.all_versioned_paths():
            try:
                k = tree.kind(p)
            except (NoSuchFile, FileNotFoundError, NotADirectoryError):
                out[p] = (None, None, False, tree.path2id(p) if ids else None)
                continue
            data, x = None, False
            if k == FILE:
                data = tree.get_file_text(p)
                x = bool(tree.is_executable(p))
            elif k == LINK:
                data = tree.get_symlink_target(p)
            out[p] = (k, data, x, tree.path2id(p) if ids else None)
    return out


def normalise_changes(changes, flavour):
    """iter_changes result -> set of tuples that say what the properties talk about.

    bzr: ("v", old path, new path, changed_content, versioned old/new, kind old/new,
    executable old/new) per versioned entry; ("u", path, kind) per unversioned entry.
    git: identity is the path and renames are guessed from content similarity, so every
    change is split into per-path records ("p", path, old (kind, exec) | None,
    new (versioned, kind, exec) | None, changed); directories are not tracked and left out.
    """
    out = set()
    if flavour == "bzr":
        for c in changes:
            if c.versioned == (False, False):
                out.add(("u", c.path[1], c.kind[1]))
                continue
            out.add(("v", c.path[0], c.path[1], bool(c.changed_content), bool(c.versioned[0]), bool(c.versioned[1]), c.kind[0], c.kind[1], bool(c.executable[0]), bool(c.executable[1])))
        return out
    recs = {}

    def put(path, old, new, changed):
        if path in recs:
            o, n, _ch = recs[path]
            recs[path] = (old if o is None else o, new if n is None else n, None)
        else:
            recs[path] = (old, new, changed)

    for c in changes:
        old = new = None
        if c.path[0] is not None and c.versioned[0] and c.kind[0] not in (None, DIR):
            old = (c.kind[0], bool(c.executable[0]))
        if c.path[1] is not None:
            if not c.versioned[1]:
                if c.kind[1] != DIR:
                    out.add(("u", c.path[1], c.kind[1]))
            elif c.kind[1] in (DIR, None):
                new = None  # directory, or in the index but missing on disk
            else:
                new = (True, c.kind[1], bool(c.executable[1]))
        if c.path[0] == c.path[1]:
            if old is None and new is None:
                continue
            put(c.path[1], old, new, bool(c.changed_content) or (old is not None and new is not None and old != new[1:]))
        else:
            if old is not None and not getattr(c, "copied", False):
                put(c.path[0], old, None, True)
            if new is not None:
                put(c.path[1], None, new, True)
    for p, (o, n, ch) in recs.items():
        out.add(("p", p, o, n, ch))
    return out


def changes_equal(expected, got, optional=None):
    """Compare normalised change sets; a git record whose 'changed' flag is None (two
    halves of guessed renames met on one path) matches either value.  `optional(path)`:
    unversioned records the oracle takes no position on."""
    if optional is not None:
        expected = {r for r in expected if not optional(r)}
        got = {r for r in got if not optional(r)}
    if expected == got:
        return True
    loose = {r[:4] for r in got if r[0] == "p" and r[4] is None}
    if not loose:
        return False
    strip = lambda s: {r[:4] if (r[0] == "p" and r[:4] in loose) else r for r in s}  # noqa: E731
    return strip(expected) == strip(got)


def observe(tree, flavour, basis=None):
    """Everything the oracles look at, as plain data (under one read lock)."""
    obs = {}
    with tree.lock_read():
        obs["tree"] = tree_snapshot(tree)
        b = tree.basis_tree() if basis is None else basis
        with b.lock_read():
            for inc in (False, True):
                for unv in (False, True):
                    ch = list(tree.iter_changes(b, include_unchanged=inc, want_unversioned=unv))
                    obs["changes", inc, unv] = normalise_changes(ch, flavour)
        obs["unknowns"] = set(tree.unknowns())
        obs["extras"] = set(tree.extras())
        obs["parents"] = list(tree.get_parent_ids())
    return obs


class SmartAddIds:
    """AddAction giving deterministic file ids to smart_add (bzr)."""

    def __init__(self, model, op):
        self.model, self.op = model, op

    def __call__(self, tree, parent_ie, path, kind):
        return self.model.smart_add_id(self.op, path)

    def skip_file(self, tree, path, kind, stat_value=None):
        return False


def _quiet_reporter():
    from breezy.commit import NullCommitReporter

    return NullCommitReporter()


def _rmtree(full):
    if os.path.islink(full) or not os.path.isdir(full):
        os.unlink(full)
    else:
        shutil.rmtree(full)


def apply_op(tree, model, op):
    """Apply `op` to the real tree (not to the model).  Returns the (possibly new) tree
    object.  Exceptions of the tree API propagate to the caller."""
    root = tree._sim_root
    o = op["o"]
    full = os.path.join(root, op["p"]) if "p" in op else None
    if o == "write":
        with open(full, "wb") as f:
            f.write(content(op["n"]))
    elif o == "mkdir_disk":
        os.mkdir(full)
    elif o == "symlink":
        if os.path.lexists(full):
            os.unlink(full)
        os.symlink(link_target(op["n"]), full)
    elif o == "kindchange":
        _rmtree(full)
        if op["k"] == FILE:
            with open(full, "wb") as f:
                f.write(content(op["n"]))
        elif op["k"] == DIR:
            os.mkdir(full)
        else:
            os.symlink(link_target(op["n"]), full)
    elif o == "rm_disk":
        _rmtree(full)
    elif o == "chmod":
        os.chmod(full, 0o755 if op["x"] else 0o644)
    elif o == "mkdir":
        if model.flavour == "bzr":
            tree.mkdir(op["p"], op["id"].encode())
        else:
            tree.mkdir(op["p"])
    elif o == "add":
        if model.flavour == "bzr":
            tree.add([op["p"]], ids=[op["id"].encode()])
        else:
            tree.add([op["p"]])
    elif o == "smart_add":
        action = SmartAddIds(model, op) if model.flavour == "bzr" else None
        tree.smart_add([os.path.join(root, op["p"]) if op["p"] else root], action=action)
    elif o == "unversion":
        tree.unversion([op["p"]])
    elif o == "remove":
        tree.remove([op["p"]], keep_files=op["keep"], force=op["force"])
    elif o == "rename":
        if op.get("after"):
            tree.rename_one(op["p"], op["to"], after=True)
        else:
            tree.rename_one(op["p"], op["to"])
    elif o == "move":
        if op.get("after"):
            tree.move([op["p"]], op["to"], after=True)
        else:
            tree.move([op["p"]], op["to"])
    elif o == "commit":
        kw = {"rev_id": op["rev"].encode()} if model.flavour == "bzr" else {}
        tree.commit(
            message="m %s" % op["rev"],
            timestamp=op["t"],
            timezone=0,
            committer="Sim User <sim@example.com>",
            specific_files=op.get("paths"),
            allow_pointless=True,
            reporter=_quiet_reporter(),
            **kw,
        )
    elif o == "revert":
        tree.revert(op.get("paths"), backups=False)
    elif o == "reopen":
        tree = reopen(tree)
    elif o == "lockcycle":
        tree.lock_write()
        tree.unlock()
    else:
        raise KeyError(o)
    return tree
