"""C20 — Conflict and merge-hash records persist and resolve faithfully.

One run = one 2a working tree with 2-5 versioned entries (seeded unicode names and file ids)
and a seeded sequence of 3-9 operations on its conflict list and merge-hash record:
`set_conflicts(list)`, `add_conflicts(list)`, `resolve(tree, paths, recursive, action='done')`,
`set_merge_modified(dict)`, user edits / renames of the hashed files, reopen.  Lists are
drawn over every conflict type registered in breezy.bzr.conflicts with paths built from a
component alphabet (non-ASCII, leading/trailing blanks, newline, CR, tab, U+2028, NEL,
'<deleted>', helper-like suffixes), file ids likewise, real and seeded action strings.
After EVERY operation the tree is re-opened (WorkingTree.open: a new process) and
`conflicts()` / `merge_modified()` are compared with the model.

Faults: the last write operation of the run is then swept: for k = 1, 2, ... the state
before it is re-established, the operation is repeated with the k-th storage operation
(sim+file:// control files: lock dir, conflicts / merge-hashes put) failing with an error
(err_before, on every op) or with the process dying there (crash: op dropped / applied,
lock info torn), until k is past the end.  After each faulted execution a fresh open must
read the old or the new record - never a parse error, never a third list."""

import contextlib
import gc
import hashlib
import io
import json
import os
import posixpath
import shutil

from simkit.sim import SimCrash

from . import mergesim as M
from . import treesim as T

PROPERTY = "C20"
LEVEL = "exploration"
RULE = (
    "one case = one operation on the conflict list / merge-hash record followed by a reopen and a comparison with the model, or one "
    "faulted re-execution (fault kind, storage-op index k) of the run's last write followed by a fresh open, or one concurrent execution of two operations by two actors; a run evaluates 3-9 "
    "operations plus up to ~40 fault points; non-trivial run = a list with >= 3 conflicts of >= 2 types was stored and read back and a "
    "resolve selected a proper non-empty subset or a fault fired; distinct = distinct event-log digests of such runs"
)
COMPONENTS = {
    "real": [
        "breezy.bzr.conflicts (all ten registered types, as_stanza / from_stanzas, ConflictList.select_conflicts)",
        "breezy.bzr.workingtree.InventoryWorkingTree.set_conflicts / add_conflicts / conflicts / set_merge_modified / merge_modified / _put_rio",
        "breezy.conflicts.resolve (action done: Conflict.cleanup + set_conflicts)",
        "bzrformats.rio (Stanza, RioReader), 2a/dirstate working tree (path2id, id2path, get_file_sha1, rename_one) in a real /dev/shm directory",
        "LockDir of the tree's control files, dromedary local transport under the storage seam (sim+file://)",
    ],
    "simulated": ["process death / storage errors at the seam (one per faulted execution)", "process restart (WorkingTree.open)", "the operator removing a dead process's lock before the next step of the sweep"],
    "stub": ["UI (SilentUIFactory)", "stdout of select_conflicts ('x is not conflicted' messages are swallowed)"],
}
ASSUMPTIONS = [
    "paths are tree-relative unicode strings without NUL, lone surrogates, empty / '.' / '..' components and components longer than 40 characters; file ids are valid UTF-8 (breezy's own contract: set_conflicts refuses anything else)",
    "set_conflicts keeps order; add_conflicts is compared as a multiset (it sorts); lists handed to add_conflicts never contain a conflict that compares equal (Conflict._cmp_list) to a stored one while differing in conflict_path (PathConflict / ContentsConflict ignore conflict_path in __eq__, the set union then keeps the stored one: not judged)",
    "the selection model is the documented one: a conflict is selected by resolve(paths) iff its path or conflict_path is one of the paths (recursive: or lies below one), or its file_id / conflict_file_id is the id of one of the paths in the tree; with recursive=True a conflict that is reachable only through the id of an entry BELOW a given directory is not judged (the documentation does not say)",
    "merge_modified(): entries recorded with the file's real hash must be read back under the file's current path; entries with a stale hash, for unversioned or missing paths may be dropped (documented filter) but nothing else may appear",
    "a put at the seam is atomic (as LocalTransport.put_file is: temp file + rename); put_na of the lock's info file may be torn by a crash",
    "injected errors: TransportError, PermissionDenied, ENOSPC, ConnectionError (NoSuchFile is not injected: for an existing conflicts file it would be a lie that add_conflicts is entitled to believe)",
    "after a crashed or failed write the sweep removes leftover lock directories with the os module (the operator's break-lock), then opens the tree afresh",
    "text / contents conflicts whose path lies below a regular file of the tree are generated too (resolve_enotdir: Conflict.cleanup let NotADirectoryError escape from resolve; repaired in /repo by 646d20b, replay findings/C20-finding-resolve_enotdir.json keeps the signature [C20, known-defect, resolve_enotdir])",
    "two-actor phase (35% of the runs, instead of the fault sweep): A = resolve(paths) and B = add_conflicts(list) or resolve(other paths) run as two simulated processes (own WorkingTree objects) under the seeded scheduler, switching at storage operations (LockDir contention is real, waits run on the virtual clock); the final list must equal the outcome of the completed operations in some serial order (compared as a multiset: add_conflicts sorts); an operation that ends in a lock error (LockContention from the in-process dirstate lock) counts as either executed or not",
    "runs execute in-process (ISOLATION=thread): each run builds tree, model and Sim from scratch; fault points are enumerated by re-execution from the re-established state, not by forking",
]
STEP_CAP = 400000
ISOLATION = "thread"
GUARDS = ("resolve_enotdir",)
P_UNGUARDED = float(os.environ.get("VERIF_UNGUARDED", "0") or 0)
P_LIFT = 0.15

COMPONENT_POOL = ["a", "b", "d", "f", "é", "ü x", " lead", "trail ", "nl\nx", "tab\tx", "a.THIS", "x.moved", "日本", " ls", "cr\rx", "\x85n", "<deleted>", "c:d", "q\"uote", "f.OTHER", "y.new"]
ID_POOL = ["id-a", "id b", "ïd-é", "日本-id", " id", "id\nnl", "tree-root", "x" * 60, "id:colon", "i\td"]
ACTIONS = ["Moved existing file to", "Unversioned existing file", "Created directory", "Not deleting", "Cancelled move", "Diverted to", "äction\nnl", " x ", ""]
TYPES = {
    "text conflict": "p",
    "contents conflict": "pc?",
    "path conflict": "pc?",
    "duplicate": "apcC",
    "duplicate id": "apcC",
    "parent loop": "apcC",
    "unversioned parent": "ap",
    "missing parent": "ap",
    "deleting parent": "ap",
    "non-directory parent": "ap",
}
HAS_FILES = ("text conflict", "contents conflict")
ERRS = ["transport", "permission", "enospc", "connection"]


def warm():
    if not M.base_warm():
        return
    plan = {
        "entries": [["d", "directory", "id-d"], ["d/é", "file", "ïd-é"], ["a", "file", "id-a"]],
        "ops": [
            {"o": "set", "list": [["text conflict", "d/é", None, "ïd-é", None, None], ["duplicate", "a.moved", "a", "id-a", "id b", "Moved existing file to"], ["path conflict", "x", "<deleted>", None, None, None]]},
            {"o": "setmm", "items": [["a", "true"], ["d/é", "stale"], ["zz", "true"]]},
            {"o": "mv", "p": "a", "to": "b"},
            {"o": "edit", "p": "d/é", "n": 3},
            {"o": "add", "list": [["missing parent", "q", None, "id-q", None, "Created directory"]]},
            {"o": "reopen"},
            {"o": "resolve", "paths": ["d"], "recursive": True},
        ],
        "sweep": {"kinds": ["err_before", "crash"], "err": "transport", "max": 4},
    }
    M.dry_runs(execute, [plan])


def config(tier):
    if tier == "thorough":
        return {"budget_s": 700, "run_timeout": 180, "selftest": 48, "workers": 8}
    return {"budget_s": 50, "run_timeout": 180, "selftest": 24, "workers": 8}


# -- model -----------------------------------------------------------------------------------------


def cmp_key(c):
    """What Conflict.__eq__ compares."""
    t, p, cp, fid, cfid, act = c
    if TYPES[t] == "apcC":
        return (t, p, fid, act, cp, cfid)
    if TYPES[t] == "ap":
        return (t, p, fid, act)
    return (t, p, fid)


def selected(c, paths, recursive, path2id):
    """True / False / None (not judged) per the documented selection."""
    _t, p, cp, fid, cfid, _act = c
    pset = set(paths)
    ids = {path2id[x] for x in paths if x in path2id}
    sel = False
    for q in (p, cp):
        if q is None:
            continue
        if q in pset or (recursive and any(T.inside(s, q) for s in pset)):
            sel = True
    for i in (fid, cfid):
        if i is not None and i in ids:
            sel = True
    if not sel and recursive:
        below = {i for q, i in path2id.items() if any(T.strictly_inside(s, q) for s in pset)}
        if any(i is not None and i in below for i in (fid, cfid)):
            return None
    return sel


def under_file(path, kinds):
    return any(kinds.get(a) == "file" for a in T.ancestors(path) if a)


# -- generation ------------------------------------------------------------------------------------


def real_name(name):
    """Names given to real tree entries: nothing the dirstate cannot hold (line breaks), no
    helper-file suffixes (resolve deletes <path>.THIS etc. by design) and not the magic
    '<deleted>'."""
    return name != "<deleted>" and "\n" not in name and "\r" not in name and not name.endswith((".THIS", ".OTHER", ".BASE"))


def gen_path(rng, pool, depth=None):
    depth = depth or rng.choice([1, 1, 2, 2, 3])
    return "/".join(rng.choice(pool) for _ in range(depth))


def gen_conflict(rng, paths, ids, pool):
    t = rng.choice(sorted(TYPES))
    shape = TYPES[t]

    def path():
        return rng.choice(paths) if paths and rng.random() < 0.55 else gen_path(rng, pool)

    def fid(optional=True):
        x = rng.random()
        if optional and x < 0.12:
            return None
        return rng.choice(ids) if ids and x < 0.6 else rng.choice(ID_POOL)

    p = path()
    cp = cfid = act = None
    if "c" in shape:
        if shape.endswith("?"):
            cp = path() if (t == "path conflict" and rng.random() < 0.9) or rng.random() < 0.2 else None
        else:
            cp = path()
    if "C" in shape:
        cfid = fid()
    if "a" in shape:
        act = rng.choice(ACTIONS)
    return [t, p, cp, fid(), cfid, act]


def gen_list(rng, paths, ids, pool, n, avoid=()):
    out = []
    seen = {cmp_key(tuple(c)) for c in avoid}
    tries = 0
    while len(out) < n and tries < 50:
        tries += 1
        c = gen_conflict(rng, paths, ids, pool)
        k = cmp_key(tuple(c))
        if k in seen:
            if rng.random() < 0.5 or tuple(c) not in {tuple(x) for x in list(avoid) + out}:
                continue  # equal-but-different: not judged; exact duplicates are fine
        seen.add(k)
        out.append(c)
    return out


def generate(rng, tier):
    pool = rng.sample(COMPONENT_POOL, rng.randint(4, 8))
    # resolve_enotdir is repaired in /repo (646d20b): the state is generated like any other and a
    # failure there carries the ordinary signature (plan["unguarded"] is only set by old replays)
    unguarded = list(GUARDS)
    # the tree: a few entries, parents first
    entries = []
    kinds = {}
    idpool = [i for i in rng.sample(ID_POOL, len(ID_POOL)) if not any(ch.isspace() for ch in i)]  # the dirstate refuses blanks in ids
    want = rng.randint(2, 5)
    for _ in range(30):
        if len(entries) >= want:
            break
        dirs = [""] + [p for p, k, _i in entries if k == "directory" and p.count("/") < 2]
        par = rng.choice(dirs)
        name = rng.choice(pool)
        p = par + "/" + name if par else name
        if p in kinds or not real_name(name) or not idpool:
            continue
        k = rng.choice(["file", "file", "directory"])
        i = idpool.pop()
        if i == "tree-root":
            continue
        entries.append([p, k, i])
        kinds[p] = k
    paths = [e[0] for e in entries]
    ids = [e[2] for e in entries] + ["tree-root"]
    cur = []  # model list while generating
    cur_kinds = dict(kinds)
    ops = []
    n = 0

    def ok_list(lst):
        if "resolve_enotdir" in unguarded:
            return lst
        return [c for c in lst if not (c[0] in HAS_FILES and under_file(c[1], cur_kinds))]

    for _ in range(rng.randint(3, 9)):
        files = sorted(p for p, k in cur_kinds.items() if k == "file")
        kind = rng.choice(["set", "set", "add", "add", "resolve", "resolve", "resolve", "setmm", "setmm", "edit", "mv", "reopen"])
        if kind == "set" or (kind in ("add", "resolve") and not cur and rng.random() < 0.8):
            lst = ok_list(gen_list(rng, sorted(cur_kinds), ids, pool, rng.choice([0, 1, 2, 3, 4, 5, 6, 8])))
            ops.append({"o": "set", "list": lst})
            cur = [tuple(c) for c in lst]
        elif kind == "add":
            lst = ok_list(gen_list(rng, sorted(cur_kinds), ids, pool, rng.randint(1, 4), avoid=cur))
            if cur and rng.random() < 0.3:
                lst.append(list(rng.choice(cur)))  # an exact duplicate
            ops.append({"o": "add", "list": lst})
            cur = list(dict.fromkeys(cur + [tuple(c) for c in lst]))
        elif kind == "resolve":
            cands = sorted({q for c in cur for q in (c[1], c[2]) if q is not None} | set(cur_kinds))
            cands += [a for q in list(cands) for a in T.ancestors(q) if a] + ["zz", gen_path(rng, pool)]
            if rng.random() < 0.08:
                sel = None
            elif rng.random() < 0.05:
                sel = [""]
            else:
                sel = sorted(set(rng.sample(cands, min(len(cands), rng.randint(1, 3)))))
            ops.append({"o": "resolve", "paths": sel, "recursive": rng.random() < 0.5})
            if sel is None:
                cur = []
            else:
                cur = [c for c in cur if selected(c, sel, ops[-1]["recursive"], _cur_ids(entries, cur_kinds)) is not True]
        elif kind == "setmm":
            items = []
            for p in rng.sample(sorted(cur_kinds), min(len(cur_kinds), rng.randint(0, 4))):
                items.append([p, "true" if rng.random() < 0.75 else "stale"])
            if rng.random() < 0.3:
                items.append([rng.choice(["zz", gen_path(rng, pool)]), "true"])
            items = [it for it in items if cur_kinds.get(it[0]) != "directory"]
            ops.append({"o": "setmm", "items": items})
        elif kind == "edit" and files:
            n += 1
            ops.append({"o": "edit", "p": rng.choice(files), "n": n + 1})
        elif kind == "mv" and cur_kinds:
            a = rng.choice(sorted(cur_kinds))
            name = rng.choice(pool)
            dirs = [""] + [q for q, k in cur_kinds.items() if k == "directory" and not T.inside(a, q)]
            par = rng.choice(dirs)
            b = par + "/" + name if par else name
            if b in cur_kinds or not real_name(name) or T.inside(a, b):
                continue
            ops.append({"o": "mv", "p": a, "to": b})
            moved = {}
            for q in list(cur_kinds):
                if T.inside(a, q):
                    moved[b + q[len(a) :]] = cur_kinds.pop(q)
            cur_kinds.update(moved)
            for e in entries:
                if T.inside(a, e[0]):
                    e[0] = b + e[0][len(a) :]
            if "resolve_enotdir" not in unguarded and any(c[0] in HAS_FILES and under_file(c[1], cur_kinds) for c in cur):
                # the move put a file above a stored text conflict: undo (guarded state)
                ops.pop()
                for q in list(cur_kinds):
                    if T.inside(b, q):
                        cur_kinds[a + q[len(b) :]] = cur_kinds.pop(q)
                for e in entries:
                    if T.inside(b, e[0]):
                        e[0] = a + e[0][len(b) :]
        else:
            ops.append({"o": "reopen"})
    # entries were renamed in place while generating: the plan needs the initial layout
    plan = {"pool": pool, "entries": _initial_entries(entries, ops), "ops": ops}
    if rng.random() < 0.35:
        # two processes on one tree: A resolves while B adds conflicts / resolves others
        if len(cur) < 2:
            lst = ok_list(gen_list(rng, sorted(cur_kinds), ids, pool, rng.randint(2, 5), avoid=cur))
            ops.append({"o": "add", "list": lst})
            cur = list(dict.fromkeys(cur + [tuple(c) for c in lst]))
        cpaths = sorted({c[1] for c in cur})
        a_sel = sorted(rng.sample(cpaths, rng.randint(1, max(1, len(cpaths) // 2)))) if cpaths else ["zz"]
        a_op = {"o": "resolve", "paths": a_sel, "recursive": False}
        if rng.random() < 0.7:
            b_op = {"o": "add", "list": ok_list(gen_list(rng, sorted(cur_kinds), ids, pool, rng.randint(1, 3), avoid=cur))}
        else:
            rest = [q for q in cpaths if q not in a_sel] or cpaths or ["zz"]
            b_op = {"o": "resolve", "paths": sorted(rng.sample(rest, rng.randint(1, min(2, len(rest))))), "recursive": False}
        plan["duo"] = {"a": a_op, "b": b_op}
        plan["policy"] = rng.choice(["random", "random", "rr", "pct"])
        if plan["policy"] == "pct":
            plan["preempt_at"] = sorted(rng.sample(range(1, 60), rng.randint(1, 4)))
    kinds_ = rng.choice([["err_before"], ["crash"], ["err_before", "crash"], ["err_before", "crash"]])
    plan["sweep"] = None if plan.get("duo") else {"kinds": kinds_, "err": rng.choice(ERRS), "max": rng.choice([4, 8, 16])}
    return plan


def shrink_candidates(plan):
    import copy

    from simkit import shrink

    yield from shrink.generic_candidates(plan)
    for i, op in enumerate(plan["ops"]):
        for key in ("list", "items", "paths"):
            lst = op.get(key)
            if isinstance(lst, list) and len(lst) > 1:
                for j in range(len(lst)):
                    p = copy.deepcopy(plan)
                    del p["ops"][i][key][j]
                    yield p
    for j in range(len(plan["entries"])):
        p = copy.deepcopy(plan)
        gone = p["entries"].pop(j)[0]
        if not any(T.strictly_inside(gone, e[0]) for e in p["entries"]):
            yield p
    if plan.get("sweep") and plan["sweep"].get("kinds") and not plan.get("only"):
        p = copy.deepcopy(plan)
        p["sweep"] = None
        yield p


def _cur_ids(entries, cur_kinds):
    return {e[0]: e[2] for e in entries if e[0] in cur_kinds}


def _initial_entries(entries, ops):
    """Undo the renames of the generated ops to get the layout the run starts from."""
    ents = [list(e) for e in entries]
    for op in reversed(ops):
        if op["o"] == "mv":
            a, b = op["p"], op["to"]
            for e in ents:
                if T.inside(b, e[0]):
                    e[0] = a + e[0][len(b) :]
    return ents


# -- execution -------------------------------------------------------------------------------------


def _enc(x):
    return None if x is None else x.encode("utf-8")


def make_conflict(c):
    from breezy.bzr import conflicts as BC

    t, p, cp, fid, cfid, act = c
    shape = TYPES[t]
    kw = {"path": p, "file_id": _enc(fid)}
    if "c" in shape:
        kw["conflict_path"] = cp
    if "C" in shape:
        kw["conflict_file_id"] = _enc(cfid)
    if "a" in shape:
        kw["action"] = act
    return BC.ctype[t](**kw)


def read_back(tree):
    out = []
    for t, p, cp, fid, cfid, act in M.conflict_tuples(tree):
        out.append((t, p, cp, None if fid is None else fid.decode("utf-8"), None if cfid is None else cfid.decode("utf-8"), act))
    return out


def _h(obj):
    return hashlib.sha1(repr(obj).encode("utf-8", "replace")).hexdigest()[:12]


def clean_locks(root):
    """The operator's break-lock after a dead process: remove held / pending lock
    directories of the tree, branch and repository (real os calls, not through the seam)."""
    for sub in ("checkout", "branch", "repository"):
        d = os.path.join(root, ".bzr", sub, "lock")
        if os.path.isdir(d):
            for name in os.listdir(d):
                shutil.rmtree(os.path.join(d, name), ignore_errors=True)


class World:
    def __init__(self, sim, plan):
        self.sim = sim
        self.plan = plan
        self.tree = T.make_tree(sim, "bzr", "t")
        self.root = self.tree._sim_root
        self.kinds = {}
        self.ids = {}  # path -> id (str)
        self.content = {}
        self.conflicts = []  # model: list of tuples
        self.mm = {}  # model: file id -> (hash, true?)
        n = 0
        for p, k, i in plan["entries"]:
            full = os.path.join(self.root, p)
            if k == "directory":
                os.mkdir(full)
            else:
                n += 1
                self.content[p] = T.content(100 + n)
                with open(full, "wb") as f:
                    f.write(self.content[p])
            self.tree.add([p], ids=[i.encode("utf-8")])
            self.kinds[p] = k
            self.ids[p] = i
        M.commit(self.tree, "r0", 0)

    def reopen(self):
        self.tree = T.reopen(self.tree)
        return self.tree

    def path2id(self):
        d = dict(self.ids)
        d[""] = "tree-root"
        return d

    # -- applying one op to the real tree (no model update) -------------------------------------
    def apply(self, op):
        from breezy import conflicts as _mod_conflicts

        o = op["o"]
        tree = self.tree
        if o == "set":
            tree.set_conflicts([make_conflict(c) for c in op["list"]])
        elif o == "add":
            tree.add_conflicts([make_conflict(c) for c in op["list"]])
        elif o == "resolve":
            with contextlib.redirect_stdout(io.StringIO()):
                _mod_conflicts.resolve(tree, op["paths"], recursive=op["recursive"], action="done")
        elif o == "setmm":
            tree.set_merge_modified(self.mm_arg(op))
        elif o == "edit":
            with open(os.path.join(self.root, op["p"]), "wb") as f:
                f.write(T.content(op["n"]))
        elif o == "mv":
            tree.rename_one(op["p"], op["to"])
        elif o == "reopen":
            self.reopen()
        else:
            raise KeyError(o)

    def mm_arg(self, op):
        d = {}
        for p, how in op["items"]:
            real = self.content.get(p)
            h = hashlib.sha1(real).hexdigest() if (how == "true" and real is not None) else hashlib.sha1(b"stale:" + p.encode("utf-8")).hexdigest()
            d[p] = h.encode("ascii")
        return d

    # -- model update; returns the expected conflict list judgement ------------------------------------
    def model(self, op):
        o = op["o"]
        if o == "set":
            self.conflicts = [tuple(c) for c in op["list"]]
        elif o == "add":
            # a set union (exact duplicates collapse, also those already stored twice)
            self.conflicts = list(dict.fromkeys(self.conflicts + [tuple(c) for c in op["list"]]))
        elif o == "resolve":
            if op["paths"] is None:
                self.conflicts = []
                return set()
            keep, unsure = [], set()
            for c in self.conflicts:
                s = selected(c, op["paths"], op["recursive"], self.path2id())
                if s is None:
                    unsure.add(c)
                    keep.append(c)
                elif not s:
                    keep.append(c)
            self.conflicts = keep
            return unsure
        elif o == "setmm":
            self.mm = {}
            for p, h in self.mm_arg(op).items():
                if p in self.ids and self.kinds[p] == "file":
                    self.mm[self.ids[p]] = h
        elif o == "edit":
            self.content[op["p"]] = T.content(op["n"])
        elif o == "mv":
            a, b = op["p"], op["to"]
            for d in (self.kinds, self.ids, self.content):
                for q in list(d):
                    if T.inside(a, q):
                        d[b + q[len(a) :]] = d.pop(q)
        return set()

    def mm_expected(self):
        """(must be present, may be present) as {path: hash}."""
        by_id = {i: p for p, i in self.ids.items()}
        must, may = {}, {}
        for i, h in self.mm.items():
            p = by_id.get(i)
            if p is None:
                continue
            may[p] = h
            if hashlib.sha1(self.content[p]).hexdigest().encode("ascii") == h:
                must[p] = h
        return must, may


def check_conflicts(sim, w, op, how, unsure=frozenset(), alt=None, sig=()):
    """Read the conflict list in a fresh tree object and compare with the model (`alt`: a
    second acceptable model list - the state before a faulted write)."""
    fl = [op["o"]] + list(sig)

    def fail(tag, detail, rest=()):
        sim.fail(tag, ["C20", tag] + fl + list(rest), "%s after %s: %s" % (how, json.dumps(op, ensure_ascii=False), detail))

    tree = w.reopen()
    try:
        got = read_back(tree)
    except BaseException as e:  # noqa: B036 - reading stored conflicts must never fail (Rust panics are BaseExceptions)
        if isinstance(e, (SimCrash, KeyboardInterrupt, SystemExit)):
            raise
        fail("read_raised", "conflicts() raised %r" % (e,), [type(e).__name__])
    sim.event("conflicts", _h(got), len(got))

    def matches(want):
        if op["o"] == "add":
            return sorted(got, key=repr) == sorted(want, key=repr)
        if unsure:
            g = [c for c in got if c not in unsure]
            return g == [c for c in want if c not in unsure] and set(got) <= set(want)
        return got == want

    if matches(w.conflicts):
        if unsure or op["o"] == "add":
            w.conflicts = list(got)  # the order add_conflicts chose / what was not judged
        return "new"
    if alt is not None and matches(alt):
        return "old"
    want = w.conflicts
    lost = [c for c in want if c not in got]
    extra = [c for c in got if c not in want]
    tag = "readback_differs" if op["o"] in ("set", "add") else "resolve_selection" if op["o"] == "resolve" else "list_changed"
    if alt is not None:
        tag = "neither_old_nor_new"
    fail(tag, "read %d conflicts, model has %d; missing %r; unexpected %r%s" % (len(got), len(want), lost[:4], extra[:4], "" if lost or extra else " (order differs: %r vs %r)" % (got[:6], want[:6])))


def check_mm(sim, w, op, how, alt=None, sig=(), reopen=True):
    tree = w.reopen() if reopen else w.tree
    try:
        got = tree.merge_modified()
    except BaseException as e:  # noqa: B036
        if isinstance(e, (SimCrash, KeyboardInterrupt, SystemExit)):
            raise
        sim.fail("mm_read_raised", ["C20", "mm_read_raised", op["o"]] + list(sig) + [type(e).__name__], "%s after %s: merge_modified() raised %r" % (how, json.dumps(op, ensure_ascii=False), e))
    sim.event("mm", _h(sorted(got.items())))
    must, may = w.mm_expected()

    def ok(pair):
        mu, ma = pair
        return all(got.get(p) == h for p, h in mu.items()) and all(ma.get(p) == h for p, h in got.items())

    if ok((must, may)):
        return "new"
    if alt is not None and ok(alt):
        return "old"
    tag = "mm_neither_old_nor_new" if alt is not None else "mm_readback_differs"
    sim.fail(tag, ["C20", tag, op["o"]] + list(sig), "%s after %s: merge_modified() = %r; must contain %r, may contain %r" % (how, json.dumps(op, ensure_ascii=False), got, must, may))


def execute(sim, plan):
    warm()
    M.begin(sim)
    sim.disarm()
    w = World(sim, plan)
    unguarded = set(plan.get("unguarded", ()))
    stored_big = False
    proper = False
    last_write = None
    for i, op in enumerate(plan["ops"]):
        before = (list(w.conflicts), w.mm_expected(), dict(w.kinds), dict(w.ids), dict(w.content), dict(w.mm))
        territory = None
        if op["o"] in ("resolve",):
            hit = [c for c in w.conflicts if c[0] in HAS_FILES and under_file(c[1], w.kinds)]
            if hit:
                territory = "resolve_enotdir"
        try:
            w.apply(op)
        except Exception as e:  # noqa: BLE001 - every generated operation is legal
            import traceback

            tb = "".join(traceback.format_exception(type(e), e, e.__traceback__)[-5:])
            if territory and territory in unguarded and isinstance(e, NotADirectoryError):
                sim.fail("op_raised", ["C20", "known-defect", territory], "[in the territory of %s] %s raised %r\n%s" % (territory, json.dumps(op, ensure_ascii=False), e, tb))
            sim.fail("op_raised", ["C20", "op_raised", op["o"], type(e).__name__], "%s raised %r\n%s" % (json.dumps(op, ensure_ascii=False), e, tb))
        n_before = len(w.conflicts)
        unsure = w.model(op)
        sim.event("op", i, op["o"], _h(op))
        sim.probe("op_" + op["o"])
        check_conflicts(sim, w, op, "no fault", unsure)
        check_mm(sim, w, op, "no fault", reopen=False)
        if op["o"] in ("set", "add") and len(w.conflicts) >= 3 and len({c[0] for c in w.conflicts}) >= 2:
            stored_big = True
        if op["o"] == "resolve" and 0 < len(w.conflicts) < n_before:
            proper = True
        if op["o"] in ("set", "add", "resolve", "setmm"):
            last_write = (i, op, before)
        sim.state_seen((tuple(w.conflicts), tuple(sorted(w.mm.items()))))
        sim.notes["evaluations"] = sim.notes.get("evaluations", 0) + 1
    fired = 0
    if last_write is not None and plan.get("sweep") and last_write[0] == len(plan["ops"]) - 1:
        fired = sweep(sim, plan, w, *last_write)
    raced = False
    if plan.get("duo"):
        raced = duo(sim, plan, w)
    sim.nontrivial = bool(stored_big and (proper or fired or raced))
    gc.collect()


LOCK_ERRORS = ("LockContention", "LockFailed", "LockError", "LockBroken", "LockNotHeld", "TokenMismatch", "LockCorrupt")


def duo(sim, plan, w):
    """Two processes (two tree objects, two actors) operate on the conflict list at once,
    interleaved at the storage operations.  The final list must be the result of the completed
    operations in SOME serial order."""
    from breezy import conflicts as _mod_conflicts

    sim.disarm()
    clean_locks(w.root)
    start = list(w.conflicts)
    ops = {"A": plan["duo"]["a"], "B": plan["duo"]["b"]}
    results = {}

    def actor(name):
        def run():
            op = ops[name]
            try:
                tree = T.open_tree(w.root, "bzr")
                if op["o"] == "add":
                    tree.add_conflicts([make_conflict(c) for c in op["list"]])
                else:
                    _mod_conflicts.resolve(tree, op["paths"], ignore_misses=True, recursive=op["recursive"], action="done")
                results[name] = "ok"
            except Exception as e:  # noqa: BLE001 - judged below
                results[name] = type(e).__name__
                results[name + ":exc"] = repr(e)[:300]

        return run

    n0 = sim.switches
    for name in ("A", "B"):
        sim.spawn(name + str(len(sim.actors)), actor(name))
    sim.run_actors()
    clean_locks(w.root)
    sim.event("duo", results.get("A"), results.get("B"))
    for name in ("A", "B"):
        r = results.get(name)
        if r != "ok" and r not in LOCK_ERRORS:
            sim.fail("duo_op_raised", ["C20", "duo_op_raised", ops[name]["o"], str(r)], "actor %s: %s raised %s" % (name, json.dumps(ops[name], ensure_ascii=False), results.get(name + ":exc")))
    # acceptable outcomes: every serial order of every set of operations that may have happened
    # (an operation that gave up on a lock may or may not count as not executed: it did nothing)
    def outcome(order):
        w.conflicts = list(start)
        for name in order:
            w.model(ops[name])
        return sorted(w.conflicts, key=repr)

    done = [n for n in ("A", "B") if results.get(n) == "ok"]
    maybe = [n for n in ("A", "B") if results.get(n) != "ok"]
    orders = set()
    import itertools

    for k in range(len(maybe) + 1):
        for extra in itertools.combinations(maybe, k):
            for order in itertools.permutations(done + list(extra)):
                orders.add(order)
    accepted = {repr(outcome(o)): o for o in sorted(orders)}
    tree = w.reopen()
    try:
        got = sorted(read_back(tree), key=repr)
    except BaseException as e:  # noqa: B036
        if isinstance(e, (SimCrash, KeyboardInterrupt, SystemExit)):
            raise
        sim.fail("duo_read_raised", ["C20", "duo_read_raised", type(e).__name__], "conflicts() raised %r after two concurrent operations" % (e,))
    sim.event("duo-result", _h(got), len(got))
    sim.notes["evaluations"] = sim.notes.get("evaluations", 0) + 1
    sim.probe("duo_" + "+".join(sorted("%s" % results.get(n) for n in ("A", "B"))))
    if repr(got) not in accepted:
        serial = outcome(("A", "B"))
        lost = [c for c in serial if c not in got]
        extra = [c for c in got if c not in serial]
        sim.fail(
            "not_serializable",
            ["C20", "not_serializable", ops["A"]["o"] + "|" + ops["B"]["o"]],
            "A=%s (%s) and B=%s (%s) ran concurrently on %d stored conflicts; the final list (%d) equals no serial order; against A;B: lost %r, unexpected %r"
            % (json.dumps(ops["A"], ensure_ascii=False), results.get("A"), json.dumps(ops["B"], ensure_ascii=False), results.get("B"), len(start), len(got), lost[:4], extra[:4]),
        )
    w.conflicts = [tuple(c) for c in got]
    return sim.switches > n0


def fault_site(sim, n0):
    """(op, normalised path) of the seam op the injected fault hit."""
    for e in sim.log[n0:]:
        if e and e[-1].startswith("FAULT:"):
            path = e[2]
            k = path.find("/.bzr/")
            return "%s:%s" % (e[1], path[k + 6 :] if k >= 0 else path)
    return "?"


def sweep(sim, plan, w, idx, op, before):
    """Re-execute the last write with one fault per execution."""
    sw = plan["sweep"]
    new_conf, new_mm = list(w.conflicts), dict(w.mm)
    old_conf, old_mm_exp, _k, old_ids, _c, old_mm = before
    only = plan.get("only")

    def restore():
        sim.disarm()
        clean_locks(w.root)
        tree = w.reopen()
        tree.set_conflicts([make_conflict(c) for c in old_conf])
        tree.set_merge_modified(_mm_by_path(old_mm, old_ids))
        w.conflicts, w.mm = list(old_conf), dict(old_mm)
        return w.reopen()

    # dry pass: how many seam ops does the write make?
    restore()
    sim.arm([])
    w.apply(op)
    a = sim.current()
    n_any, n_mut = a.nops, a.nmut
    sim.disarm()
    points = [("err_before", {}, k) for k in range(1, n_any + 1)] if "err_before" in sw["kinds"] else []
    if "crash" in sw["kinds"]:
        for var in ({"applied": False}, {"applied": True}, {"applied": True, "torn": 0.5}):
            points += [("crash", var, k) for k in range(1, n_mut + 1)]
    rng = sim.rng("sweep")
    if len(points) > sw["max"]:
        points = sorted(rng.sample(points, sw["max"]), key=repr)
    fired_total = 0
    for kind, var, k in points:
        label = "%s%s@%d" % (kind, "" if not var else ("+applied" if var.get("applied") else "+dropped") + ("+torn" if "torn" in var else ""), k)
        if only is not None and label != only:
            continue
        restore()
        f = {"kind": kind, "at": k, "count": "any" if kind == "err_before" else "mut"}
        f.update(var)
        if kind == "err_before":
            f["err"] = sw["err"]
        sim.arm([f])
        n0 = sum(sim.faults_fired.values())
        log0 = len(sim.log)
        outcome = "ok"
        try:
            w.apply(op)
        except SimCrash:
            outcome = "crash"
        except Exception as e:  # noqa: BLE001 - a failed write may fail any way it likes
            outcome = type(e).__name__
        fired = sum(sim.faults_fired.values()) - n0
        site = fault_site(sim, log0)
        sim.disarm()
        if outcome == "crash" or sim.current().dead:
            sim.restart_main()
        if not fired:
            sim.probe("fault_not_reached")
            continue
        fired_total += 1
        sim.event("fault", label, outcome)
        sim.probe("fault_" + kind)
        clean_locks(w.root)
        plan["only"] = label
        # judge: old or new
        w.conflicts, w.mm = list(new_conf), dict(new_mm)
        how = "fault %s at %s (%s)" % (label, site, outcome)
        sig = [label.split("@")[0], site]
        r1 = check_conflicts(sim, w, op, how, alt=old_conf, sig=sig)
        r2 = check_mm(sim, w, op, how, alt=old_mm_exp, sig=sig, reopen=False)
        sim.probe("after_fault_%s" % (r1 if op["o"] != "setmm" else r2))
        sim.notes["evaluations"] = sim.notes.get("evaluations", 0) + 1
        plan.pop("only", None)
        if only is not None:
            plan["only"] = only
    w.conflicts, w.mm = new_conf, new_mm
    return fired_total


def _mm_by_path(mm, ids):
    by_id = {i: p for p, i in ids.items()}
    return {by_id[i]: h for i, h in mm.items() if i in by_id}
