"""C46 — clean-tree deletes only what was asked for.

A rider on simulated tree histories (no schedule and no fault of its own): a short
`treesim` history (3-10 model-generated operations incl. commits, on a 2a/dirstate or a
git/index tree) reaches a tree state with versioned files and directories; a seeded
*litter* phase then drops unversioned material into it (files and directories with
unknown / ignored / detritus names, files inside unversioned directories, an ignore file
drawn from a tiny pattern grammar, real nested branches / trees (`sub/.bzr`, `sub/.git`),
symlinks to a sentinel directory NEXT TO the tree, to the tree root, to the scratch
directory, to directories and files of the tree, dangling ones); finally 1-3 calls of
`breezy.clean_tree.clean_tree(directory, unknown, ignored, detritus, dry_run,
no_prompt=True)` with seeded option subsets.  After every call the disk is compared with
the model's verdict per path (must stay / must go / no position), the sentinel directory
and the listing of the scratch directory are compared with their state before, and the
versioned content as the tree reports it must be unchanged.

In a quarter of the bzr runs the first deleting call is raced: actor `cleaner` runs
clean_tree WITH its confirmation prompt on a tree opened through the storage seam (the
simulated user thinks for some virtual time, then answers yes) while actor `adder` (its own
WorkingTree object) versions 1-2 paths that the call is about to delete (add / smart_add,
seeded start delays: before the enumeration, during the prompt, after the deletion), under
the seeded scheduler.  A path whose add was acknowledged must survive the call.

Nested git trees are also created as checkouts linked by a `.git` FILE (gitdir: relative
path to a git directory moved next to the tree; that directory counts as 'outside').
Nested branches are placed everywhere, including the three layouts in which clean_tree
used to destroy them (below an unversioned non-branch directory of a bzr tree; a bzr
branch inside a git tree; a git repository rooted at a versioned directory of a bzr tree;
fixed in /repo by 74fc42f, replays under findings/C46-finding-*.json)."""

import hashlib
import json
import os
import posixpath

from simkit import world

from . import treesim as T

PROPERTY = "C46"
LEVEL = "exploration"
RULE = (
    "one case = one seeded run: tree flavour (bzr dirstate | git index), a treesim history of 3-10 operations, 3-10 litter items "
    "(unknown / ignored / detritus-named files and directories, ignore file, nested branches, symlinks leaving the tree) and 1-3 "
    "clean_tree calls with seeded option subsets; in 25% of the bzr runs the first deleting call runs as an actor (with the confirmation "
    "prompt) against a second actor that adds 1-2 of the paths about to be deleted, interleaved by the seeded scheduler; a cross-check "
    "riding on states reached by simulated tree histories (no fault injection); non-trivial = at least one call deleted something while something unversioned (or a nested branch, or a symlink "
    "leaving the tree) had to stay; distinct = distinct event-log digests of such runs"
)
COMPONENTS = {
    "real": [
        "breezy.clean_tree (clean_tree, iter_deletables, _filter_out_nested_controldirs, delete_items)",
        "WorkingTree.extras / is_ignored of breezy.bzr.workingtree (2a, dirstate) and breezy.git.workingtree (dulwich index, IgnoreFilterManager)",
        "breezy.ignores (user ignore file under BRZ_HOME created on first use, .bzrignore), breezy.globbing",
        "ControlDir.open probing of nested control directories (bzr and git probers)",
        "a real directory on /dev/shm with a sentinel directory next to the tree; real nested branches/trees created with create_standalone_workingtree",
    ],
    "simulated": [
        "the user's history of tree operations (treesim op sequence) and the litter dropped into the tree (seeded)",
        "raced calls: two actors (clean-tree at its prompt, a concurrent add) under the seeded scheduler, virtual clock for the user's thinking time and LockDir waits; the tree's control files (checkout LockDir) on the sim+file:// seam",
    ],
    "stub": ["UI (SilentUIFactory; no_prompt=True; raced calls: a prompt that yields to the scheduler and answers yes)", "user identity / BRZ_HOME (scratch)"],
}
ASSUMPTIONS = [
    "rider: no fault injection; a cross-check over tree states reached by simulated treesim histories (the states the C09 model can reach with every treesim guard on); the only schedule of its own is the two-actor race of the first deleting call in 25% of the bzr runs",
    "raced calls (bzr only; the git index has no read lock to speak of): the oracle is 'a path whose add RETURNED successfully must not be deleted by that call, whatever the interleaving'; a refused add (LockContention from the dirstate lock while clean-tree holds its read lock, NoSuchFile after the deletion, anything else) leaves the path unversioned and deletable; when clean_tree itself is refused the lock nothing is demanded of it; for the rest of an unversioned directory that got versioned meanwhile (smart_add of a file inside it, add of the directory) no position; the dirstate lock itself is an OS/Rust lock outside the seam, so switches happen at the seam operations around it (tree opening, checkout LockDir, the prompt) - the window 'during the prompt' is reached through seeded start delays in virtual time, not through pre-emption inside the lock call",
    "two actors are two processes of the simulated world but one real process, and the dirstate fcntl lock does not exclude within a process (a read lock is granted while another tree object holds the write lock, and a write lock while another holds a read lock; between two real processes both are refused with LockContention); install_tree_lock_seam decides, at the moment the dirstate lock would be taken, as the OS does between processes (the loser gets LockContention at once: a refused add leaves the path unknown, a refused clean-tree deletes nothing) and makes taking/releasing the tree lock a scheduling point; it is active only while several actors run",
    "`.git`-file checkouts: the git directory is moved to <scratch>/gitdirs and referred to by a relative gitdir: path; it is part of the 'outside' state that must not change",
    "'detritus' is not defined by the property text; the model uses the definition of the command's help (conflict files *.THIS/*.BASE/*.OTHER, backups *~, selftest directories *.tmp) = clean_tree.is_detritus; *.orig / *.rej are generated too and are plain unknown files unless an ignore pattern matches them",
    "the model's ignore matcher covers a tiny grammar only: the default user ignore list (as suffix / prefix / exact-name rules: *~ *.a *.o *.so *.py[co] *.sw[nop] .#* [#]*# __pycache__ bzr-orphans) and tree patterns of the forms `name`, `*.ext`, `dir/name`; names are drawn from a fixed vocabulary for which these rules are exact; no `!` exceptions, no RE: patterns, no nested ignore files",
    "bzr: an unversioned directory is one unit, classified by its own name (extras() reports the directory, not its contents; documented) - its contents go or stay with it; git: every unversioned non-directory is classified on its own (a file is ignored when a tree pattern matches one of its path components or, for the user's default list, its basename); the model takes no position on directories of a git tree that hold no versioned file, and none on an unversioned symlink that resolves to a directory in a git tree (git extras() does not report those)",
    "completeness ('requested and deletable, yet still there', tag kept) goes beyond the word 'only' of the property; it is asserted because the command documents that the requested classes are deleted, restricted to paths whose class is unambiguous in the grammar above",
    "paths below a versioned entry that the tree recorded as a non-directory and that is a directory now: no position (extras() does not look there)",
    "an exception raised by clean_tree is not judged (the property only speaks about what is deleted): it is counted (probe raised_*) and the safety oracles are still evaluated",
    "nothing at or below the root of a nested branch may change (control directory and working files); if a deletable unversioned directory contains a nested branch, the branch and the directories leading to it must stay and the model takes no position on the rest of that directory",
    "three layouts used to be kept behind guards because clean_tree destroyed nested branches there (a nested branch below an unversioned non-branch directory of a bzr tree; a nested bzr branch in a git tree; a git repository rooted at a VERSIONED directory of a bzr tree); they were fixed in /repo by 74fc42f (clean_tree._filter_out_nested_controldirs), the guards are gone, these layouts are part of the normal litter distribution of every run and failures there carry the ordinary oracle signature (findings/C46-finding-*.json are regression replays now; a plan key 'unguarded' of old replays is ignored)",
    "in those layouts the model asserts: the nested branch, everything at/below its root and the directories leading to it stay; no position on the REST of an otherwise deletable unversioned directory that contains a nested branch (the fixed code keeps such a directory as a whole) and none on unversioned paths inside a versioned directory that is also the root of a nested git repository (the fixed code leaves them to the nested tree)",
    "the ignore file is litter like everything else: unversioned it is an unknown file (and deleting it changes what the next call considers ignored - the model re-reads it per call); in half of the runs that have one it is versioned (tree.add)",
    "symlink targets are relative; after every treesim operation the tree is observed exactly as C09 does, so that the recorded kinds the model tracks are the ones the tree has",
    "the comparison of what the tree reports about versioned paths covers, for git, index entries only (a directory that is versioned merely through tracked files below it and has been replaced on disk by an untracked file or symlink is an ordinary unversioned path)",
    "histories contain no commit that selects more than one path (treesim.MTree1): the bytes of the pack such a commit writes - hence the pack's md5 name and the order of every later index lookup - depend on the iteration order of a Rust HashSet in the dirstate iter_changes code, whose hash keys are drawn from the getrandom stream after process-history-dependent lazy initialisations, so one (seed, plan) gave different event logs in different worker processes; pack/index names are additionally masked in the event log (treesim.mask_content_names)",
    "runs execute in-process (ISOLATION=thread): each run builds tree, nested trees, sentinel, model and Sim from scratch",
]
STEP_CAP = 200000
ISOLATION = "thread"

FILE, DIR, LINK = T.FILE, T.DIR, T.LINK

IGNORE_NAME = {"bzr": ".bzrignore", "git": ".gitignore"}

# --------------------------------------------------------------------------------------
# vocabulary + the tiny ignore / detritus grammar
# --------------------------------------------------------------------------------------

FILE_NAMES = [
    "junk", "notes.txt", "todo.txt", "gen", "core", "out.log", "err.log",  # plain
    "f.orig", "f.rej", "p.orig",  # patch leftovers: unknown by name
    "x.o", "lib.a", "mod.so", "m.pyc", "m.pyo", "z.swp", ".#lock", "#auto#", "bak~",  # default user ignores
    "m.THIS", "m.BASE", "m.OTHER", "s.tmp", "n.~1~",  # detritus
]  # fmt: skip
DIR_NAMES = ["build", "cache", "u", "w", "t1.tmp", "__pycache__", "bzr-orphans", "o.OTHER", "k~", "logs.txt"]
NEST_NAMES = ["sub", "vendor", "n.tmp", "build", "nb~", "__pycache__"]
LINK_NAMES = ["ln", "ln2", "lk.tmp", "lk~", "lnk.log", "l.o"]
PAT_EXTS = ["*.log", "*.orig", "*.rej", "*.txt", "*.tmp", "*.THIS", "*.o"]
PAT_NAMES = ["build", "cache", "gen", "junk", "u", "core", "sub", "ln", "a", "b", "c", "inner"]

DETRITUS_SUFFIXES = (".THIS", ".BASE", ".OTHER", "~", ".tmp")
DEFAULT_SUFFIXES = ("~", ".a", ".o", ".so", ".pyc", ".pyo", ".swn", ".swo", ".swp")


def is_detritus(p):
    return p.endswith(DETRITUS_SUFFIXES)


def default_ignored(base):
    return (
        base.endswith(DEFAULT_SUFFIXES)
        or base.startswith(".#")
        or (len(base) >= 2 and base.startswith("#") and base.endswith("#"))
        or base in ("__pycache__", "bzr-orphans")
    )


def pat_matches_name(pat, base):
    """`name` or `*.ext` against one path component."""
    if pat.startswith("*."):
        return base.endswith(pat[1:])
    return base == pat


def parse_patterns(data):
    out = []
    for line in data.decode("utf-8").split("\n"):
        line = line.strip()
        if line and not line.startswith("#"):
            out.append(line)
    return out


# --------------------------------------------------------------------------------------
# the layout model: MTree + litter bookkeeping
# --------------------------------------------------------------------------------------

KEEP, DELETE, FREE = "keep", "delete", "free"


def link_text(item):
    """The (relative) target of a litter symlink."""
    p, to = item["p"], item["to"]
    depth = p.count("/")
    up = "../" * (depth + 1)
    if to == "out_dir":
        return up + "sentinel"
    if to == "out_file":
        return up + "sentinel/keep.txt"
    if to == "out_sub":
        return up + "sentinel/sd"
    if to == "scratch":
        return up[:-1]
    if to == "root":
        return "." if depth == 0 else ("../" * depth)[:-1]
    if to == "dangling":
        return "nowhere-%d" % item["n"]
    if to == "in":
        return posixpath.relpath(item["t"], T.parent(p) or ".")
    raise KeyError(to)


class Layout:
    def __init__(self, m):
        self.m = m
        self.fl = m.flavour
        self.nests = {}  # root of a nested branch -> format
        self.ctrl = set()  # control directories created inside versioned directories
        self.ign_name = IGNORE_NAME[self.fl]

    # -- structure -----------------------------------------------------------------------
    def in_nest(self, p):
        return any(T.inside(n, p) for n in self.nests) or any(T.inside(c, p) for c in self.ctrl)

    def walked(self, d):
        """bzr: extras() lists the children of d (versioned, recorded and present as a
        directory, and so is every ancestor)."""
        m = self.m
        while True:
            if d == "":
                return True
            e = m.inv.get(d)
            if e is None or e[1] != DIR or m.dkind(d) != DIR:
                return False
            d = T.parent(d)

    def top_candidate(self, p):
        """bzr: the unversioned path extras() reports for p (p itself or the unversioned
        directory that contains it); None when p is versioned or lies where extras() does
        not look."""
        parts = p.split("/")
        for i in range(1, len(parts) + 1):
            q = "/".join(parts[:i])
            if q not in self.m.inv:
                return q if self.walked(T.parent(q)) else None
        return None

    def first_unversioned(self, p):
        parts = p.split("/")
        for i in range(1, len(parts) + 1):
            q = "/".join(parts[:i])
            if q not in self.m.inv:
                return q
        return None

    def patterns(self):
        node = self.m.disk.get(self.ign_name)
        if node is None or node[0] != FILE:
            return []
        return parse_patterns(node[1])

    def ignored(self, p, pats):
        """Is the unversioned path p (bzr: a path extras() reports; git: a non-directory)
        ignored?  Returns None or the kind of rule that says so."""
        base = posixpath.basename(p)
        if default_ignored(base):
            return "default"
        comps = [base] if self.fl == "bzr" else p.split("/")
        for pat in pats:
            if "/" in pat:
                if p == pat or (self.fl == "git" and p.startswith(pat + "/")):
                    return "rooted"
            elif pat_matches_name(pat, comps[-1]):
                return "ext" if pat.startswith("*.") else "name"
            elif any(pat_matches_name(pat, c) for c in comps[:-1]):
                return "component"
        return None

    def resolves_to_dir(self, p):
        node = self.m.disk.get(p)
        if node is None or node[0] != LINK:
            return False
        t = node[1]
        if t.startswith("nowhere"):
            return False
        full = posixpath.normpath(posixpath.join(T.parent(p), t))
        if full == ".":
            return True
        if full == "..":
            return True
        if full.startswith("../"):
            return full[3:] in ("sentinel", "sentinel/sd")
        return self.m.dkind(full) == DIR

    def leaves_tree(self, p):
        node = self.m.disk.get(p)
        return bool(node and node[0] == LINK and not node[1].startswith("nowhere") and posixpath.normpath(posixpath.join(T.parent(p), node[1])).startswith(".."))

    # -- litter ----------------------------------------------------------------------------
    def classify(self, item):
        """('ok' | 'skip', name of the formerly guarded kind of layout the item creates or None)."""
        m, k = self.m, item["k"]
        p = item.get("p")
        if k == "ignorefile":
            return ("ok" if self.ign_name not in m.disk else "skip"), None
        if k in ("file", "dir"):
            return ("ok" if m.can_create(p) and not self.in_nest(p) else "skip"), None
        if k == "link":
            if not m.can_create(p) or self.in_nest(p):
                return "skip", None
            if item["to"] == "in" and (m.dkind(item["t"]) not in (FILE, DIR) or self.in_nest(item["t"]) or T.inside(item["t"], p)):
                return "skip", None
            return "ok", None
        if k == "nest":
            fmt = item["fmt"]
            if item.get("at"):
                if self.fl != "bzr" or fmt != "git" or p == "" or self.in_nest(p) or not self.walked(p) or (p + "/.git") in self.ctrl:
                    return "skip", None
                t = "bzr_tree_git_in_versioned_dir"
            else:
                if not m.can_create(p) or self.in_nest(p):
                    return "skip", None
                t = None
                if self.fl == "bzr":
                    c = self.top_candidate(p)
                    if c is None:
                        return "skip", None
                    if c != p:
                        t = "nested_below_unversioned_dir"
                elif fmt == "bzr":
                    t = "git_tree_nested_bzr"
            return "ok", t
        raise KeyError(k)

    def apply(self, item):
        m, k = self.m, item["k"]
        p = item.get("p")
        if k == "file":
            m.disk[p] = (FILE, T.content(item["n"]), False)
        elif k == "dir":
            m.disk[p] = (DIR, None, False)
        elif k == "link":
            m.disk[p] = (LINK, link_text(item), False)
        elif k == "nest":
            if item.get("at"):
                self.ctrl.add(p + "/.git")
            else:
                m.disk[p] = (DIR, None, False)
                m.disk[p + "/inner"] = (FILE, T.content(item["n"]), False)
                self.nests[p] = item["fmt"]
        elif k == "ignorefile":
            m.disk[self.ign_name] = (FILE, ignore_bytes(item), False)
        else:
            raise KeyError(k)

    # -- the oracle: what may / must happen to one path --------------------------------------
    def category(self, p, pats):
        ign = bool(self.ignored(p, pats))
        return ("ignored" if ign else "unknown") + ("+detritus" if is_detritus(p) else ""), ign

    @staticmethod
    def requested(ign, det, opts):
        return bool((opts["detritus"] and det) or (opts["ignored"] and ign) or (opts["unknown"] and not ign))

    def status(self, q, kind, opts, pats):
        """(KEEP | DELETE | FREE, category) for path q of the disk (kind as on disk)."""
        m = self.m
        if self.in_nest(q):
            return KEEP, "nested"
        if q in m.inv:
            return KEEP, "versioned"
        if self.fl == "bzr":
            c = self.top_candidate(q)
            if c is None:
                c2 = self.first_unversioned(q)
                if c2 is None:
                    return KEEP, "versioned"
                cat, ign = self.category(c2, pats)
                if self.requested(ign, is_detritus(c2), opts) and not opts["dry_run"]:
                    return FREE, cat
                return KEEP, cat
            cat, ign = self.category(c, pats)
            if opts["dry_run"] or not self.requested(ign, is_detritus(c), opts):
                return KEEP, cat
            below = [n for n in self.nests if T.strictly_inside(c, n)]
            if below:
                if any(T.inside(q, n) for n in below):
                    return KEEP, "nested"
                return FREE, cat
            if any(T.inside(T.parent(cd), q) for cd in self.ctrl):
                # inside a versioned directory that is also the root of a nested tree:
                # whose unversioned file this is, is not for the model to say
                return FREE, cat
            return DELETE, cat
        if kind == DIR:
            return (KEEP, "versioned") if m.is_versioned(q) else (FREE, "directory")
        cat, ign = self.category(q, pats)
        if opts["dry_run"] or not self.requested(ign, is_detritus(q), opts):
            return KEEP, cat
        if kind == LINK and self.resolves_to_dir(q):
            return FREE, cat
        return DELETE, cat

    def abstract(self, opts, pats):
        """Abstract state for the distinct-states count: what kinds of things lie where."""
        out = set()
        for q, node in self.m.disk.items():
            st, cat = self.status(q, node[0], opts, pats)
            out.add((st, cat, node[0], min(q.count("/"), 2), self.leaves_tree(q)))
        return (self.fl, tuple(sorted(out)), tuple(sorted(self.nests.values())), optstr(opts))


def ignore_bytes(item):
    return ("# n=%d\n" % item["n"] + "".join(p + "\n" for p in item["patterns"])).encode("utf-8")


def optstr(opts):
    s = "+".join(k[0] for k in ("unknown", "ignored", "detritus") if opts.get(k)) or "none"
    return s + (":dry" if opts.get("dry_run") else "")


# --------------------------------------------------------------------------------------
# generation (pure)
# --------------------------------------------------------------------------------------


def gen_litter(rng, lay, n):
    """n litter items generated against (and applied to) the layout model."""
    m = lay.m
    items = []
    counter = [1000]

    def fresh():
        counter[0] += 1
        return counter[0]

    def pick_parent(prefer_unversioned=False):
        dirs = sorted(d for d in m.disk if m.dkind(d) == DIR and not lay.in_nest(d))
        vers = [d for d in dirs if m.is_versioned(d)]
        unv = [d for d in dirs if not m.is_versioned(d)]
        x = rng.random()
        if unv and (prefer_unversioned or x < 0.25):
            return rng.choice(unv)
        if vers and x < 0.6:
            return rng.choice(vers)
        return ""

    def path_in(par, names):
        name = rng.choice(names)
        return par + "/" + name if par else name

    kinds = ["file"] * 6 + ["dir"] * 2 + ["link"] * 2 + ["nest"] * 2
    tries = 0
    want_ignore = rng.random() < 0.7
    while len(items) < n and tries < n * 20:
        tries += 1
        k = rng.choice(kinds)
        if k == "file":
            it = {"k": "file", "p": path_in(pick_parent(), FILE_NAMES), "n": fresh()}
        elif k == "dir":
            it = {"k": "dir", "p": path_in(pick_parent(), DIR_NAMES)}
        elif k == "link":
            to = rng.choice(["out_dir", "out_dir", "out_file", "out_sub", "scratch", "root", "dangling", "in", "in"])
            it = {"k": "link", "p": path_in(pick_parent(), LINK_NAMES), "to": to, "n": fresh()}
            if to == "in":
                targets = sorted(q for q in m.disk if m.dkind(q) in (FILE, DIR) and not lay.in_nest(q))
                dirs = [q for q in targets if m.dkind(q) == DIR and m.is_versioned(q)]
                if not targets:
                    continue
                it["t"] = rng.choice(dirs if dirs and rng.random() < 0.6 else targets)
        else:
            fmt = rng.choice(["bzr", "git"])
            if lay.fl == "bzr" and rng.random() < 0.2:
                # a git repository rooted at a versioned directory of the outer tree
                cands = sorted(d for d in m.inv if d and lay.walked(d))
                if not cands:
                    continue
                it = {"k": "nest", "p": rng.choice(cands), "fmt": "git", "at": 1, "n": fresh()}
            else:
                par = pick_parent(prefer_unversioned=rng.random() < 0.4)
                it = {"k": "nest", "p": path_in(par, NEST_NAMES), "fmt": fmt, "commit": rng.random() < 0.3, "n": fresh()}
                if fmt == "git" and rng.random() < 0.5:
                    it["gitfile"] = 1
        if lay.classify(it)[0] != "ok":
            continue
        lay.apply(it)
        items.append(it)
    if want_ignore:
        pats = set()
        paths = sorted(q for q in m.disk if not q.startswith("."))
        full_dirs = sorted({T.parent(q) for q in paths if T.parent(q)})
        for _ in range(rng.randint(1, 4)):
            x = rng.random()
            if x < 0.15 and full_dirs:
                pats.add(posixpath.basename(rng.choice(full_dirs)))  # a directory that holds something
            elif x < 0.35 and paths:
                pats.add(posixpath.basename(rng.choice(paths)))
            elif x < 0.55 and [q for q in paths if "/" in q]:
                pats.add(rng.choice([q for q in paths if "/" in q]))
            elif x < 0.75:
                pats.add(rng.choice(PAT_EXTS))
            else:
                pats.add(rng.choice(PAT_NAMES))
        pats = sorted(p for p in pats if p and not p.startswith(("#", "!", ".")))
        it = {"k": "ignorefile", "patterns": pats, "add": rng.random() < 0.5, "n": fresh()}
        if pats and lay.classify(it)[0] == "ok":
            lay.apply(it)
            items.insert(rng.randint(0, len(items)), it)
    return items


def gen_opts(rng):
    x = rng.random()
    if x < 0.06:
        sub = []
    elif x < 0.35:
        sub = ["unknown"]
    else:
        sub = [k for k in ("unknown", "ignored", "detritus") if rng.random() < 0.5] or [rng.choice(["ignored", "detritus"])]
    return {"unknown": "unknown" in sub, "ignored": "ignored" in sub, "detritus": "detritus" in sub, "dry_run": rng.random() < 0.25}


def generate(rng, tier):
    flavour = rng.choice(["bzr", "bzr", "git"])
    names = T.make_namespace(rng)
    weights = T.swarm_weights(rng)
    weights["illegal"] = 0
    weights["lockcycle"] = 0
    model = T.MTree1(flavour)  # every treesim guard on: the history never enters those states
    ops = T.gen_ops(rng, model, rng.randint(3, 10), weights, names)
    lay = Layout(model)
    litter = gen_litter(rng, lay, rng.randint(3, 10))
    cleans = [gen_opts(rng) for _ in range(rng.randint(1, 3))]
    plan = {"flavour": flavour, "names": names, "ops": ops, "litter": litter, "cleans": cleans}
    if flavour == "bzr" and rng.random() < P_RACE:
        race = gen_race(rng, lay, cleans)
        if race:
            plan["race"] = race
    return plan


P_RACE = 0.25
RACE_DELAYS = [0, 0, 0.005, 0.02, 0.05, 0.3, 1.0, 1.0, 1.5, 6.0]


def gen_race(rng, lay, cleans):
    """A second actor for the first clean call that deletes: 1-2 add / smart_add operations
    on paths the model says that call deletes (the call is made a deleting one if needed)."""
    opts = cleans[0]
    opts["dry_run"] = False
    if not (opts["unknown"] or opts["ignored"] or opts["detritus"]):
        opts["unknown"] = True
    pats = lay.patterns()
    tops, inner = [], []
    for q in sorted(lay.m.disk):
        st, _cat = lay.status(q, lay.m.disk[q][0], opts, pats)
        if st != DELETE:
            continue
        (tops if lay.top_candidate(q) == q else inner).append(q)
    adds = []
    for k in range(rng.randint(1, 2)):
        if inner and rng.random() < 0.3:
            adds.append({"o": "smart_add", "p": rng.choice(inner), "n": 2000 + k})
        elif tops:
            adds.append({"o": "add", "p": rng.choice(tops), "id": "race-%d" % k})
    if not adds:
        return None
    return {"adds": adds, "delay": rng.choice(RACE_DELAYS), "think": rng.choice([0, 0.5, 2.0, 2.0]), "cdelay": rng.choice([0, 0, 0, 0.5])}


def shrink_candidates(plan):
    """Drop chunks of the history, of the litter and of the clean calls; simplify items.
    Items that lose what they refer to are skipped by their preconditions."""
    import copy

    for key, keep_one in (("litter", False), ("ops", False), ("cleans", True)):
        lst = plan.get(key) or []
        n = len(lst)
        chunk = n
        while chunk >= 1:
            for start in range(0, n, chunk):
                rest = lst[:start] + lst[start + chunk :]
                if keep_one and not rest:
                    continue
                p = copy.deepcopy(plan)
                p[key] = rest
                yield p
            chunk //= 2
    for i, it in enumerate(plan.get("litter") or []):
        if it["k"] == "ignorefile":
            for j in range(len(it["patterns"])):
                p = copy.deepcopy(plan)
                p["litter"][i]["patterns"] = it["patterns"][:j] + it["patterns"][j + 1 :]
                yield p
            if it.get("add"):
                p = copy.deepcopy(plan)
                p["litter"][i]["add"] = False
                yield p
        if it["k"] == "nest" and it.get("commit"):
            p = copy.deepcopy(plan)
            p["litter"][i]["commit"] = False
            yield p
        if it["k"] == "nest" and it.get("gitfile"):
            p = copy.deepcopy(plan)
            del p["litter"][i]["gitfile"]
            yield p
    race = plan.get("race")
    if race:
        p = copy.deepcopy(plan)
        del p["race"]
        p.pop("sched", None)
        yield p
        for i in range(len(race["adds"])):
            if len(race["adds"]) > 1:
                p = copy.deepcopy(plan)
                p["race"]["adds"] = race["adds"][:i] + race["adds"][i + 1 :]
                yield p
    sched = plan.get("sched")
    if isinstance(sched, list) and len(sched) > 1:
        for cut in (len(sched) // 2, len(sched) * 3 // 4):
            p = copy.deepcopy(plan)
            p["sched"] = sched[:cut]
            yield p
    if "unguarded" in plan:  # key of replays recorded before the guards were removed: ignored
        p = copy.deepcopy(plan)
        del p["unguarded"]
        yield p
    for i, c in enumerate(plan.get("cleans") or []):
        for k in ("unknown", "ignored", "detritus"):
            if c.get(k) and sum(bool(c.get(x)) for x in ("unknown", "ignored", "detritus")) > 1:
                p = copy.deepcopy(plan)
                p["cleans"][i][k] = False
                yield p


# --------------------------------------------------------------------------------------
# real world
# --------------------------------------------------------------------------------------

SENTINEL_FILES = {"keep.txt": b"sentinel keep\n", "sd/k2": b"sentinel k2\n" * 3, "sd/deep/k3": b"k3\n"}


def make_sentinel(scratch):
    root = os.path.join(scratch, "sentinel")
    for rel, data in sorted(SENTINEL_FILES.items()):
        full = os.path.join(root, rel)
        os.makedirs(os.path.dirname(full), exist_ok=True)
        with open(full, "wb") as f:
            f.write(data)
    return root


def safe_disk_snapshot(root, flavour=None):
    """disk_snapshot that survives the disappearance of the directory itself."""
    if not os.path.isdir(root):
        return {}
    return T.disk_snapshot(root, flavour)


def outside_state(scratch):
    """What must not change outside the tree: the sentinel directory (kinds, contents) and
    the git directories of `.git`-file checkouts (moved next to the tree), the names in the
    scratch directory."""
    return (
        dict(safe_disk_snapshot(os.path.join(scratch, "sentinel")), **{"gitdirs/" + k: v for k, v in safe_disk_snapshot(os.path.join(scratch, "gitdirs")).items()}),
        sorted(os.listdir(scratch)) if os.path.isdir(scratch) else ["<scratch directory is gone>"],
    )


def make_nested(root, item, outer_flavour):
    """A real nested branch + working tree at root/p (plain path: not behind the seam)."""
    from breezy import controldir

    full = os.path.join(root, item["p"])
    if not item.get("at"):
        os.mkdir(full)
    fmt = controldir.format_registry.make_controldir("2a" if item["fmt"] == "bzr" else "git")
    wt = controldir.ControlDir.create_standalone_workingtree(full, format=fmt)
    if item.get("at"):
        return
    with open(os.path.join(full, "inner"), "wb") as f:
        f.write(T.content(item["n"]))
    if item.get("commit"):
        wt.smart_add([full])
        kw = {"rev_id": b"nested-%d" % item["n"]} if item["fmt"] == "bzr" else {}
        wt.commit(message="nested", timestamp=1700000000 + item["n"], timezone=0, committer="Sim User <sim@example.com>", reporter=T._quiet_reporter(), **kw)
    if item.get("gitfile") and item["fmt"] == "git":
        # a checkout linked to its repository by a `.git` FILE (linked worktree / submodule
        # checkout): the git directory moves to <scratch>/gitdirs/g<n>, next to the tree,
        # and is referred to by a RELATIVE path (nothing absolute in plan, content or log)
        del wt
        store = os.path.join(os.path.dirname(root), "gitdirs")
        os.makedirs(store, exist_ok=True)
        os.rename(os.path.join(full, ".git"), os.path.join(store, "g%d" % item["n"]))
        with open(os.path.join(full, ".git"), "wb") as f:
            f.write(("gitdir: %sgitdirs/g%d\n" % ("../" * (item["p"].count("/") + 2), item["n"])).encode())


def apply_litter(tree, lay, item):
    """Apply one litter item to the real tree (not to the model); returns the tree."""
    root = tree._sim_root
    k = item["k"]
    if k == "file":
        with open(os.path.join(root, item["p"]), "wb") as f:
            f.write(T.content(item["n"]))
    elif k == "dir":
        os.mkdir(os.path.join(root, item["p"]))
    elif k == "link":
        os.symlink(link_text(item), os.path.join(root, item["p"]))
    elif k == "nest":
        make_nested(root, item, lay.fl)
    elif k == "ignorefile":
        with open(os.path.join(root, lay.ign_name), "wb") as f:
            f.write(ignore_bytes(item))
    else:
        raise KeyError(k)
    return tree


def versioned_view(tree, model):
    """What the tree reports about its versioned paths.  git: index entries only - a
    directory is 'versioned' merely through the tracked files below it, and when such a
    directory has been replaced by an (untracked) file or symlink that object is an
    ordinary unversioned path which clean-tree may delete."""
    snap = T.tree_snapshot(tree)
    if model.flavour == "git":
        return {p: v for p, v in snap.items() if p in model.inv}
    return snap


def model_view(snap, lay):
    """The part of a disk snapshot the model describes: everything except the insides of
    nested control directories."""
    hidden = [n + "/" + T.CONTROL[f] for n, f in lay.nests.items()] + sorted(lay.ctrl)
    return {p: v for p, v in snap.items() if not any(T.inside(h, p) for h in hidden)}


def _h(obj):
    return hashlib.sha1(repr(obj).encode("utf-8", "replace")).hexdigest()[:12]


def _short(v):
    if v is None:
        return None
    return (v[0], _h(v[1]) if isinstance(v[1], bytes) else v[1], v[2])


class Diverged(RuntimeError):
    """The treesim history did not produce the state its model predicts (C09's business,
    or a harness problem) - never a C46 verdict."""


PRIORITY = ["outside", "dry_run", "versioned_path", "nested_branch", "unrequested", "new_path", "kept"]


def check_call(sim, lay, tree, idx, opts, before, vbefore, obefore, after, vafter, oafter, statuses):
    fl = lay.fl
    problems = []  # (tag, category, path, detail)
    if oafter != obefore:
        s0, l0 = obefore
        s1, l1 = oafter
        changed = sorted(set(s0.items()) ^ set(s1.items()), key=repr)[:4]
        problems.append(("outside", "sentinel" if s0 != s1 else "scratch", "", "outside the tree: %r ; scratch listing %r -> %r" % ([(p, _short(v)) for p, v in changed], l0, l1)))
    for q in sorted(before):
        st, cat = statuses[q]
        now = after.get(q)
        same = now == before[q]
        if st == KEEP and not same:
            if opts["dry_run"]:
                tag = "dry_run"
            elif cat in ("versioned", "acknowledged-add"):
                tag = "versioned_path"
            elif cat == "nested":
                tag = "nested_branch"
            else:
                tag = "unrequested"
            problems.append((tag, cat, q, "%r (%s) had to stay: before %r, after %r" % (q, cat, _short(before[q]), _short(now))))
        elif st == DELETE and now is not None:
            problems.append(("kept", cat, q, "%r (%s) is in a requested class and deletable but is still there" % (q, cat)))
        elif st == FREE and now is not None and not same and before[q][0] != DIR:
            problems.append(("unrequested", cat, q, "%r (%s) was modified: before %r, after %r" % (q, cat, _short(before[q]), _short(now))))
    for q in sorted(after):
        if q not in before:
            problems.append(("new_path", "new", q, "%r appeared" % q))
    vafter = {p: v for p, v in vafter.items() if p in vbefore or p == ""}  # paths versioned by the racing actor: judged per path above
    if vafter != vbefore:
        diff = sorted(set(vbefore.items()) ^ set(vafter.items()), key=repr)[:4]
        problems.append(("versioned_path", "versioned", "", "the versioned content the tree reports changed: %r" % [(p, _short(v[:3])) for p, v in diff]))
    if not problems:
        return
    problems.sort(key=lambda pr: (PRIORITY.index(pr[0]), pr[2]))
    tag, cat, q, detail = problems[0]
    more = "; ".join("%s:%s" % (p[0], p[2]) for p in problems[1:6])
    T.fail(
        sim,
        PROPERTY,
        tag,
        [fl, cat, optstr(opts)],
        "clean_tree call %d %s: %s%s" % (idx, json.dumps(opts, sort_keys=True), detail, (" [also: %s]" % more) if more else ""),
    )


def coverage_probes(sim, lay, before, statuses, pats):
    """What the layouts contained (evidence only)."""
    for q, (st, cat) in statuses.items():
        if cat == "versioned" or (before[q][0] == DIR and lay.fl == "git" and cat != "nested"):
            continue
        if cat == "nested":
            if q in lay.nests or q in lay.ctrl:
                sim.probe("path_nested_root")
            continue
        top = lay.fl == "git" or lay.top_candidate(q) == q
        if not top:
            continue
        sim.probe("path_%s_%s" % (st, cat))
        why = lay.ignored(q, pats)
        if why:
            sim.probe("ignored_by_" + why)
        if lay.leaves_tree(q):
            sim.probe("link_leaving_tree_" + st)
        if before[q][0] == DIR and any(T.strictly_inside(q, x) for x in before):
            sim.probe("unversioned_dir_with_contents_" + st)
        if q == lay.ign_name:
            sim.probe("ignore_file_unversioned_" + st)
    if lay.ign_name in lay.m.inv:
        sim.probe("ignore_file_versioned")
    for q in lay.m.inv:
        if q and lay.ignored(q, pats):
            sim.probe("versioned_path_matching_ignore_rule")
            break


def install_tree_lock_seam():
    """Two actors of one run are two PROCESSES of the simulated world, but one process of
    the real one, and the dirstate file lock (fcntl, taken by the Rust DirState) does not
    exclude within a process: a read lock is granted while another tree object holds the
    write lock (measured: refused with LockContention between two real processes, granted
    in-process, also with -Dstrict_locks), and a write lock is granted while another tree
    object holds a read lock (in-process only a mutter 'write lock taken w/ an open read
    lock' unless -Dstrict_locks; soak replay C46-201039160850831: the adder's dirstate write
    lock was taken while clean-tree held its read lock across the prompt).  This seam
    (installed once, idempotent, active only while a Sim runs several actors) decides at the
    moment the dirstate lock would be taken (current_dirstate() inside lock_read /
    _lock_self_write, after the LockDir of the checkout was acquired) as the OS decides
    between two processes - readers exclude a writer, a writer excludes everybody, the loser
    gets LockContention at once (the dirstate lock does not wait) - and makes taking /
    releasing the tree lock a scheduling point."""
    import breezy.bzr.workingtree_4 as w4
    from breezy import errors

    from simkit.sim import CTX

    cls = w4.DirStateWorkingTree
    if getattr(cls, "_verif_c46_lock_seam", False):
        return
    real_read, real_self_write, real_unlock, real_current = cls.lock_read, cls._lock_self_write, cls.unlock, cls.current_dirstate

    def multi_sim():
        s = getattr(CTX, "sim", None)
        return s if s is not None and s.multi else None

    def holders(s, tree):
        reg = s.__dict__.setdefault("_c46_tree_locks", {})
        return reg.setdefault(tree.basedir, {})

    def current_dirstate(self):
        # lock_read / _lock_self_write call this immediately before they take the dirstate
        # file lock (no seam operation in between): the moment the OS would decide
        want = self.__dict__.pop("_verif_c46_want", None)
        s = multi_sim() if want else None
        if s is not None:
            me = s.current().name
            others = [mode for name, mode in holders(s, self).values() if name != me]
            if (want == "w" and others) or (want == "r" and "w" in others):
                raise errors.LockContention("dirstate of %s (%s-locked by another process)" % (os.path.basename(self.basedir), "write" if "w" in others else "read"))
            holders(s, self)[id(self)] = (me, want)
        return real_current(self)

    def locking(self, s, mode, real):
        first = s is not None and not self._control_files._lock_count
        if first:
            s.before_op("tree.lock_" + ("read" if mode == "r" else "write"), "t", False)
            s.after_op("tree.lock_" + ("read" if mode == "r" else "write"), "t")
            self._verif_c46_want = mode
        try:
            return real(self)
        except BaseException:
            if first:
                holders(s, self).pop(id(self), None)
            raise
        finally:
            self.__dict__.pop("_verif_c46_want", None)

    def lock_read(self):
        return locking(self, multi_sim(), "r", real_read)

    def _lock_self_write(self):
        return locking(self, multi_sim(), "w", real_self_write)

    def unlock(self):
        s = multi_sim()
        last = self._control_files._lock_count == 1
        try:
            return real_unlock(self)
        finally:
            if s is not None and last:
                holders(s, self).pop(id(self), None)
                s.before_op("tree.unlock", "t", False)
                s.after_op("tree.unlock", "t")

    cls.lock_read = lock_read
    cls._lock_self_write = _lock_self_write
    cls.unlock = unlock
    cls.current_dirstate = current_dirstate
    cls._verif_c46_lock_seam = True


class PromptUI:
    """The simulated user at clean-tree's confirmation prompt: thinks for a while (virtual
    time; a scheduling point for the other actor), then says yes."""

    def __init__(self, base, think):
        self._base = base
        self._think = think

    def __getattr__(self, name):
        return getattr(self._base, name)

    def note(self, msg):
        pass

    def show_warning(self, msg):
        pass

    def get_boolean(self, prompt, **kwargs):
        from simkit.sim import cur_sim

        s = cur_sim()
        s.before_op("ui.confirm", "", False)
        s.after_op("ui.confirm", "")
        if self._think:
            s.sleep(self._think)
        return True


def run_race(sim, lay, root, idx, opts, race, statuses):
    """The clean call as actor `cleaner` (its own tree object, opened through the storage
    seam, with the confirmation prompt) against actor `adder` (its own tree object) that
    versions paths the call is about to delete.  Returns (exception raised by clean_tree or
    None, [(op, exception or None)]) or None when no add is applicable."""
    from breezy import clean_tree, ui

    from simkit.sim import SimCrash

    m2 = lay.m.copy()
    adds = []
    for op in race.get("adds", []):
        st = statuses.get(op.get("p"))
        if op.get("o") not in ("add", "smart_add") or st is None or st[0] != DELETE or m2.classify(op) != "ok":
            continue
        m2.apply(op)
        adds.append(op)
    if not adds:
        return None
    box = {"raised": None}
    results = []

    def cleaner():
        if race.get("cdelay"):
            sim.sleep(race["cdelay"])  # the user starts clean-tree a little later
        try:
            clean_tree.clean_tree(T.tree_url(root, "bzr"), unknown=opts["unknown"], ignored=opts["ignored"], detritus=opts["detritus"], dry_run=False, no_prompt=False)
        except (SimCrash, KeyboardInterrupt, SystemExit):
            raise
        except Exception as e:  # noqa: BLE001 - not judged
            box["raised"] = e

    def adder():
        if race.get("delay"):
            sim.sleep(race["delay"])
        for op in adds:
            t = T.open_tree(root, "bzr")  # every command is a process of its own
            try:
                T.apply_op(t, lay.m, op)
                err = None
            except (SimCrash, KeyboardInterrupt, SystemExit):
                raise
            except Exception as e:  # noqa: BLE001 - a refusal: the path stays unversioned
                err = e
            del t
            results.append((op, err))
            sim.event("adder", json.dumps(op, sort_keys=True), "acknowledged" if err is None else type(err).__name__)

    install_tree_lock_seam()
    names = ("cleaner@%d" % idx, "adder@%d" % idx)
    old_ui = ui.ui_factory
    ui.ui_factory = PromptUI(old_ui, race.get("think", 0))
    try:
        sim.spawn(names[0], cleaner)
        sim.spawn(names[1], adder)
        sim.sched_policy = "random"
        sim.run_actors()
    finally:
        ui.ui_factory = old_ui
    for nm in names:
        ex = sim.actors[nm].exc
        if ex is not None:
            raise RuntimeError("actor %s died: %r" % (nm, ex)) from ex
    return box["raised"], results


def execute(sim, plan):
    warm()
    T.quiet()
    T.settle_randomness(sim.seed)
    world.setup_sim(sim)
    fl = plan["flavour"]
    scratch = os.environ["VERIF_SCRATCH"]
    root = os.path.join(scratch, "t")
    T.relativise_log(sim, root)
    T.mask_content_names(sim)
    make_sentinel(scratch)
    from breezy import clean_tree, ignores

    ignores.get_user_ignores()  # creates BRZ_HOME/breezy/ignore now, not during a call under test
    tree = T.make_tree(sim, fl, "t")
    model = T.MTree1(fl)
    # 1. the history
    for i, op in enumerate(plan["ops"]):
        if op.get("bad") or model.classify(op) != "ok":
            sim.event("skip", i, op["o"])
            continue
        try:
            tree = T.apply_op(tree, model, op)
        except Exception as e:  # noqa: BLE001
            raise Diverged("history op %s raised %r" % (json.dumps(op), e)) from e
        model.apply(op)
        T.observe(tree, fl)  # the observation regime of C09 (recorded kinds get refreshed)
        sim.event("op", i, json.dumps(op, sort_keys=True))
    snap = T.disk_snapshot(root, fl)
    if snap != model.disk:
        raise Diverged("after the history the disk differs from the model: %r" % sorted(set(snap.items()) ^ set(model.disk.items()), key=repr)[:6])
    # 2. the litter
    lay = Layout(model)  # plan["unguarded"] (replays recorded while guards existed) is ignored
    napplied = 0
    for i, item in enumerate(plan["litter"]):
        cls, special = lay.classify(item)
        if cls != "ok":
            sim.event("litter-skip", i, item["k"])
            continue
        tree = apply_litter(tree, lay, item)
        lay.apply(item)
        if item["k"] == "ignorefile" and item.get("add"):
            op = {"o": "add", "p": lay.ign_name, "id": "ignorefile-id"}
            if model.classify(op) == "ok":
                tree = T.apply_op(tree, model, op)
                model.apply(op)
        if special:
            sim.probe("layout_" + special)
        napplied += 1
        sim.probe("litter_" + item["k"] + ("_" + item["to"] if item["k"] == "link" else "") + ("_" + item["fmt"] + ("_gitfile" if item.get("gitfile") else "") if item["k"] == "nest" else ""))
        sim.event("litter", i, json.dumps(item, sort_keys=True))
    tree = T.reopen(tree)
    snap = T.disk_snapshot(root, fl)
    if model_view(snap, lay) != model.disk:
        raise Diverged("after the litter phase the disk differs from the model: %r" % sorted(set(model_view(snap, lay).items()) ^ set(model.disk.items()), key=repr)[:6])
    # 3. the calls under test
    interesting = False
    race_idx = None
    if plan.get("race") and fl == "bzr":
        race_idx = next((i for i, o in enumerate(plan["cleans"]) if not o["dry_run"] and (o["unknown"] or o["ignored"] or o["detritus"])), None)
    for idx, opts in enumerate(plan["cleans"]):
        before = T.disk_snapshot(root, fl)
        vbefore = versioned_view(tree, model)
        obefore = outside_state(scratch)
        pats = lay.patterns()
        statuses = {q: lay.status(q, v[0], opts, pats) for q, v in before.items()}
        sim.state_seen(lay.abstract(opts, pats))
        coverage_probes(sim, lay, before, statuses, pats)
        raised = None
        raced = None
        if idx == race_idx:
            raced = run_race(sim, lay, root, idx, opts, plan["race"], statuses)
        if raced is not None:
            raised, results = raced
            sim.probe("race_run")
            if raised is not None:
                sim.probe("race_cleaner_raised_" + type(raised).__name__)
            tree = T.reopen(tree)
            # an acknowledged add made its path versioned: from then on it must stay,
            # whatever the interleaving.  A refused one leaves the path as it was.
            touched = set()
            for op, err in results:
                if err is not None:
                    sim.probe("race_add_refused_" + type(err).__name__)
                    continue
                sim.probe("race_add_acknowledged")
                touched.add(lay.top_candidate(op["p"]))
                if model.classify(op) != "ok":
                    raise Diverged("acknowledged %s is not applicable to the model" % json.dumps(op))
                model.apply(op)
            if touched:
                new = {}
                for q, v in before.items():
                    if q in model.inv and statuses[q][1] != "versioned":
                        new[q] = (KEEP, "acknowledged-add")
                    elif any(c is not None and T.inside(c, q) for c in touched):
                        # the rest of an unversioned directory that got versioned meanwhile
                        new[q] = (FREE, statuses[q][1]) if statuses[q][0] == DELETE else statuses[q]
                    else:
                        new[q] = statuses[q]
                statuses = new
        else:
            try:
                clean_tree.clean_tree(root, unknown=opts["unknown"], ignored=opts["ignored"], detritus=opts["detritus"], dry_run=opts["dry_run"], no_prompt=True)
            except Exception as e:  # noqa: BLE001 - not judged (see ASSUMPTIONS); the safety oracles still are
                raised = e
                sim.probe("raised_" + type(e).__name__)
        after = safe_disk_snapshot(root, fl)
        try:
            vafter = versioned_view(tree, model)
        except Exception as e:  # noqa: BLE001 - the tree cannot even be read any more
            vafter = {"": ("unreadable: %s" % type(e).__name__, None, False, None)}
        oafter = outside_state(scratch)
        if raised is not None:
            # an interrupted call may leave requested paths behind: completeness not judged
            statuses = {q: ((FREE, c) if s == DELETE else (s, c)) for q, (s, c) in statuses.items()}
        gone = sorted(q for q in before if q not in after)
        top_gone = [q for q in gone if not any(T.strictly_inside(g, q) for g in gone)]
        # names inside nested control directories (pack names, ...) are not a function of the
        # plan: log them as "<control dir>/*"
        hidden = [n + "/" + T.CONTROL[f] for n, f in lay.nests.items()] + sorted(lay.ctrl)
        top_gone = sorted({next((h + "/*" for h in hidden if T.strictly_inside(h, q)), q) for q in top_gone})
        sim.event("clean", idx, optstr(opts), "raised=%s" % (type(raised).__name__ if raised else "-"), json.dumps(top_gone))
        check_call(sim, lay, tree, idx, opts, before, vbefore, obefore, after, vafter, oafter, statuses)
        sim.probe("call_" + optstr(opts))
        if gone:
            sim.probe("calls_that_deleted")
        stay = [q for q, (s, c) in statuses.items() if s == KEEP and c != "versioned" and (c == "nested" or before[q][0] != DIR)]
        if gone and stay:
            interesting = True
        # the model follows the (validated) disk
        for q in [q for q in model.disk if q not in after]:
            del model.disk[q]
        for n in [n for n in lay.nests if n not in after]:
            del lay.nests[n]
        sim.event("after", idx, _h(sorted((p, _short(v)) for p, v in model_view(after, lay).items())))
    sim.nontrivial = interesting
    return tree, lay


# --------------------------------------------------------------------------------------
# warm-up, config
# --------------------------------------------------------------------------------------

def _warm_ops():
    from . import C09

    return [op for op in C09.WARM_OPS if not op.get("bad")]


WARM_LITTER = [
    {"k": "file", "p": "junk", "n": 1001},
    {"k": "file", "p": "d/x.o", "n": 1002},
    {"k": "dir", "p": "u"},
    {"k": "file", "p": "u/out.log", "n": 1003},
    {"k": "link", "p": "ln", "to": "out_dir", "n": 1004},
    {"k": "link", "p": "d/ln2", "to": "in", "t": "d", "n": 1005},
    {"k": "nest", "p": "sub", "fmt": "bzr", "commit": True, "n": 1006},
    {"k": "nest", "p": "vendor", "fmt": "git", "commit": True, "n": 1007},
    {"k": "nest", "p": "u/sub", "fmt": "git", "gitfile": 1, "n": 1008},
    {"k": "nest", "p": "d", "fmt": "git", "at": 1, "n": 1009},
    {"k": "ignorefile", "patterns": ["*.log", "junk", "d/gen"], "add": True, "n": 1010},
]
WARM_CLEANS = [
    {"unknown": True, "ignored": True, "detritus": True, "dry_run": True},
    {"unknown": False, "ignored": True, "detritus": True, "dry_run": False},
    {"unknown": True, "ignored": False, "detritus": False, "dry_run": False},
]

_warmed = []


def warm():
    world.quiet_breezy()
    T.quiet()
    if _warmed:
        return
    _warmed.append(1)
    import shutil
    import tempfile

    import breezy.bzr.workingtree_4  # noqa: F401
    import breezy.clean_tree  # noqa: F401
    import breezy.commit  # noqa: F401
    import breezy.git.workingtree  # noqa: F401
    import breezy.globbing  # noqa: F401
    import breezy.ignores  # noqa: F401
    import breezy.transform  # noqa: F401
    from simkit.sim import Sim

    install_tree_lock_seam()
    saved = {k: os.environ.get(k) for k in ("VERIF_SCRATCH", "BRZ_HOME", "HOME")}
    tmp = tempfile.mkdtemp(prefix="verif-warm-", dir="/dev/shm")
    try:
        for fl in ("bzr", "git"):
            for variant in (0,):
                sc = os.path.join(tmp, "%s%d" % (fl, variant))
                os.makedirs(os.path.join(sc, "home"))
                os.environ.update(VERIF_SCRATCH=sc, BRZ_HOME=os.path.join(sc, "home"), HOME=os.path.join(sc, "home"))
                plan = {"flavour": fl, "ops": _warm_ops(), "litter": WARM_LITTER, "cleans": WARM_CLEANS}
                if fl == "bzr":
                    plan["race"] = {"adds": [{"o": "add", "p": "junk", "id": "race-0"}, {"o": "smart_add", "p": "u/out.log", "n": 2001}], "delay": 0.05, "think": 0.5}
                sim = Sim(1, plan, step_cap=10**6)
                try:
                    execute(sim, plan)
                except Exception:  # noqa: BLE001 - a dry run; real runs report
                    pass
    finally:
        for k, v in saved.items():
            if v is None:
                os.environ.pop(k, None)
            else:
                os.environ[k] = v
        shutil.rmtree(tmp, ignore_errors=True)
    import gc

    gc.collect()
    gc.freeze()


def config(tier):
    if tier == "thorough":
        return {"budget_s": 700, "run_timeout": 180, "selftest": 48, "workers": 8}
    return {"budget_s": 50, "run_timeout": 180, "selftest": 24, "workers": 8}
