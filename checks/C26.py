"""C26 — Directory locks provide mutual exclusion.

2-4 simulated processes run seeded scripts over attempt_lock / wait_lock / confirm /
unlock / peek -> force_break / steal-dead / die on ONE on-disk LockDir; the seeded
scheduler pre-empts at every transport operation.  Ghost state is evaluated after every
operation."""

import os

from simkit import world
from simkit.sim import SimCrash
from simkit.transport import raw

from . import locksim

PROPERTY = "C26"
LEVEL = "exploration"
RULE = (
    "one case = one seeded run (scripts for 2-4 lockers + schedule policy + optional crash point); "
    "non-trivial = at least two lockers each performed a mutating transport op on the lock and the scheduler "
    "switched between lockers at least once; distinct = distinct event-log digests of such runs"
)
COMPONENTS = {
    "real": ["breezy.lockdir.LockDir", "breezy._cmd_rs.LockHeldInfo (Rust)", "osutils.is_local_pid_dead (Rust, on real token processes)", "breezy.config.GlobalStack (locks.steal_dead)", "dromedary MemoryTransport"],
    "simulated": ["process scheduling (baton-passing threads, pre-emption at every transport op)", "clock of breezy.lockdir (virtual)", "process death (token process killed, actor refused at the seam)"],
    "stub": ["UI (SilentUIFactory)", "foreign-host holder (info file written directly)"],
}
ASSUMPTIONS = [
    "transport rename/mkdir are atomic; rename onto an existing non-empty directory fails (MemoryTransport semantics)",
    "a process that stops performs no further transport operation (enforced at the seam)",
    "the exemption 'a user or policy broke a lock whose holder was still alive' is applied to the holder whose info was examined by force_break",
]
STEP_CAP = 4000


ISOLATION = "thread"  # runs are a few ms; a fork per run costs ten times the run


def warm():
    locksim.warm()
    install_wrappers()


def config(tier):
    if tier == "thorough":
        return {"budget_s": 600, "run_timeout": 60, "selftest": 64}
    return {"budget_s": 45, "run_timeout": 30, "selftest": 32}


OPS = ["attempt", "wait", "unlock", "confirm", "peek", "break", "attempt_unlock"]


def generate(rng, tier):
    """Swarm: a third of the runs are the 'stale lock' template (a holder that died
    holding the lock before anyone else starts, several contenders that begin by trying
    to take it, few pre-emptions placed early), the rest are unconstrained scripts."""
    n = rng.choice([2, 3, 3, 3, 4, 4])
    names = ["A", "B", "C", "D"][:n]
    template = rng.random() < 0.35
    steal = rng.random() < (0.7 if template else 0.4)
    weights = {op: rng.choice([0, 1, 1, 2, 3]) for op in OPS}
    weights["attempt"] = max(weights["attempt"], 1)
    if rng.random() < 0.7:
        weights["peek"] = max(weights["peek"], 2)
        weights["break"] = max(weights["break"], 2)
    actors = {}
    dead_holder = template or rng.random() < 0.5
    for i, name in enumerate(names):
        if i == 0 and dead_holder:
            actors[name] = [["attempt"], ["die"]]
            continue
        k = rng.randint(1, 6)
        pool = [op for op in OPS for _ in range(weights[op])]
        script = []
        for _ in range(k):
            op = rng.choice(pool)
            if op == "wait":
                script.append([op, rng.choice([0, 1, 3, 10])])
            else:
                script.append([op])
        if template:
            script[0] = rng.choice([["attempt"], ["attempt"], ["wait", rng.choice([0, 1, 3])], ["peek"]])
            if script[0] == ["peek"]:
                script.insert(1, ["break"])
        if rng.random() < 0.15:
            script.insert(rng.randrange(len(script) + 1), ["die"])
        actors[name] = script
    plan = {"actors": actors, "steal_dead": steal, "policy": rng.choice(["random", "random", "pct", "pct", "rr"])}
    if template:
        plan["dead_first"] = names[0]
        plan["policy"] = rng.choice(["pct", "pct", "pct", "random"])
    if plan["policy"] == "pct":
        hi = 45 if template else 120
        plan["preempt_at"] = sorted(rng.sample(range(1, hi), rng.randint(1, 3 if template else 5)))
    if rng.random() < 0.15 and not template:
        plan["foreign"] = True
    if rng.random() < 0.2:
        victim = rng.choice(names)
        plan["faults"] = [{"actor": victim, "at": rng.randint(1, 8), "count": "mut", "kind": "crash", "applied": rng.random() < 0.5}]
    return plan


class Ghost:
    def __init__(self, sim, transport):
        self.sim = sim
        self.t = transport
        self.lds = {}  # actor name -> current LockDir
        self.exempt = set()  # nonces (lock tenures) examined by a force_break decision
        self.breaking = {}  # actor name -> examined nonce (inside force_break)
        self.in_steal = {}
        self.pid_owner = {}
        self.mutators = set()
        self.foreign_nonce = None
        self.last_seen = {}

    def alive_holders(self):
        out = []
        for name, ld in self.lds.items():
            if self.sim.actors[name].dead:
                continue
            if not ld.is_held:
                continue
            if getattr(ld, "nonce", None) in self.exempt:
                continue  # this tenure was examined and broken by a user/policy decision
            out.append(name)
        return out

    def invariant(self, sim):
        h = self.alive_holders()
        sim.state_seen((tuple(sorted(h)), len(self.exempt), raw(self.t).has("lock/held")))
        if len(h) > 1:
            sim.fail("mutex", ["mutex", "two-live-holders"], f"live lockers {h} all believe they hold the lock")

    def monitor(self, sim, actor, phase, op, path, extra):
        if phase == "after" and op == "get" and path.endswith("/lock/held/info"):
            seen = locksim.read_info(self.t, "lock/held/info")
            self.last_seen[actor.name] = seen[0] if seen else None
        if phase != "before":
            return
        if op in ("mkdir", "put_na", "rename", "delete", "rmdir", "put"):
            self.mutators.add(actor.name)
        if op == "rename" and path.endswith("/lock/held") and "/releasing." in extra:
            # unlock moves the lock aside; it may only ever move its OWN lock
            ld = self.lds.get(actor.name)
            mine = getattr(ld, "nonce", None)
            ondisk = locksim.read_info(self.t, "lock/held/info")
            if ondisk is not None and mine is not None and ondisk[0] != mine:
                victim = [n for n, l in self.lds.items() if getattr(l, "nonce", None) == ondisk[0]]
                raced = self.last_seen.get(actor.name) == mine
                site = "unlock:rename-after-break-and-reacquire" if raced else "unlock:rename-without-ownership-check"
                sim.probe("unlock_removed_other")
                sim.fail(
                    "unlock_only_own",
                    ["unlock_only_own", "preempt", site],
                    f"{actor.name} (nonce {mine!r}) releases, but its rename removes the lock of {victim} (nonce {ondisk[0]!r})",
                )
        if op == "rename" and path.endswith("/lock/held") and "/broken." in extra:
            examined = self.breaking.get(actor.name)
            ondisk = locksim.read_info(self.t, "lock/held/info")
            if ondisk is not None and examined is not None and ondisk[0] != examined:
                victim = [n for n, ld in self.lds.items() if getattr(ld, "nonce", None) == ondisk[0]]
                sim.probe("break_mismatch")
                # the known race: the breaker's own re-check matched, the holder changed
                # between that re-check and the rename.  Anything else (no matching
                # re-check at all) is a different defect.
                raced = self.last_seen.get(actor.name) == examined
                site = "force_break:rename-after-foreign-acquire" if raced else "force_break:rename-without-matching-recheck"
                sim.fail(
                    "break_only_examined",
                    ["break_only_examined", "preempt", site],
                    f"{actor.name} examined holder nonce {examined!r} but its rename removes the lock of {victim} (nonce {ondisk[0]!r})",
                )


_orig = {}


def install_wrappers():
    """Observation-only wrappers (installed once; they consult the ghost state of the run
    that owns the calling thread and always call the current function from /repo)."""
    from breezy import lockdir
    from simkit.sim import cur_sim

    if _orig:
        return
    _orig["break"] = orig_break = lockdir.LockDir.force_break
    _orig["contention"] = orig_contention = lockdir.LockDir._handle_lock_contention
    host_user = {}

    def force_break(self, dead_holder_info, *args, **kwargs):
        sim = cur_sim()
        g = getattr(sim, "ghost", None)
        if g is None:
            return orig_break(self, dead_holder_info, *args, **kwargs)
        name = sim.current().name
        nonce = getattr(dead_holder_info, "nonce", None)
        g.breaking[name] = nonce
        if name in g.in_steal:
            sim.probe("steal_dead_fired")
            owner = g.pid_owner.get(dead_holder_info.pid)
            ours = _ours(host_user)
            if nonce == g.foreign_nonce and nonce is not None:
                sim.fail("steal_policy", ["steal_policy", "foreign-host"], f"{name} stole the lock of a holder on another host")
            if (dead_holder_info.hostname, dead_holder_info.user) != ours:
                sim.fail("steal_policy", ["steal_policy", "not-ours"], f"{name} stole a lock recorded for {dead_holder_info.hostname}/{dead_holder_info.user}")
            if owner is None or not sim.actors[owner].dead:
                sim.fail("steal_policy", ["steal_policy", "holder-alive"], f"{name} stole the lock of {owner}, whose process exists")
        # the holder whose info was examined is the one the user/policy decided to break
        if nonce is not None:
            g.exempt.add(nonce)
        for other, ld in g.lds.items():
            if other != name and getattr(ld, "nonce", None) == nonce and not sim.actors[other].dead:
                sim.probe("broke_live_holder")
        try:
            return orig_break(self, dead_holder_info, *args, **kwargs)
        finally:
            g.breaking.pop(name, None)

    def handle(self, other_holder, *args, **kwargs):
        sim = cur_sim()
        g = getattr(sim, "ghost", None)
        if g is None:
            return orig_contention(self, other_holder, *args, **kwargs)
        name = sim.current().name
        g.in_steal[name] = True
        try:
            return orig_contention(self, other_holder, *args, **kwargs)
        finally:
            g.in_steal.pop(name, None)

    lockdir.LockDir.force_break = force_break
    lockdir.LockDir._handle_lock_contention = handle


def _ours(cache):
    if "v" not in cache:
        from breezy._cmd_rs import LockHeldInfo

        i = LockHeldInfo.for_this_process(None)
        cache["v"] = (i.hostname, i.user)
    return cache["v"]


def execute(sim, plan):
    from breezy import errors, lockdir
    from breezy.transport import get_transport

    warm()
    world.setup_sim(sim)
    locksim.write_global_config(plan.get("steal_dead", False))
    url = world.new_store("lk")
    t0 = get_transport(url)
    lockdir.LockDir(t0, "lock").create()
    tokens = locksim.Tokens(sim)
    g = Ghost(sim, t0)
    sim.ghost = g
    sim.monitors.append(g.monitor)
    sim.invariants.append(g.invariant)
    if plan.get("foreign"):
        # a holder on another machine (we can never tell whether it is alive)
        rt = raw(t0)
        rt.mkdir("lock/held")
        rt.put_bytes("lock/held/info", b"pid: 4000000\nuser: root\nnonce: foreignforeignforeign\nhostname: elsewhere.example\nstart_time:\n  secs_since_epoch: 1790000000\n  nanos_since_epoch: 1\n")
        g.foreign_nonce = b"foreignforeignforeign"
    scripts = plan["actors"]
    mortal = {n: any(op[0] == "die" for op in s) or any(f.get("actor") == n for f in plan.get("faults", [])) for n, s in scripts.items()}

    def new_ld(name):
        pid = tokens.pid_for(name, mortal[name])
        g.pid_owner[pid] = name
        ld = lockdir.LockDir(t0.clone(), "lock", extra_holder_info={"pid": str(pid)})
        ld._report_function = lambda *a, **k: None
        g.lds[name] = ld
        return ld

    def run_script(name, script):
        ld = new_ld(name)
        info = None
        me = sim.actors[name]
        for op in script:
            if me.dead:
                return
            kind = op[0]
            try:
                if kind == "attempt":
                    if not ld.is_held:
                        ld.attempt_lock()
                        sim.event(name, "acquired")
                        sim.probe("acquired")
                elif kind == "attempt_unlock":
                    if not ld.is_held:
                        ld.attempt_lock()
                        sim.event(name, "acquired")
                        sim.probe("acquired")
                        ld.unlock()
                elif kind == "wait":
                    if not ld.is_held:
                        ld.wait_lock(timeout=op[1], poll=1)
                        sim.event(name, "acquired")
                        sim.probe("acquired")
                elif kind == "unlock":
                    if ld.is_held:
                        ld.unlock()
                elif kind == "confirm":
                    if ld.is_held:
                        ld.confirm()
                elif kind == "peek":
                    info = ld.peek()
                elif kind == "break":
                    if info is not None and not ld.is_held:
                        ld.force_break(info)
                        sim.probe("force_break_done")
                elif kind == "die":
                    sim.die_here()
            except SimCrash:
                return
            except errors.LockContention:
                sim.event(name, kind, "LockContention")
                sim.probe("lock_contention")
            except (errors.LockBroken, errors.LockNotHeld) as e:
                sim.event(name, kind, type(e).__name__)
                sim.probe("lock_broken_seen")
                ld = new_ld(name)  # the command aborts; a later command starts clean
            except errors.LockBreakMismatch:
                sim.event(name, kind, "LockBreakMismatch")
                sim.probe("break_mismatch_raised")
            except Exception as e:  # noqa: BLE001 - an outcome under races, recorded in the log
                if me.dead:
                    return
                sim.event(name, kind, "raised", type(e).__name__)
                sim.probe("other_exception")
                if not isinstance(e, (errors.BzrError, OSError)) and type(e).__module__.split(".")[0] not in ("dromedary",):
                    raise

    first = plan.get("dead_first")
    try:
        if first in scripts:
            # the stale holder took the lock and died before anyone else started
            sim.spawn(first, (lambda n=first, s=scripts[first]: run_script(n, s)))
            sim.run_actors()
            sim.steps = 0  # pre-emption points count from the start of the contention
        for name, script in scripts.items():
            if name != first:
                sim.spawn(name, (lambda n=name, s=script: run_script(n, s)))
        sim.run_actors()
    finally:
        tokens.close()
    for name in scripts:
        a = sim.actors[name]
        if a.exc is not None and not isinstance(a.exc, SimCrash):
            raise a.exc
    sim.nontrivial = len(g.mutators) >= 2 and sim.switches >= 1
