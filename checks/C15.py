"""C15 — Shelving and unshelving restore exactly the shelved changes.

One run = one 2a/dirstate working tree driven through a seeded treesim history (grow,
commit, then pending changes: multi-hunk text edits, renames, moves, adds, removals, kind
changes, chmod, missing files) followed by a seeded *shelf script*: shelve a model-chosen
subset of `ShelfCreator.iter_shelvable()` items (for text changes a subset of hunks, selected
the way `shelf_ui.Shelver._select_hunks` does it, without the UI), stack further shelves on the
result, reopen the tree, unshelve in LIFO order (`get_unshelver` -> `make_merger().do_merge()`
-> `delete_shelf`), delete shelves.

Oracles (model = treesim.MTree + the shelve model below, no breezy code):
* the shelvable items are the ones the model derives from the pending changes;
* after shelve: disk, versioned paths, file ids, kinds, texts, link targets, exec bits and
  iter_changes against the basis equal the model state with exactly the selected changes
  reverted and every other change kept;
* after unshelving the top shelf onto the unchanged result: content and versioning equal the
  state before that shelve, no conflicts;
* shelf ids: a new shelf gets an id above every active one, ids are unique,
  `active_shelves()` / `last_shelf()` are what the model says after every step and after
  reopening (also with ten or more shelves alive), the file of a live shelf never changes.
* fault (a share of the runs): one file-system call of the transform that removes the shelved
  changes fails (simkit.osseam, OSError before the call): afterwards the tree is either exactly
  as before or completely shelved, and the shelf file, which is written before the transform
  runs, can be read back by get_unshelver.  Deletions from pending-deletion are no fault sites
  (their failure is C13's reported finding).
"""

import hashlib
import json
import os
import posixpath

from simkit import osseam, world
from simkit.sim import Violation

from . import treesim as T

PROPERTY = "C15"
LEVEL = "exploration"
RULE = (
    "one case = one seeded run: a namespace of 3-6 paths, a model-generated history (grow, commit, 2-12 pending changes incl. "
    "multi-hunk edits of committed texts) and a shelf script of 2-7 steps (shelve a seeded consistent subset of items/hunks | "
    "unshelve the top shelf | delete a shelf | reopen); non-trivial = at least one shelve of a proper or full selection was "
    "executed and compared AND at least one unshelve was compared with the pre-shelve state; 8% of the runs instead edit 11-13 "
    "committed texts and shelve them one file (or hunk) at a time until 10-12 shelves are alive, then shelve again / unshelve the newest / "
    "delete + re-shelve / reopen (ids, last_shelf() and the bytes of every live shelf file are checked after each step); distinct = "
    "distinct event-log digests of such runs"
)
COMPONENTS = {
    "real": [
        "breezy.shelf (ShelfCreator, ShelfManager, Unshelver; pack container serialisation of the shelf transform)",
        "breezy.transform / breezy.bzr.transform (work transform, TransformPreview, resolve_conflicts, serialize/deserialize)",
        "breezy.merge.Merge3Merger (unshelve), breezy.diff.DiffText + breezy.patches (hunk selection as in shelf_ui.Shelver)",
        "breezy.bzr.workingtree_4 (2a working tree on a real /dev/shm directory, control files through sim+file://)",
    ],
    "simulated": [
        "the user editing the tree and choosing what to shelve (seeded)",
        "process restart (drop the object, WorkingTree.open)",
        "failure of one file-system call of the shelving transform (simkit.osseam, a share of the runs)",
    ],
    "stub": ["UI: hunks are chosen by index instead of by prompt (Shelver._select_hunks re-stated without prompts)", "BRZ_HOME (scratch)"],
}
GUARDS = {
    # unshelve (Merge3Merger._merge_executable) takes THIS tree's executability from the cached
    # inventory entry (iter_entries_by_dir), not from the file: after the shelving transform
    # re-created a file (rename + text shelved: entry recorded as not executable), or after a
    # chmod the dirstate has not observed, the flag is stale and unshelving a text change of an
    # executable file (or of a file whose exec bit was changed) sets the wrong exec bit
    "exec_stale": True,
    # a shelf that deletes an entry and adds a new entry (new file id) - or renames another
    # entry - to the same parent and name: in the preview tree of the shelf transform the
    # removed entry keeps its name and shadows the live one (_path2trans_id takes whichever
    # child of that name comes first), path2id(that path) is None and unshelve raises
    # NoSuchFile (Merge3Merger._entries3 / _get_filter_tree_path -> find_previous_path) or
    # AssertionError('Unknown kind None') (_dump_conflicts -> create_from_tree)
    "add_at_deleted_name": True,
}
# Former guards, repaired in /repo and explored freely since: exec_lost (d04b477: shelving keeps
# the executable bit of files it re-creates), delete_at_reoccupied_path (cf7895f: shelving a
# deletion adopts only an unversioned copy left at the old path).
TERRITORY_ORDER = ["add_at_deleted_name", "exec_stale"]
ASSUMPTIONS = [
    "bzr (2a) trees only: git working trees raise ShelvingUnsupported",
    "selections are consistent: the model reverts the selected changes and must obtain a tree, and the selected changes applied to the basis must give a tree as well (the shelf is stored as a transform of the basis; e.g. the addition of a new entry at a path whose old occupant's removal is not shelved comes back as 'e.moved') (every entry below a versioned directory, no two entries on one path, nothing unversioned left inside a directory that goes away); selections that do not give a tree are not generated (breezy refuses them with MalformedTransform or resolves them by conflict heuristics; the property does not say which)",
    "an exec-bit change alone is not a shelvable item (iter_shelvable does not offer it); it must survive shelving of other changes of the same file; 'modify target' is offered for every reported symlink, also when only its path changed",
    "a versioned entry that is missing on disk is reported as a deletion; shelving it restores basis content, name and parent in one item; after unshelve such an entry may be versioned-and-missing, unversioned, or (added-and-missing entries) an empty file: the oracle takes no position on entries that were missing before the shelve",
    "shelving the removal of an entry whose basis path holds an unversioned file re-versions that file as it is; that is only generated when the file is identical to the basis version, and after unshelve the oracle takes no position on that path (merge deletes it, before the shelve it was an unversioned copy)",
    "shelf ids: 'numbered uniquely' is read as unique among the shelves that exist and above every existing id; an id is used again after the highest shelf was deleted (ShelfManager.new_shelf = last active + 1)",
    "unshelve is only judged for the top shelf applied to the unchanged result of its own shelve (LIFO); after a shelf below the top was deleted the lower shelves are not unshelved",
    "hunk prediction: texts are 4 regions separated by 8 unique separator lines, so every changed region is exactly one diff hunk (asserted at run time); hunks are selected through breezy.diff/patches exactly as Shelver._select_hunks does, the expected text is composed from the regions without any diff code",
    "ShelfManager.new_shelf writes through local_abspath + open(), outside the transport seam: no fault is injected into the shelf write itself; the os-level fault hits one call of work_transform.apply() only; oracle there: tree content/versioning unchanged (limbo residue is C13's subject) and the shelf that was written before either is absent or can be read back by get_unshelver",
    "states that hit defects already reported for C09 (treesim.GUARDS) are not generated; if the tree disagrees with the treesim model before the first shelve the run is abandoned (that is C09's finding, probe prestate_mismatch)",
    "states that hit C15 defects that are reported and still open (C15.GUARDS: " + ", ".join(sorted(GUARDS)) + ") are left out while the guard is on; a guard is lifted in a share of the runs once known_findings.json has an open entry ['C15', 'known-defect', guard] (or with VERIF_UNGUARDED=p), and failures inside that territory carry that signature; two former guards were repaired in /repo (exec_lost: d04b477, delete_at_reoccupied_path: cf7895f): executable files in added / deleted / kind-changed entries and deletions whose old path is taken by another entry are generated freely and judged by the ordinary oracles",
    "runs execute in-process (ISOLATION=thread): each run builds tree, model and Sim from scratch",
]
STEP_CAP = 200000
ISOLATION = "thread"
P_UNGUARDED = float(os.environ.get("VERIF_UNGUARDED", "0") or 0)
P_LIFT = 0.2
P_FAULT = 0.25
P_MANY = 0.08  # share of runs that keep ten or more shelves alive at once

FILE, DIR, LINK = T.FILE, T.DIR, T.LINK
ROOT_ID = T.ROOT_ID


class DesignError(Exception):
    """An assumption of this harness about its own workload does not hold."""


class Unmodelled(Exception):
    def __init__(self, why, guard=None):
        Exception.__init__(self, why)
        self.why = why
        self.guard = guard


# --------------------------------------------------------------------------------------
# texts with predictable hunks
# --------------------------------------------------------------------------------------
NR = 4
SEPN = 8
DEFAULT_SHAPE = {"head": 8, "tail": 8, "nonl": False}


def sep_lines(j, n=SEPN):
    return [b"= sep %d.%d\n" % (j, i) for i in range(n)]


def region_lines(k, n, cnt, pad=0):
    return [b"r%d n%d.%d%s\n" % (k, n, i, (b" " + b"#" * pad) if (pad and i == 0) else b"") for i in range(cnt)]


def build_text(shape, regions):
    lines = sep_lines(0, shape["head"])
    for k in range(NR):
        lines += regions[k]
        if k < NR - 1:
            lines += sep_lines(k + 1)
    lines += sep_lines(NR, shape["tail"])
    data = b"".join(lines)
    if shape["nonl"] and data.endswith(b"\n"):
        data = data[:-1]
    return data


def parse_text(data):
    """(shape, regions) of a text made by build_text, else None."""
    if not data:
        return None
    nonl = not data.endswith(b"\n")
    lines = (data + b"\n" if nonl else data).splitlines(True)
    regions = [[] for _ in range(NR)]
    seps = {}
    for ln in lines:
        if ln.startswith(b"= sep "):
            try:
                j = int(ln[6:].split(b".")[0])
            except ValueError:
                return None
            seps[j] = seps.get(j, 0) + 1
        elif ln[:1] == b"r" and ln[1:2].isdigit() and int(ln[1:2]) < NR:
            regions[int(ln[1:2])].append(ln)
        else:
            return None
    shape = {"head": seps.get(0, 0), "tail": seps.get(NR, 0), "nonl": nonl}
    if build_text(shape, regions) != data:
        return None
    return shape, regions


def changed_regions(old, new):
    """Indices of the regions that differ between two texts of one shape, else None."""
    a, b = parse_text(old), parse_text(new)
    if a is None or b is None or a[0] != b[0]:
        return None
    return [k for k in range(NR) if a[1][k] != b[1][k]]


def mix_text(old, new, take_old):
    """`new` with the regions in take_old taken from `old` (same shape)."""
    a, b = parse_text(old), parse_text(new)
    return build_text(b[0], [a[1][k] if k in take_old else b[1][k] for k in range(NR)])


def text_for(op, old):
    """Content written by a 'write' op that carries a text recipe (pure).  `pad` lengthens the
    first line of the first non-empty region the op writes."""
    tx, n = op["tx"], op["n"]
    pad = tx.get("pad", 0)
    shape = regions = None
    if "ed" in tx and old is not None:
        parsed = parse_text(old)
        if parsed is not None:
            shape, regions = parsed[0], list(parsed[1])
            todo = [(k, cnt) for k, cnt in tx["ed"]]
    if regions is None:
        shape = tx.get("new") or dict(DEFAULT_SHAPE, cnt=[1, 1, 1, 1])
        regions = [[] for _ in range(NR)]
        todo = [(k, shape["cnt"][k]) for k in range(NR)]
    for k, cnt in todo:
        regions[k] = region_lines(k, n, cnt, pad if cnt else 0)
        if cnt:
            pad = 0
    return build_text(shape, regions)


# --------------------------------------------------------------------------------------
# model: operations (treesim + text recipes), shelvable items, shelve
# --------------------------------------------------------------------------------------


def m_apply(model, op):
    if op["o"] == "chmod" and op["p"] in model.inv:
        # entries whose exec bit was ever changed by the user (see GUARDS exec_stale)
        if not hasattr(model, "xt"):
            model.xt = set()
        model.xt.add(model.inv[op["p"]][0])
    if op["o"] == "write" and "tx" in op:
        old = model.disk.get(op["p"])
        data = text_for(op, old[1] if old and old[0] == FILE else None)
        model.apply(op)
        model.disk[op["p"]] = (FILE, data, model.disk[op["p"]][2])
    else:
        model.apply(op)


def real_apply(tree, model, op):
    """Apply op to the real tree; `model` is still in the state before the op."""
    if op["o"] == "write" and "tx" in op:
        old = model.disk.get(op["p"])
        data = text_for(op, old[1] if old and old[0] == FILE else None)
        with open(os.path.join(tree._sim_root, op["p"]), "wb") as f:
            f.write(data)
        return tree
    return T.apply_op(tree, model, op)


def _name(p):
    return posixpath.basename(p)


def items_of(m):
    """Expected iter_shelvable() items as {(type, fid)}: type in add | delete | rename | kind |
    target | text."""
    out = set()
    bids = {e[0]: p for p, e in m.basis.items()}
    wids = {e[0]: p for p, e in m.inv.items()}
    for fid in set(bids) | set(wids):
        if fid == ROOT_ID:
            continue
        if fid not in bids:
            out.add(("add", fid))
            continue
        wp = wids.get(fid)
        node = m.disk.get(wp) if wp is not None else None
        if node is None:
            out.add(("delete", fid))
            continue
        bp = bids[fid]
        _f, bkind, bdata, bexec = m.basis[bp]
        moved = _name(bp) != _name(wp) or m.basis[T.parent(bp)][0] != m.inv[T.parent(wp)][0]
        if moved:
            out.add(("rename", fid))
        if bkind != node[0]:
            out.add(("kind", fid))
        elif bkind == LINK:
            if moved or bdata != node[1]:
                out.add(("target", fid))
        elif bkind == FILE and bdata != node[1]:
            out.add(("text", fid))
    return out


def _node(kind, data, x):
    return {"kind": kind, "data": data, "exec": x, "kids": {}, "fid": None, "ver": False}


def shelve_model(m, sel, hunks, guards):
    """State (disk, inv) of model `m` after shelving the items in `sel` ({(type, fid)});
    hunks: {fid: set of changed-region ordinals to shelve} for partially shelved texts.
    Raises Unmodelled when the selection does not give a tree (or enters a guard)."""
    bids = {e[0]: p for p, e in m.basis.items()}
    wids = {e[0]: p for p, e in m.inv.items()}
    nodes = {"": _node(DIR, None, False)}
    for q in sorted(m.disk):
        k, d, x = m.disk[q]
        n = _node(k, d, x)
        nodes[q] = n
        nodes[T.parent(q)]["kids"][_name(q)] = n
    byid = {}
    for q in sorted(m.inv):
        fid = m.inv[q][0]
        n = nodes.get(q)
        if n is None:
            n = _node(None, None, False)
            n["ghost"] = True
            par = nodes.get(T.parent(q))
            if par is None:
                raise Unmodelled("missing entry below something missing")
            par["kids"][_name(q)] = n
            nodes[q] = n
        n["fid"], n["ver"] = fid, True
        byid[fid] = n
    place = []  # (node, parent fid, name)
    if "add_at_deleted_name" in guards:
        gone = {(m.basis[T.parent(bids[f])][0], _name(bids[f])) for t, f in sel if t == "delete"}
        for t, f in sel:
            if t in ("add", "rename") and (m.inv[T.parent(wids[f])][0], _name(wids[f])) in gone:
                raise Unmodelled("entry added or renamed to the place of a deleted one", "add_at_deleted_name")

    for typ, fid in sorted(sel):
        if typ == "add":
            n = byid[fid]
            if n["kind"] is None:
                raise Unmodelled("added entry that is missing on disk (shelved as an empty file)")
            n["ver"] = False
            n["delete"] = True
            continue
        bp = bids[fid]
        _f, bkind, bdata, bexec = m.basis[bp]
        bpar = m.basis[T.parent(bp)][0]
        if typ == "delete":
            if fid in wids:
                n = byid[fid]  # versioned, missing on disk
                n["kind"], n["data"], n["exec"] = bkind, bdata, bool(bexec)
                n.pop("ghost", None)
            elif bp in m.disk and bp not in m.inv:
                n = nodes[bp]
                if (n["kind"], n["data"], bool(n["exec"])) != (bkind, bdata, bool(bexec)) or n["kids"]:
                    raise Unmodelled("unversioned file at the basis path differs from the basis")
                n["ver"], n["fid"] = True, fid
                n["reversioned"] = True
                byid[fid] = n
            else:
                n = _node(bkind, bdata, bool(bexec))
                n["ver"], n["fid"] = True, fid
                n["new"] = True
                byid[fid] = n
            place.append((n, bpar, _name(bp)))
        elif typ == "rename":
            place.append((byid[fid], bpar, _name(bp)))
        elif typ in ("kind", "target"):
            n = byid[fid]
            if typ == "kind":
                if n["kind"] == DIR and n["kids"]:
                    # the directory's contents would have to go somewhere
                    n["was_dir"] = True
            n["kind"], n["data"], n["exec"] = bkind, bdata, bool(bexec) if bkind == FILE else False
        elif typ == "text":
            n = byid[fid]
            if (n["exec"] or bexec or fid in getattr(m, "xt", ())) and "exec_stale" in guards:
                raise Unmodelled("text change of an executable file", "exec_stale")
            if fid in hunks:
                regs = changed_regions(bdata, n["data"])
                if regs is None:
                    raise Unmodelled("hunks of a text without regions")
                take = {regs[i] for i in hunks[fid] if i < len(regs)}
                if not take:
                    raise Unmodelled("no hunk selected")
                n["data"] = mix_text(bdata, n["data"], take)
            else:
                n["data"] = bdata
        else:
            raise KeyError(typ)
    # detach what moves, drop what is deleted, attach
    def detach(n):
        for mnode in list(nodes.values()) + list(byid.values()):
            for name, kid in list(mnode["kids"].items()):
                if kid is n:
                    del mnode["kids"][name]

    for n, _pf, _nm in place:
        detach(n)

    def all_deleted(n):
        return all(g.get("delete") and all_deleted(g) for g in n["kids"].values())

    for n in list(nodes.values()):
        if n.get("delete"):
            if not all_deleted(n):
                raise Unmodelled("directory that goes away keeps contents")
    for n in list(nodes.values()):
        if n.get("delete"):
            detach(n)
    for n in list(nodes.values()):
        if n.get("was_dir") and n["kids"]:
            raise Unmodelled("directory turned back into a non-directory keeps contents")
    for n, pfid, name in place:
        pn = byid.get(pfid)
        if pn is None or pn.get("delete"):
            raise Unmodelled("parent is not in the tree")
        if name in pn["kids"]:
            raise Unmodelled("name taken")
        pn["kids"][name] = n
    disk, inv = {}, {"": (ROOT_ID, DIR)}
    seen = set()

    def walk(path, n):
        if id(n) in seen:
            raise Unmodelled("loop")
        seen.add(id(n))
        for name in sorted(n["kids"]):
            kid = n["kids"][name]
            q = posixpath.join(path, name) if path else name
            if kid["kind"] is None:
                if kid["ver"]:
                    if not n["ver"]:
                        raise Unmodelled("versioned below unversioned")
                    inv[q] = (kid["fid"], FILE)
                    walk_missing(q, kid)
                continue
            if n["kind"] != DIR:
                raise Unmodelled("child of a non-directory")
            disk[q] = (kid["kind"], kid["data"], bool(kid["exec"]) if kid["kind"] == FILE else False)
            if kid["ver"]:
                if not n["ver"]:
                    raise Unmodelled("versioned below unversioned")
                inv[q] = (kid["fid"], kid["kind"])
            walk(q, kid)

    def walk_missing(path, n):
        for name in sorted(n["kids"]):
            kid = n["kids"][name]
            if kid["kind"] is not None or not kid["ver"]:
                raise Unmodelled("something real below something missing")
            q = posixpath.join(path, name)
            inv[q] = (kid["fid"], FILE)
            walk_missing(q, kid)

    walk("", nodes[""])
    for n, _pf, _nm in place:
        if id(n) not in seen:
            raise Unmodelled("entry not reachable")
    for fid, n in byid.items():
        if n["ver"] and not n.get("delete") and id(n) not in seen and fid != ROOT_ID:
            raise Unmodelled("entry not reachable")
    if len({e[0] for e in inv.values()}) != len(inv):
        raise Unmodelled("id twice")
    return disk, inv


def forward_valid(m, sel):
    """The shelf is stored as a transform of the basis tree: basis + selected changes must be
    a tree too (else the shelf's own conflict resolution renames things, e.g. 'e.moved')."""
    ent = {}
    for p, e in m.basis.items():
        ent[e[0]] = [m.basis[T.parent(p)][0] if p else None, _name(p), e[1]]
    wids = {e[0]: p for p, e in m.inv.items()}
    for typ, fid in sel:
        if typ == "add":
            wp = wids[fid]
            ent[fid] = [m.inv[T.parent(wp)][0], _name(wp), m.dkind(wp) or FILE]
        elif typ == "delete":
            del ent[fid]
        elif typ == "rename":
            wp = wids[fid]
            ent[fid][0], ent[fid][1] = m.inv[T.parent(wp)][0], _name(wp)
        elif typ == "kind":
            ent[fid][2] = m.dkind(wids[fid])
    seen = set()
    for fid, (par, name, _k) in ent.items():
        if par is None:
            continue
        if par not in ent or ent[par][2] != DIR or (par, name) in seen:
            return False
        seen.add((par, name))
    for fid in ent:
        cur, hops = fid, 0
        while cur is not None:
            cur = ent[cur][0]
            hops += 1
            if hops > len(ent):
                return False
    return True


def after_shelve(m, sel, hunks, guards):
    if not forward_valid(m, sel):
        raise Unmodelled("basis + selection is no tree")
    disk, inv = shelve_model(m, sel, hunks, guards)
    m2 = mcopy(m)
    m2.disk, m2.inv = disk, inv
    return m2


def mcopy(m):
    m2 = m.copy()
    if hasattr(m, "xt"):
        m2.xt = m.xt  # only grows while the history is applied, before any shelving
    return m2


def loose_paths(pre, sel):
    """Paths of the pre-shelve state `pre` the unshelve oracle takes no position on."""
    out = set()
    for p, (fid, _k) in pre.inv.items():
        if p and p not in pre.disk:
            out.add(p)
    bids = {e[0]: p for p, e in pre.basis.items()}
    wids = {e[0] for e in pre.inv.values()}
    for typ, fid in sel:
        if typ == "delete" and fid not in wids and bids[fid] in pre.disk:
            out.add(bids[fid])
    return out


# --------------------------------------------------------------------------------------
# generation
# --------------------------------------------------------------------------------------

PENDING_WEIGHTS = {
    "write": 8,
    "mkdir": 2,
    "mkdir_disk": 1,
    "add": 3,
    "smart_add": 1,
    "remove": 3,
    "rename": 5,
    "move": 3,
    "chmod": 2,
    "symlink": 2,
    "kindchange": 1,
    "rm_disk": 2,
}


def lifted_guards():
    from simkit import findings

    out = set()
    for e in findings.load(PROPERTY):
        s = e.get("signature") or []
        if e.get("status") == "open" and len(s) >= 3 and s[0] == PROPERTY and s[1] == "known-defect" and s[2] in GUARDS:
            out.add(s[2])
    return sorted(out)


def choose_unguarded(rng):
    x = rng.random()
    if x < P_UNGUARDED:
        only = os.environ.get("VERIF_UNGUARD_ONLY")
        return sorted(only.split(",")) if only else sorted(GUARDS)
    if x < P_LIFT:
        return lifted_guards()
    return []


def guards_of(plan):
    return {g for g, on in GUARDS.items() if on and g not in plan.get("unguarded", ())}


def enrich_write(rng, model, op):
    """Give a 'write' op a text recipe (multi-region text; an edit of some regions when the
    file has regions already); the new content always differs in length."""
    cur = model.disk.get(op["p"])
    old = cur[1] if cur and cur[0] == FILE else None
    parsed = parse_text(old) if old is not None else None
    if parsed is not None and rng.random() < 0.85:
        ks = sorted(rng.sample(range(NR), rng.choice([1, 1, 2, 2, 3, 4])))
        tx = {"ed": [[k, rng.choice([0, 1, 1, 2, 3])] for k in ks], "pad": 0}
        # an emptied region that was empty is no change: make sure something changes
        if all(cnt == 0 and not parsed[1][k] for k, cnt in tx["ed"]):
            tx["ed"][0][1] = 1
    else:
        shape = {
            "head": rng.choice([8, 8, 1, 0]),
            "tail": rng.choice([8, 8, 2, 1]),
            "nonl": rng.random() < 0.25,
            "cnt": [rng.choice([0, 1, 1, 2, 3]) for _ in range(NR)],
        }
        tx = {"new": shape, "pad": 0}
    op["tx"] = tx
    written = tx["ed"] if "ed" in tx else None
    while old is not None and len(text_for(op, old)) == len(old):
        if written is not None and not any(cnt for _k, cnt in written):
            written[0][1] = 1  # nothing to pad: every region the op writes is empty
        elif written is None and not any(tx["new"]["cnt"]):
            tx["new"]["cnt"][0] = 1
        else:
            tx["pad"] += 1
    return op


def gen_history(rng, model, names):
    g = T.Gen(rng, model, names)
    ops = []

    def push(op):
        if not op:
            return False
        if op["o"] == "write":
            enrich_write(rng, model, op)
        if model.classify(op) != "ok":
            return False
        m_apply(model, op)
        ops.append(op)
        return True

    # grow a tree and commit it
    for _ in range(rng.randint(3, 8)):
        kind = rng.choice(["write", "write", "write", "write", "mkdir", "mkdir_disk", "symlink"])
        push(g.propose(kind))
    for _ in range(rng.randint(0, 2)):
        push(g.propose("chmod"))
    push({"o": "smart_add", "p": "", "n": g.fresh()})
    k = g.fresh()
    push({"o": "commit", "paths": None, "rev": "rev-%d" % k, "t": 1700000000 + k})
    # pending changes
    w = {k2: rng.choice([0, 1, 1, 2]) * v for k2, v in PENDING_WEIGHTS.items()}
    w["write"] = max(w["write"], PENDING_WEIGHTS["write"])
    pool = [k2 for k2, v in sorted(w.items()) for _ in range(int(v))]
    want = rng.randint(2, 12)
    tries = 0
    n0 = len(ops)
    while len(ops) - n0 < want and tries < want * 20:
        tries += 1
        kind = rng.choice(pool)
        if kind == "write" and rng.random() < 0.7:
            texts = sorted(p for p, e in model.inv.items() if e[0] in {b[0] for b in model.basis.values()} and model.dkind(p) == FILE)
            if texts:
                push({"o": "write", "p": rng.choice(texts), "n": g.fresh()})
                continue
        push(g.propose(kind))
    return ops


def choose_selection(rng, m, guards):
    """A consistent non-empty selection (sorted list of [type, fid]) and hunk choices, or
    None."""
    items = sorted(items_of(m))
    if not items:
        return None
    bids = {e[0]: p for p, e in m.basis.items()}
    wids = {e[0]: p for p, e in m.inv.items()}
    for attempt in range(12):
        if attempt < 8:
            frac = rng.choice([0.3, 0.5, 0.5, 0.7, 1.0])
            sel = {it for it in items if rng.random() < frac}
        else:
            sel = set(items) if attempt < 10 else {rng.choice(items)}
        if not sel:
            sel = {rng.choice(items)}
        hunks = {}
        for typ, fid in sorted(sel):
            if typ == "text" and rng.random() < 0.7:
                regs = changed_regions(m.basis[bids[fid]][2], m.disk[wids[fid]][1])
                if regs and len(regs) > 1:
                    k = rng.randint(1, len(regs) - 1)
                    hunks[fid] = sorted(rng.sample(range(len(regs)), k))
        # text items that are not selected as a whole may still give some hunks
        for typ, fid in items:
            if typ == "text" and (typ, fid) not in sel and rng.random() < 0.3:
                regs = changed_regions(m.basis[bids[fid]][2], m.disk[wids[fid]][1])
                if regs and len(regs) > 1:
                    sel.add((typ, fid))
                    hunks[fid] = sorted(rng.sample(range(len(regs)), rng.randint(1, len(regs) - 1)))
        try:
            after_shelve(m, sel, {f: set(v) for f, v in hunks.items()}, guards)
        except Unmodelled:
            continue
        return sorted([t, f.decode()] for t, f in sel), {f.decode(): v for f, v in sorted(hunks.items())}
    return None


def gen_script(rng, model, guards, fault):
    """The shelf script, simulated on copies of the model."""
    m = mcopy(model)
    script = []
    stack = []  # [id, clean]
    nsteps = rng.randint(2, 7)
    shelved = 0
    for _ in range(nsteps * 3):
        if len(script) >= nsteps:
            break
        r = rng.random()
        if r < 0.45 or not stack:
            ch = choose_selection(rng, m, guards)
            if ch is None:
                if not stack:
                    break
                r = 0.6
            else:
                sel, hunks = ch
                step = {"a": "shelve", "sel": sel, "hunks": hunks}
                if fault and shelved == 0 and rng.random() < 0.7:
                    step["fault"] = {"at": rng.randint(1, 7), "errno": rng.choice(sorted(osseam.ERRNOS))}
                    fault = False
                m2 = after_shelve(m, {(t, f.encode()) for t, f in sel}, {f.encode(): set(v) for f, v in hunks.items()}, guards)
                if "fault" not in step:
                    nid = max([s[0] for s in stack], default=0) + 1
                    stack.append([nid, True, m])
                    m = m2
                    shelved += 1
                script.append(step)
                continue
        if r < 0.8:
            if stack and stack[-1][1]:
                _nid, _c, pre = stack.pop()
                m = pre
                script.append({"a": "unshelve"})
            continue
        if r < 0.9:
            script.append({"a": "reopen"})
            continue
        if stack:
            i = rng.randrange(len(stack))
            script.append({"a": "delete", "id": stack[i][0]})
            for s in stack[:i]:
                s[1] = False
            del stack[i]
    # finish: unshelve what can be judged
    while stack and stack[-1][1] and rng.random() < 0.8:
        stack.pop()
        script.append({"a": "unshelve"})
    return script


def gen_many(rng, plan):
    """Ten or more shelves alive at once: 11-13 committed texts, each edited, shelved one file
    at a time (sometimes one hunk at a time); then, with >= 10 live shelves, shelve again /
    unshelve the newest / delete one and shelve again / reopen; finally unshelve the rest."""
    guards = guards_of(plan)
    k = rng.randint(11, 13)
    names = ["f%02d" % i for i in range(k)]
    plan["names"] = names
    model = T.MTree("bzr")
    g = T.Gen(rng, model, names)
    ops = []

    def push(op):
        if model.classify(op) == "ok":
            m_apply(model, op)
            ops.append(op)

    for nm in names:
        push({"o": "write", "p": nm, "n": g.fresh(), "tx": {"new": {"head": rng.choice([8, 1]), "tail": rng.choice([8, 2]), "nonl": rng.random() < 0.2, "cnt": [rng.choice([1, 1, 2]) for _ in range(NR)]}, "pad": 0}})
    push({"o": "smart_add", "p": "", "n": g.fresh()})
    n = g.fresh()
    push({"o": "commit", "paths": None, "rev": "rev-%d" % n, "t": 1700000000 + n})
    for nm in names:
        op = enrich_write(rng, model, {"o": "write", "p": nm, "n": g.fresh()})
        push(op)
    if rng.random() < 0.4:
        a = rng.choice(names)
        push({"o": "rename", "p": a, "to": "r" + a})
    plan["ops"] = ops
    # the script, simulated on copies of the model
    m = mcopy(model)
    script = []
    stack = []  # [id, clean, pre-state]
    bids = {e[0]: q for q, e in m.basis.items()}

    def shelve_one():
        nonlocal m
        items = sorted(items_of(m))
        rng.shuffle(items)
        for it in items:
            sel = {it}
            hunks = {}
            if it[0] == "text" and rng.random() < 0.4:
                wids = {e[0]: q for q, e in m.inv.items()}
                regs = changed_regions(m.basis[bids[it[1]]][2], m.disk[wids[it[1]]][1])
                if regs and len(regs) > 1:
                    hunks[it[1]] = set(rng.sample(range(len(regs)), rng.randint(1, len(regs) - 1)))
            try:
                m2 = after_shelve(m, sel, hunks, guards)
            except Unmodelled:
                continue
            nid = max([s[0] for s in stack], default=0) + 1
            stack.append([nid, True, m])
            m = m2
            script.append({"a": "shelve", "sel": [[it[0], it[1].decode()]], "hunks": {f.decode(): sorted(v) for f, v in hunks.items()}})
            return True
        return False

    first = rng.randint(10, k - 1)
    while len(stack) < first:
        if not shelve_one():
            break
        if rng.random() < 0.1:
            script.append({"a": "reopen"})
    for _ in range(rng.randint(3, 7)):
        r = rng.random()
        if r < 0.45:
            shelve_one()
        elif r < 0.65:
            if stack and stack[-1][1]:
                _i, _c, pre = stack.pop()
                m = pre
                script.append({"a": "unshelve"})
        elif r < 0.85:
            if stack:
                i = rng.randrange(max(0, len(stack) - 3), len(stack))
                script.append({"a": "delete", "id": stack[i][0]})
                for st in stack[:i]:
                    st[1] = False
                del stack[i]
                shelve_one()
        else:
            script.append({"a": "reopen"})
    while stack and stack[-1][1] and rng.random() < 0.9:
        stack.pop()
        script.append({"a": "unshelve"})
    plan["shelf"] = script
    plan["many"] = 1
    return plan


def generate(rng, tier):
    names = T.make_namespace(rng)
    unguarded = choose_unguarded(rng)
    plan = {"names": names}
    if unguarded:
        plan["unguarded"] = unguarded
    if rng.random() < P_MANY:
        return gen_many(rng, plan)
    model = T.MTree("bzr")
    plan["ops"] = gen_history(rng, model, names)
    plan["shelf"] = gen_script(rng, model, guards_of(plan), rng.random() < P_FAULT)
    return plan


def shrink_candidates(plan):
    import copy

    from simkit import shrink

    yield from shrink.generic_candidates(plan)
    script = plan.get("shelf") or []
    for i in range(len(script)):
        p = copy.deepcopy(plan)
        del p["shelf"][i]
        yield p
    for i, st in enumerate(script):
        if st["a"] != "shelve":
            continue
        for j in range(len(st["sel"])):
            if len(st["sel"]) > 1:
                p = copy.deepcopy(plan)
                del p["shelf"][i]["sel"][j]
                yield p
        for fid in st.get("hunks", {}):
            p = copy.deepcopy(plan)
            del p["shelf"][i]["hunks"][fid]
            yield p
        if "fault" in st:
            p = copy.deepcopy(plan)
            del p["shelf"][i]["fault"]
            yield p
    # simpler texts
    for i, op in enumerate(plan.get("ops", [])):
        if op.get("o") == "write" and "ed" in op.get("tx", {}) and len(op["tx"]["ed"]) > 1:
            for j in range(len(op["tx"]["ed"])):
                p = copy.deepcopy(plan)
                del p["ops"][i]["tx"]["ed"][j]
                yield p


# --------------------------------------------------------------------------------------
# execution
# --------------------------------------------------------------------------------------
_warmed = []

WARM_PLAN = {
    "names": ["a", "b", "d", "d/f"],
    "ops": [
        {"o": "write", "p": "a", "n": 1, "tx": {"new": {"head": 8, "tail": 2, "nonl": True, "cnt": [1, 2, 0, 1]}, "pad": 0}},
        {"o": "write", "p": "b", "n": 2, "tx": {"new": {"head": 0, "tail": 8, "nonl": False, "cnt": [1, 1, 1, 1]}, "pad": 0}},
        {"o": "mkdir", "p": "d", "id": "d3"},
        {"o": "write", "p": "d/f", "n": 4, "tx": {"new": {"head": 8, "tail": 8, "nonl": False, "cnt": [1, 1, 1, 1]}, "pad": 0}},
        {"o": "symlink", "p": "l", "n": 5},
        {"o": "smart_add", "p": "", "n": 6},
        {"o": "commit", "paths": None, "rev": "rev-7", "t": 1700000007},
        {"o": "write", "p": "a", "n": 8, "tx": {"ed": [[0, 2], [3, 0]], "pad": 0}},
        {"o": "rename", "p": "b", "to": "d/b"},
        {"o": "write", "p": "n", "n": 9, "tx": {"new": {"head": 8, "tail": 8, "nonl": False, "cnt": [1, 1, 1, 1]}, "pad": 0}},
        {"o": "add", "p": "n", "id": "f10"},
        {"o": "remove", "p": "d/f", "keep": False, "force": True},
        {"o": "symlink", "p": "l", "n": 11},
    ],
    "shelf": [
        {"a": "shelve", "sel": [["text", "sa6-a"], ["rename", "sa6-b"]], "hunks": {"sa6-a": [0]}},
        {"a": "shelve", "sel": [["add", "f10"], ["delete", "sa6-d_f"], ["target", "sa6-l"], ["text", "sa6-a"]], "hunks": {}, "fault": {"at": 2, "errno": "EIO"}},
        {"a": "shelve", "sel": [["add", "f10"], ["delete", "sa6-d_f"], ["target", "sa6-l"], ["text", "sa6-a"]], "hunks": {}},
        {"a": "reopen"},
        {"a": "unshelve"},
        {"a": "delete", "id": 1},
    ],
}


def warm():
    world.quiet_breezy()
    T.quiet()
    if _warmed:
        return
    _warmed.append(1)
    import shutil
    import tempfile

    import breezy.bzr.workingtree_4  # noqa: F401
    import breezy.commit  # noqa: F401
    import breezy.diff  # noqa: F401
    import breezy.merge  # noqa: F401
    import breezy.patches  # noqa: F401
    import breezy.shelf  # noqa: F401
    import breezy.transform  # noqa: F401
    from simkit.sim import Sim

    osseam.install()
    saved = {k: os.environ.get(k) for k in ("VERIF_SCRATCH", "BRZ_HOME", "HOME")}
    tmp = tempfile.mkdtemp(prefix="verif-warm-", dir="/dev/shm")
    try:
        os.makedirs(os.path.join(tmp, "home"))
        os.environ.update(VERIF_SCRATCH=tmp, BRZ_HOME=os.path.join(tmp, "home"), HOME=os.path.join(tmp, "home"))
        sim = Sim(1, WARM_PLAN, step_cap=10**6)
        try:
            execute(sim, WARM_PLAN)
        except Exception:  # noqa: BLE001 - a dry run; real runs report
            if os.environ.get("VERIF_WARM_DEBUG"):
                raise
    finally:
        for k, v in saved.items():
            if v is None:
                os.environ.pop(k, None)
            else:
                os.environ[k] = v
        shutil.rmtree(tmp, ignore_errors=True)
    import gc

    gc.collect()
    gc.freeze()


def config(tier):
    if tier == "thorough":
        return {"budget_s": 700, "run_timeout": 180, "selftest": 48, "workers": 8}
    return {"budget_s": 50, "run_timeout": 180, "selftest": 24, "workers": 8}


def _h(obj):
    return hashlib.sha1(repr(obj).encode("utf-8", "replace")).hexdigest()[:12]


def _diff(exp, got):
    exp, got = set(exp), set(got)

    def short(s):
        return [repr(x)[:160] for x in sorted(s, key=repr)[:5]]

    return "missing=%s unexpected=%s" % (short(exp - got), short(got - exp))


def _ddiff(want, got):
    """Difference of two disk maps, texts abbreviated."""

    def brief(d):
        out = set()
        for p, (k, data, x) in d.items():
            if isinstance(data, bytes):
                data = "%d bytes %s %r" % (len(data), hashlib.sha1(data).hexdigest()[:8], data[-40:])
            out.add((p, k, "x" if x else "-", data))
        return out

    return _diff(brief(want), brief(got))


def fail(sim, tag, rest, detail, territory=None):
    t = territory or sim.notes.get("territory")
    if t:
        sim.fail(tag, [PROPERTY, "known-defect", t], "[%s, in the territory of %s] %s" % (tag, t, detail))
    sim.fail(tag, [PROPERTY, tag] + list(rest), detail)


def observe(tree):
    with tree.lock_read():
        snap = T.tree_snapshot(tree)
        basis = tree.basis_tree()
        with basis.lock_read():
            ch = T.normalise_changes(list(tree.iter_changes(basis)), "bzr")
        conflicts = [str(c) for c in tree.conflicts()]
    return snap, ch, conflicts


def mismatch(tree, m):
    """None when the real tree equals model state m (disk, versioning, content,
    iter_changes), else (tag, detail)."""
    disk = T.disk_snapshot(tree._sim_root, "bzr")
    if disk != m.disk:
        return "disk", "disk %s" % _ddiff(m.disk, disk)
    try:
        snap, ch, _conflicts = observe(tree)
    except Exception as e:  # noqa: BLE001
        return "observe_raised", "reading the tree raised %r" % (e,)
    got = {p: v[3] for p, v in snap.items()}
    want = {p: e[0] for p, e in m.inv.items()}
    if got != want:
        return "versioning", "versioned paths/ids %s" % _diff(want.items(), got.items())
    for p, (k, data, x, _fid) in sorted(snap.items()):
        node = m.disk.get(p) if p else (DIR, None, False)
        w = (node[0], node[1], bool(node[2])) if node else (None, None, False)
        if (k, data, bool(x)) != w:
            what = "exec" if (k, data) == w[:2] else "content"
            return what, "%r: tree says %r, model %r" % (p, (k, data, x), w)
    exp = m.changes()
    if not T.changes_equal(exp, ch):
        return "iter_changes", "iter_changes %s" % _diff(exp, ch)
    return None


def compare_exact(sim, tree, m, where, rest):
    """Real tree == model state m."""
    bad = mismatch(tree, m)
    if bad:
        fail(sim, where + "_" + bad[0], rest, "%s: %s" % (where, bad[1]))


def compare_restored(sim, tree, pre, sel, rest):
    """After unshelve: real tree == pre-shelve model state `pre`, except for the paths the
    oracle takes no position on."""
    loose = loose_paths(pre, sel)

    def keep(p):
        return not any(T.inside(l, p) for l in loose)

    where = "after_unshelve"
    disk = {p: v for p, v in T.disk_snapshot(tree._sim_root, "bzr").items() if keep(p)}
    want_disk = {p: v for p, v in pre.disk.items() if keep(p)}
    try:
        snap, _ch, conflicts = observe(tree)
    except Exception as e:  # noqa: BLE001
        fail(sim, where + "_observe_raised", rest + [type(e).__name__], "%s: reading the tree raised %r" % (where, e))
    if conflicts:
        fail(sim, where + "_conflicts", rest, "unshelve onto the unchanged result left conflicts: %r" % (conflicts[:4],))
    if disk != want_disk:
        only_exec = set(disk) == set(want_disk) and all(disk[p][:2] == want_disk[p][:2] for p in disk)
        fail(sim, where + ("_exec" if only_exec else "_disk"), rest, "%s: disk %s" % (where, _ddiff(want_disk, disk)))
    got = {p: v[3] for p, v in snap.items() if keep(p)}
    want = {p: e[0] for p, e in pre.inv.items() if keep(p)}
    if got != want:
        fail(sim, where + "_versioning", rest, "%s: versioned paths/ids %s" % (where, _diff(want.items(), got.items())))
    for p, (k, data, x, _fid) in sorted(snap.items()):
        if not keep(p):
            continue
        node = pre.disk.get(p) if p else (DIR, None, False)
        w = (node[0], node[1], bool(node[2])) if node else (None, None, False)
        if (k, data, bool(x)) != w:
            what = "exec" if (k, data) == w[:2] else "content"
            fail(sim, where + "_" + what, rest, "%s: %r: tree says %r, state before the shelve %r" % (where, p, (k, data, x), w))


def real_items(creator):
    """iter_shelvable() once -> {(type, fid): raw item}."""
    names = {"add file": "add", "delete file": "delete", "rename": "rename", "change kind": "kind", "modify target": "target", "modify text": "text"}
    out = {}
    for it in creator.iter_shelvable():
        out[(names[it[0]], it[1])] = it
    return out


def select_hunks(work_tree, target_tree, file_id, shelve_idx):
    """Shelver._select_hunks (reporter.invert_diff False) with the answers given by index:
    (lines the file should have, number of shelved hunks, number of hunks)."""
    from io import BytesIO

    from breezy import diff, patches

    target_lines = target_tree.get_file_lines(target_tree.id2path(file_id))
    out = BytesIO()
    differ = diff.DiffText(target_tree, work_tree, out, path_encoding="utf-8")
    differ.diff(target_tree.id2path(file_id), work_tree.id2path(file_id), "file", "file")
    out.seek(0)
    parsed = patches.parse_patch(out)
    final_hunks = []
    offset = 0
    for i, hunk in enumerate(parsed.hunks):
        if shelve_idx is None or i in shelve_idx:
            offset -= hunk.mod_range - hunk.orig_range
        else:
            hunk.mod_pos += offset
            final_hunks.append(hunk)
    lines = list(patches.iter_patched_from_hunks(target_lines, final_hunks))
    return lines, len(parsed.hunks) - len(final_hunks), len(parsed.hunks)


def do_shelve(sim, tree, m, sel, hunks, fault):
    """Shelve `sel` on the real tree.  Returns (shelf id | None, exception | None)."""
    from breezy import shelf

    bids = {e[0]: p for p, e in m.basis.items()}
    wids = {e[0]: p for p, e in m.inv.items()}
    tree.lock_tree_write()
    try:
        basis = tree.basis_tree()
        creator = shelf.ShelfCreator(tree, basis)
        try:
            items = real_items(creator)
            want = items_of(m)
            if set(items) != want:
                fail(sim, "shelvable_items", [], "iter_shelvable offers %s" % _diff(want, set(items)))
            for key in sorted(sel):
                typ, fid = key
                if typ == "text":
                    idx = hunks.get(fid)
                    lines, nshelved, total = select_hunks(tree, basis, fid, None if idx is None else set(idx))
                    regs = changed_regions(m.basis[bids[fid]][2], m.disk[wids[fid]][1])
                    if regs is not None and total != len(regs):
                        raise DesignError("text design: %d hunks for %d changed regions" % (total, len(regs)))
                    sim.probe("hunks_partial" if idx is not None else "hunks_all")
                    if nshelved:
                        creator.shelve_lines(fid, lines)
                else:
                    creator.shelve_change(items[key])
                sim.probe("item_" + typ)
            manager = tree.get_shelf_manager()
            if fault:
                osseam.activate(sim, {"": tree._sim_root})
                # deleting what the transform replaced (pending-deletion) is not a fault site:
                # a failure there leaves the inventory stale, reported for C13 (discard:delete_any)
                sim.fault_filter = lambda a, op, path, mutating: not (op == "delete_any" and "pending-deletion" in path)
                sim.arm([{"kind": "err_before", "at": fault["at"], "count": "mut", "exc": osseam.os_error(fault["errno"], "")}])
            try:
                sid = manager.shelve_changes(creator, "shelf")
            finally:
                if fault:
                    sim.disarm()
                    sim.fault_filter = None
                    osseam.deactivate(sim)
            return sid, None
        except (DesignError, Violation):
            raise
        except Exception as e:  # noqa: BLE001 - judged by the caller
            return None, e
        finally:
            creator.finalize()
    finally:
        tree.unlock()


def do_unshelve(tree, sid):
    tree.lock_tree_write()
    try:
        manager = tree.get_shelf_manager()
        unshelver = manager.get_unshelver(sid)
        try:
            merger = unshelver.make_merger()
            merger.do_merge()
            manager.delete_shelf(sid)
        finally:
            unshelver.finalize()
    finally:
        tree.unlock()


def _tb(e):
    import traceback

    return "".join(traceback.format_exception(type(e), e, e.__traceback__)[-6:])


def execute(sim, plan):
    warm()
    T.quiet()
    T.settle_randomness(sim.seed)
    world.setup_sim(sim)
    root = os.path.join(os.environ["VERIF_SCRATCH"], "t")
    T.relativise_log(sim, root)
    T.mask_content_names(sim)
    guards = guards_of(plan)
    tree = T.make_tree(sim, "bzr", "t")
    model = T.MTree("bzr")
    # -- history ---------------------------------------------------------------------------
    for i, op in enumerate(plan["ops"]):
        if op.get("bad") or model.classify(op) != "ok":
            sim.event("skip", i, op["o"])
            continue
        try:
            tree = real_apply(tree, model, op)
        except Exception as e:  # noqa: BLE001 - C09's subject; this run cannot go on
            sim.probe("history_op_raised")
            sim.event("history-op-raised", i, op["o"], type(e).__name__)
            return
        m_apply(model, op)
        sim.event("op", i, json.dumps(op, sort_keys=True))
    # the tree must be in the state the model predicts, else nothing below means anything
    try:
        disk = T.disk_snapshot(root, "bzr")
        snap, ch, _c = observe(tree)
        ok = disk == model.disk and {p: v[3] for p, v in snap.items()} == {p: e[0] for p, e in model.inv.items()} and T.changes_equal(model.changes(), ch)
    except Exception:  # noqa: BLE001
        ok = False
    if not ok:
        sim.probe("prestate_mismatch")
        sim.event("prestate-mismatch")
        return
    sim.state_seen(model.digest())
    # -- shelf script ------------------------------------------------------------------------
    manager_ids = []  # model of active_shelves()
    stack = []  # [id, clean, pre-state model, selection]
    compared_shelve = compared_unshelve = 0

    shelf_sha = {}  # shelf id -> sha1 of the shelf file when it was written

    def shelf_bytes(i):
        try:
            with open(os.path.join(root, ".bzr", "checkout", "shelf", "shelf-%d" % i), "rb") as f:
                return hashlib.sha1(f.read()).hexdigest()
        except FileNotFoundError:
            return None

    def check_ids(where):
        manager = tree.get_shelf_manager()
        got = manager.active_shelves()
        if got != sorted(manager_ids):
            fail(sim, "shelf_ids", [where], "%s: active_shelves() = %r, model %r" % (where, got, sorted(manager_ids)))
        last = manager.last_shelf()
        if last != (max(manager_ids) if manager_ids else None):
            fail(sim, "shelf_ids", ["last"], "%s: last_shelf() = %r while %r are active" % (where, last, sorted(manager_ids)))
        for i in sorted(manager_ids):
            if i not in shelf_sha:
                shelf_sha[i] = shelf_bytes(i)
            elif shelf_bytes(i) != shelf_sha[i]:
                fail(sim, "shelf_changed", [where], "%s: the file of shelf %d changed (or vanished) although the shelf was not deleted; active %r" % (where, i, sorted(manager_ids)))
        for i in [i for i in shelf_sha if i not in manager_ids]:
            del shelf_sha[i]
        if len(manager_ids) >= 10:
            sim.probe("live_shelves_10plus")

    for j, st in enumerate(plan.get("shelf", [])):
        a = st["a"]
        if a == "shelve":
            want = items_of(model)
            sel = {(t, f.encode()) for t, f in st["sel"]} & want
            hunks = {f.encode(): set(v) for f, v in st.get("hunks", {}).items() if ("text", f.encode()) in sel}
            if not sel:
                sim.event("shelf", j, "skip-empty")
                continue
            try:
                m2 = after_shelve(model, sel, hunks, guards)
            except Unmodelled as e:
                sim.event("shelf", j, "skip-unmodelled", e.why)
                continue
            if plan.get("unguarded") and not sim.notes.get("territory"):
                # which reported defect (lifted guard) does this selection run into?  the one
                # that strikes first (at shelve time) names the territory
                for g in TERRITORY_ORDER:
                    if g in guards:
                        continue
                    try:
                        shelve_model(model, sel, hunks, {g})
                    except Unmodelled as e:
                        if e.guard == g:
                            sim.notes["territory"] = g
                            sim.probe("territory_" + g)
                            sim.event("territory", g)
                            break
            fault = st.get("fault")
            types = sorted({t for t, _f in sel})
            sid, exc = do_shelve(sim, tree, model, sel, hunks, fault)
            fired = bool(fault) and sim.faults_fired.get("err_before", 0) > 0
            if exc is not None and not fired:
                fail(sim, "shelve_raised", [type(exc).__name__] + types, "shelving %r (hunks %r) raised %r\n%s" % (sorted(sel), hunks, exc, _tb(exc)))
            tree = T.reopen(tree)
            if exc is not None:
                # one file-system call of the transform failed: all or nothing
                sim.probe("fault_in_transform")
                ids = tree.get_shelf_manager().active_shelves()
                extra = [i for i in ids if i not in manager_ids]
                for i in extra:
                    # the shelf is written before the transform runs: it must be readable
                    try:
                        tree.lock_tree_write()
                        try:
                            tree.get_shelf_manager().get_unshelver(i).finalize()
                        finally:
                            tree.unlock()
                    except Exception as e:  # noqa: BLE001
                        fail(sim, "failed_shelve_left_unreadable_shelf", [type(e).__name__], "shelf %d left by the failed shelve cannot be read: %r" % (i, e))
                bad0 = mismatch(tree, model)
                if bad0 is None:
                    for i in extra:
                        tree.get_shelf_manager().delete_shelf(i)
                        sim.probe("failed_shelve_left_shelf")
                    sim.event("shelf", j, "shelve-failed-nothing", type(exc).__name__, len(extra))
                    check_ids("after failed shelve")
                    continue
                bad1 = mismatch(tree, m2)
                if bad1 is not None or len(extra) != 1:
                    fail(sim, "failed_shelve_" + bad0[0], [fault["errno"]], "after the failed shelve (%r) the tree is neither as before (%s) nor completely shelved (%s); new shelves %r" % (exc, bad0[1], bad1 and bad1[1], extra))
                sim.probe("failed_shelve_all_done")
                sid = extra[0]
            want_id = max(manager_ids, default=0) + 1
            if sid in manager_ids or sid != want_id:
                fail(sim, "shelf_ids", ["new"], "new shelf got id %r while %r are active (expected %d)" % (sid, manager_ids, want_id))
            manager_ids.append(sid)
            compare_exact(sim, tree, m2, "after_shelve", types)
            check_ids("after shelve")
            stack.append([sid, True, model, sel])
            model = m2
            compared_shelve += 1
            sim.event("shelf", j, "shelve", sid, json.dumps(sorted([t, f.decode()] for t, f in sel)), json.dumps({f.decode(): sorted(v) for f, v in sorted(hunks.items())}))
            sim.state_seen(("shelved", model.digest()))
        elif a == "unshelve":
            if not stack or not stack[-1][1]:
                sim.event("shelf", j, "skip-unshelve")
                continue
            sid, _clean, pre, sel = stack.pop()
            types = sorted({t for t, _f in sel})
            default = tree.get_shelf_manager().last_shelf()
            if default != sid:
                fail(sim, "shelf_ids", ["default"], "unshelve without an id would take shelf %r, the newest shelf is %d (active %r)" % (default, sid, sorted(manager_ids)))
            try:
                do_unshelve(tree, sid)
            except Exception as e:  # noqa: BLE001
                fail(sim, "unshelve_raised", [type(e).__name__] + types, "unshelving shelf %d (%r) onto the unchanged result raised %r\n%s" % (sid, sorted(sel), e, _tb(e)))
            manager_ids.remove(sid)
            compare_restored(sim, tree, pre, sel, types)
            # what the model carries on with: the pre-shelve state, made exact where the
            # oracle was loose
            loose = loose_paths(pre, sel)
            if loose:
                # the real tree decides the loose paths: later steps are not judged
                for s in stack:
                    s[1] = False
                sim.probe("unshelve_loose")
                model = None
            else:
                model = pre
            check_ids("after unshelve")
            compared_unshelve += 1
            sim.event("shelf", j, "unshelve", sid)
            if model is None:
                break
        elif a == "delete":
            if st["id"] not in manager_ids:
                sim.event("shelf", j, "skip-delete")
                continue
            tree.get_shelf_manager().delete_shelf(st["id"])
            manager_ids.remove(st["id"])
            idx = [s[0] for s in stack].index(st["id"])
            for s in stack[:idx]:
                s[1] = False
            del stack[idx]
            check_ids("after delete")
            sim.event("shelf", j, "delete", st["id"])
        elif a == "reopen":
            tree = T.reopen(tree)
            check_ids("after reopen")
            sim.event("shelf", j, "reopen")
    if model is not None:
        tree = T.reopen(tree)
        check_ids("at the end")
    sim.nontrivial = compared_shelve >= 1 and compared_unshelve >= 1
    sim.notes.pop("territory", None)
