"""C03 — Fetch, push and pull copy history completely and faithfully (local stores).

One run: a generated DAG history (merges, criss-cross, ghost right-hand parents, exec
bits, symlinks, kind changes, some revisions signed) is committed natively into a SOURCE
repository of format S; a TARGET repository of format T (S -> T allowed: never
rich-root -> non-rich-root) is pre-populated with a seeded sub-DAG through a seeded route
(direct fetches head by head, or through an intermediate repository of a third format);
optionally the target is a branch STACKED on a base that holds part of the history.  Then
ONE operation - Repository.fetch(revision), Repository.fetch(everything), Branch.pull,
Branch.push, ControlDir.sprout into the target's shared repository - brings revision X,
optionally with a transport error injected into the target store, then the same operation
is repeated."""

import random

from simkit import world
from simkit.sim import SimCrash
from simkit.transport import raw, snapshot

from . import storesim
from .storesim import DagGen, replay_dag

PROPERTY = "C03"
LEVEL = "exploration"
RULE = (
    "one case = one seeded (history, source format, target format, pre-populated sub-DAG and its route, stacked or not, "
    "operation fetch|fetch_all|pull|push|sprout, revision X, find_ghosts, optional InterDifferingSerializer, optional "
    "injected transport error on the target store); non-trivial = the operation had to transfer at least one revision "
    "into a target that already held at least one revision of the history (partial overlap) or the history contains a "
    "merge or a ghost among the transferred revisions; distinct = distinct event-log digests of such runs"
)
COMPONENTS = {
    "real": [
        "InterVersionedFileRepository / InterSameDataRepository / InterKnitRepo / InterDifferingSerializer (debug flag IDS_always) fetch, search_missing_revision_ids, RepoFetcher",
        "StreamSource / GroupCHKStreamSource / KnitPackStreamSource get_stream + get_stream_for_missing_keys, StreamSink.insert_stream, rich-root upgrade (Inter1and2Helper)",
        "pack repositories 2a, 1.9, 1.9-rich-root, pack-0.92, rich-root-pack and the knit repository; write groups, get_missing_parent_inventories, _commit_write_group",
        "Branch.pull / Branch.push / ControlDir.sprout / Branch.fetch, stacked branches (BzrBranch7 + fallback repositories)",
        "Testament / StrictTestament / StrictTestament3, Repository.check()",
        "native commits through working trees into the source",
    ],
    "simulated": ["disk of source, target, base and intermediate repositories (SimTransport over memory transports)", "transport errors on the target store during the operation", "re-open (fresh objects) between pre-population, operation and repetition"],
    "stub": ["UI", "working-tree files on local scratch disk", "signatures are opaque byte strings added with add_signature_text (no gpg)"],
}
ASSUMPTIONS = [
    "local sim URLs only; the smart-server variant is covered elsewhere",
    "testament classes compared: Testament and StrictTestament always, StrictTestament3 (root included) only when source and target both hold rich-root data (a rich-root upgrade synthesises root history)",
    "per-file parents are compared source vs target for every text key the source has; root texts synthesised by a rich-root upgrade are judged by check() only",
    "an operation that fails under an injected error must leave the target's revision set either as before or - when the error struck after the write group was committed (e.g. while updating the branch tip) - complete; in both cases everything listed must be readable, locks are broken as after a failed process, and the retry must succeed",
    "in 40% of the runs the source is a record-by-record replica of the natively built history WITHOUT one or two merged-in revisions (right-hand parents only): they are ghosts in the source, yet the file versions they introduced and later trees still carry are present there; every text version a target inventory refers to and the source holds must then be in the target",
    "sources with ghost-introduced texts are not fetched into plain knit targets (a knit target cannot park a text delta whose basis lies outside the fetched set, which a ghost in the middle of the per-file ancestry makes possible; fetch then raises RevisionNotPresent on the unchanged tree - legacy format, reported separately)",
    "check() reports 'inconsistent parents' for a text version whose introducing revision the repository lacks as soon as that text has per-file parents (it expects none because it cannot derive any); such reports are not counted against the target - the text and its parents are identical in the source, where the introducing revision may be present and check() is clean",
    "XML-inventory targets (everything but 2a): Revision.inventory_sha1 as recorded in the target must equal inventories.get_sha1s() of the inventory text the target stores for that revision",
    "signatures: a revision fetched by any route must carry the same signature text as in the source",
    "no error injection for knit targets (no write groups, no atomicity claim); the target's check() is required to be clean only when the source's check() is clean (knit sources record per-file parents with revision-graph heads, which check() rejects after a file id was deleted and re-added)",
    "stacked targets: completeness is judged on the stacked repository together with its fallback; in addition the stacked repository alone must hold the parent inventories and new texts of its own revisions (C08's local statement)",
    "idempotency of the repeated operation is judged on the target repository directory and (pull/push) the target branch directory: byte-identical snapshot except lock/ directories, which must be empty; no put of pack-names, nothing created under packs/ indices/ upload/",
]

FMTS = ["2a", "1.9", "1.9-rich-root", "pack-0.92", "rich-root-pack", "knit"]
RICH = {"2a": True, "1.9": False, "1.9-rich-root": True, "pack-0.92": False, "rich-root-pack": True, "knit": False}
STACKABLE = {"2a", "1.9", "1.9-rich-root"}
OPS = ["fetch", "fetch", "fetch_all", "pull", "push", "sprout"]


def allowed(s, t):
    return not (RICH[s] and not RICH[t])


_warmed = []


def warm():
    if _warmed:
        return
    _warmed.append(1)
    storesim.warm_dag(tuple(FMTS))
    from breezy import debug  # noqa: F401
    from breezy.bzr import testament  # noqa: F401

    # one dry cross-format fetch + stacked sprout + pull/push, pre-fork
    import os
    import shutil
    import tempfile

    from simkit.sim import Sim

    sim = Sim(0)
    world.setup_sim(sim)
    scratch = tempfile.mkdtemp(prefix="warmc03", dir=os.environ.get("VERIF_SCRATCH_BASE") or "/dev/shm")
    try:
        os.environ.setdefault("VERIF_SCRATCH", scratch)
        for n, plan in enumerate((_warm_plan(1, "pack-0.92", "2a", "pull", True), _warm_plan(2, "2a", "2a", "sprout", False), _warm_plan(3, "knit", "1.9", "push", True), _warm_plan(4, "1.9-rich-root", "rich-root-pack", "fetch", False, ids=True))):
            s2 = Sim(1, plan)
            sub = os.path.join(scratch, f"p{n}")
            os.makedirs(sub)
            try:
                execute(s2, plan, _scratch=sub)
            except Exception:  # noqa: BLE001 - warming only; verdicts come from real runs
                pass
    finally:
        shutil.rmtree(scratch, ignore_errors=True)
        world.reset_stores()
        if os.environ.get("VERIF_SCRATCH") == scratch:
            del os.environ["VERIF_SCRATCH"]


def _warm_plan(seed, sfmt, tfmt, op, stacked, ids=False):
    rng = random.Random(seed)
    plan = generate(rng, "quick")
    plan.update(sfmt=sfmt, tfmt=tfmt, op=op, stacked=stacked and tfmt in STACKABLE, ids=ids, faults=[])
    plan["via"] = None
    return plan


def config(tier):
    if tier == "thorough":
        return {"budget_s": 700, "run_timeout": 180, "selftest": 10}
    return {"budget_s": 50, "run_timeout": 180, "selftest": 4}


def generate(rng, tier):
    while True:
        sfmt, tfmt = rng.choice(FMTS), rng.choice(FMTS)
        if allowed(sfmt, tfmt):
            break
    ghost_texts = rng.random() < 0.4
    g = DagGen(rng, ghosts=rng.choice([0.0, 0.15, 0.3]), side_merges=0.25 if ghost_texts else 0.0)
    specs = g.run(rng.randint(5, 16), merge_p=rng.choice([0.25, 0.4]))
    ids = [s["id"] for s in specs]
    tips = sorted(g.mh.tips.values())
    x = rng.choice(tips) if rng.random() < 0.7 else rng.choice(ids)
    pre = sorted(rng.sample(ids, rng.choice([0, 1, 1, 2, 3]) if len(ids) >= 3 else 0))
    if rng.random() < 0.8:
        # mostly leave something to transfer: no pre-populated head that already contains x
        pre = [r for r in pre if x not in g.mh.ancestry(r)]
    via = None
    if pre and rng.random() < 0.3:
        cand = [m for m in FMTS if allowed(sfmt, m) and allowed(m, tfmt)]
        via = rng.choice(cand)
    op = rng.choice(OPS)
    stacked = tfmt in STACKABLE and op != "sprout" and rng.random() < 0.3
    plan = {
        "sfmt": sfmt,
        "tfmt": tfmt,
        "ops": [["commit", s] for s in specs],
        "signed": sorted(i for i in ids if rng.random() < 0.3),
        "x": x,
        "pre": pre,
        "pre_order": rng.randrange(1 << 20),
        "via": via,
        "op": op,
        "stacked": stacked,
        "base_rev": rng.choice(ids),
        "find_ghosts": rng.random() < 0.5,
        "ids": rng.random() < 0.15,
        "pack_src": rng.random() < 0.3,
        "pack_tgt": rng.random() < 0.3,
        # the source holds texts whose introducing revision is absent from it (a ghost):
        # it is a replica of the natively built history minus some merged-in revisions
        "ghost_texts": ghost_texts,
        "demote": rng.randrange(1 << 20),
    }
    if plan["ghost_texts"] and plan["tfmt"] == "knit":
        # plain knit repositories cannot park a text delta whose basis is outside the fetched
        # set (possible once a ghost cuts the per-file ancestry); legacy format, reported
        plan["tfmt"] = tfmt = "pack-0.92" if not RICH[sfmt] else "rich-root-pack"
        plan["stacked"] = False
    if plan["ghost_texts"] and rng.random() < 0.5:
        # same-serializer pack pairs take the dedicated stream sources (KnitPackStreamSource,
        # GroupCHKStreamSource), which work from inventory contents
        sfmt, tfmt = rng.choice([("pack-0.92", "pack-0.92"), ("pack-0.92", "1.9"), ("1.9", "pack-0.92"), ("1.9", "1.9"), ("rich-root-pack", "rich-root-pack"), ("rich-root-pack", "1.9-rich-root"), ("1.9-rich-root", "rich-root-pack"), ("1.9-rich-root", "1.9-rich-root"), ("2a", "2a")])
        plan["sfmt"], plan["tfmt"] = sfmt, tfmt
        plan["stacked"] = plan["stacked"] and tfmt in STACKABLE
        plan["via"] = None
        plan["ids"] = False
    if rng.random() < 0.35:
        plan["faults"] = [{"kind": "err_before", "at": rng.randint(1, 45), "count": "mut", "err": rng.choice(["transport", "enospc", "permission", "nosuchfile"])}]
    return plan


def testaments(repo, rids, rich3):
    from breezy.bzr.testament import StrictTestament, StrictTestament3, Testament

    out = {}
    for rid in rids:
        for name, cls in (("v1", Testament), ("strict", StrictTestament)) + ((("strict3", StrictTestament3),) if rich3 else ()):
            out[(rid, name)] = cls.from_revision(repo, rid.encode()).as_short_text()
    return out


def text_parents(repo, mh, rids):
    """{text key: parents} for every file version introduced by `rids` according to the
    repository's own inventories."""
    keys = []
    for rid in rids:
        tree = repo.revision_tree(rid.encode())
        for path, ie in tree.iter_entries_by_dir():
            if ie.parent_id is None and not repo.supports_rich_root():
                continue  # no root texts in non-rich-root data
            if ie.revision == rid.encode():
                keys.append((ie.file_id, ie.revision))
    return keys, repo.texts.get_parent_map(keys)


def choose_dropped(mh, x, seed):
    """Merged-in revisions (right-hand parents only, never a first parent, not x) to leave
    out of the source; those from which a child inherits a file version come first."""
    rng = random.Random(seed)
    first = {mh.revs[r]["parents"][0] for r in mh.order if mh.revs[r]["parents"]}
    right = {p for r in mh.order for p in mh.revs[r]["parents"][1:] if p in mh.revs}
    cand = sorted(r for r in right if r not in first and r != x)
    strong = [g for g in cand if any(v == g for r in mh.order if g in mh.revs[r]["parents"] for v in mh.ver[r].values())]
    pool = strong or cand
    if not pool:
        return []
    out = [rng.choice(pool)]
    rest = [c for c in cand if c not in out]
    if rest and rng.random() < 0.3:
        out.append(rng.choice(rest))
    return sorted(out)


def replicate_without(full, src, order, drop):
    """Copy every revision of `order` except `drop` from `full` into `src` record by
    record (texts its tree refers to, inventory, revision, signature) - the dropped
    revisions become ghosts in `src`, while the texts they introduced and that later
    trees still carry are present, as in any repository that merged a revision it does
    not hold."""
    with full.lock_read(), src.lock_write():
        src.start_write_group()
        try:
            for rid in order:
                if rid in drop:
                    continue
                r = rid.encode()
                tree = full.revision_tree(r)
                keys = {(ie.file_id, ie.revision) for _path, ie in tree.iter_entries_by_dir()}
                keys -= set(src.texts.get_parent_map(keys))
                needed = sorted(full.texts.get_parent_map(keys))
                src.texts.insert_record_stream(full.texts.get_record_stream(needed, "topological", True))
                src.add_revision(r, full.get_revision(r), full.get_inventory(r))
            src.commit_write_group()
        except BaseException:  # noqa: B036
            src.abort_write_group()
            raise


def execute(sim, plan, _scratch=None):
    from breezy import debug, errors

    warm()
    faults = plan.get("faults") or []
    if plan["tfmt"] == "knit":
        faults = []  # knit repositories have no write groups: no atomicity is claimed for them
    sim.disarm()
    world.setup_sim(sim)
    sfmt, tfmt = plan["sfmt"], plan["tfmt"]
    specs = [op[1] for op in plan["ops"] if op[0] == "commit"]
    url_s = world.new_store("src") + "S/"
    url_t = world.new_store("tgt") + "T/"
    # ---- source
    build_url = world.new_store("full") + "F/" if plan.get("ghost_texts") else url_s
    db = storesim.DagBuilder(build_url, sfmt, "shared", scratch=_scratch, tag="s")
    done = []
    tips = {}
    for s in specs:
        have = {d["id"] for d in done}
        if not all(p in have or p in s.get("ghosts", []) for p in s["parents"]):
            continue
        if s["branch"] in db.wts and (not s["parents"] or s["parents"][0] != tips.get(s["branch"])):
            continue
        db.commit(s)
        done.append(s)
        tips[s["branch"]] = s["id"]
    db.forget()
    mh = replay_dag(done)
    if plan["x"] not in mh.revs:
        return  # shrunk beyond use
    x = plan["x"]
    dropped = []
    if plan.get("ghost_texts"):
        dropped = choose_dropped(mh, x, plan["demote"])
        # what a repository that never received the dropped revisions would hold: the
        # revisions reachable from the heads without passing through a dropped one
        children = {p for d in done for p in d["parents"]}
        reach = set()
        todo = [d["id"] for d in done if d["id"] not in children and d["id"] not in dropped] + [x]
        while todo:
            r = todo.pop()
            if r in reach or r in dropped or r not in mh.revs:
                continue
            reach.add(r)
            todo.extend(mh.revs[r]["parents"])
        absent = set(mh.revs) - reach
        storesim.make_shared_repo(url_s, sfmt)
        replicate_without(storesim.open_repo(build_url), storesim.open_repo(url_s), mh.order, absent)
        dropped = sorted(absent)
        kept = []
        for d in done:
            if d["id"] in absent:
                continue
            gone = [p for p in d["parents"] if p in dropped]
            kept.append(dict(d, ghosts=list(d.get("ghosts", [])) + gone) if gone else d)
        inherited = sum(1 for d in kept for f in d["tree"] if mh.ver[d["id"]][f] in dropped)
        mh = replay_dag(kept)
        sim.event("source-replica-without", ",".join(dropped) or "-", inherited)
        if dropped:
            sim.probe("source_lacks_merged_revision")
        if inherited:
            sim.probe("source_text_introduced_by_absent_revision", inherited)
    srepo = storesim.open_repo(url_s)
    signed = [r for r in plan["signed"] if r in mh.revs]
    if signed:
        with srepo.lock_write():
            srepo.start_write_group()
            for r in signed:
                srepo.add_signature_text(r.encode(), f"-----BEGIN SIM SIGNATURE-----\n{r}\n-----END-----\n".encode())
            srepo.commit_write_group()
    if plan["pack_src"]:
        with srepo.lock_write():
            srepo.pack()
    # the target can only be as consistent as the source (knit sources compute per-file
    # heads in the revision graph, which check() rejects for resurrected file ids)
    src_prob = storesim.check_clean(srepo)
    if src_prob:
        sim.probe("source_fails_check")
    xb = storesim.make_branch(url_s + "x", sfmt)
    xb.generate_revision_history(x.encode())
    del xb, srepo
    # ---- target
    stacked = plan["stacked"]
    pre = [r for r in plan["pre"] if r in mh.revs]
    order = list(pre)
    random.Random(plan["pre_order"]).shuffle(order)
    try:
        if stacked:
            url_b = world.new_store("base") + "B/"
            base_rev = plan["base_rev"] if plan["base_rev"] in mh.revs else mh.order[0]
            from breezy.transport import get_transport

            get_transport(url_b).ensure_base()
            get_transport(url_t).ensure_base()
            bb = storesim.make_branch(url_b + "base", tfmt)
            bb.repository.fetch(storesim.open_repo(url_s), revision_id=base_rev.encode())
            bb.generate_revision_history(base_rev.encode())
            bb.controldir.sprout(url_t + "t", revision_id=base_rev.encode(), stacked=True, source_branch=bb)
            del bb
        else:
            storesim.make_shared_repo(url_t, tfmt)
            storesim.make_branch(url_t + "t", tfmt)
        route_src = url_s
        if plan["via"] and pre:
            url_m = world.new_store("mid") + "M/"
            storesim.make_shared_repo(url_m, plan["via"])
            mrepo = storesim.open_repo(url_m)
            for r in order:
                mrepo.fetch(storesim.open_repo(url_s), revision_id=r.encode())
            route_src = url_m
            del mrepo
        trepo = storesim.open_branch(url_t + "t").repository
        for r in order:
            trepo.fetch(storesim.open_repo(route_src), revision_id=r.encode())
        if pre and not stacked:
            tb = storesim.open_branch(url_t + "t")
            tb.generate_revision_history(pre[0].encode())
            del tb
        if plan["pack_tgt"]:
            with trepo.lock_write():
                trepo.pack()
    except Exception as e:  # noqa: BLE001 - pre-population is fetching too: no failure allowed without faults
        import traceback

        frames = [f.name for f in traceback.extract_tb(e.__traceback__) if "/breezy/" in f.filename]
        sim.fail("op_failed", ["op_failed", f"{sfmt}->{tfmt}" + ("+stacked" if stacked else ""), "pre-population", f"{type(e).__name__}:{frames[-1] if frames else '?'}"], f"pre-populating the target with {order} (via {plan['via']}) failed: {type(e).__name__}: {e}\n" + "".join(traceback.format_exception(e))[-1800:])
    del trepo
    storesim.clear_caches()

    def target_repo():
        return storesim.open_branch(url_t + "t").repository  # with its configured fallbacks

    def listed():
        r = target_repo()
        with r.lock_read():
            own = {i.decode() for i in r.all_revision_ids()}
        return own

    pre_set = listed()
    want_x = mh.ancestry(x) if plan["op"] != "fetch_all" else set(mh.revs)
    post_set = pre_set | want_x
    conf = f"{sfmt}->{tfmt}" + ("+stacked" if stacked else "") + ("+ids" if plan["ids"] else "")
    sim.event("config", conf, plan["op"], x, len(pre_set), len(post_set))
    nsprout = [0]

    def operate():
        """The operation under test, on fresh objects.  Returns a small result summary."""
        storesim.clear_caches()
        if plan["ids"]:
            debug.set_debug_flag("IDS_always")
        try:
            op = plan["op"]
            if op in ("fetch", "fetch_all"):
                from breezy.repository import InterRepository

                sim.probe("inter_" + type(InterRepository.get(storesim.open_repo(url_s), target_repo())).__name__)
            if op == "fetch":
                t = target_repo()
                t.fetch(storesim.open_repo(url_s), revision_id=x.encode(), find_ghosts=plan["find_ghosts"])
                return None
            if op == "fetch_all":
                t = target_repo()
                t.fetch(storesim.open_repo(url_s), find_ghosts=plan["find_ghosts"])
                return None
            if op == "pull":
                tb = storesim.open_branch(url_t + "t")
                res = tb.pull(storesim.open_branch(url_s + "x"), stop_revision=x.encode(), overwrite=True)
                return (res.old_revid, res.new_revid)
            if op == "push":
                sb = storesim.open_branch(url_s + "x")
                res = sb.push(storesim.open_branch(url_t + "t"), overwrite=True, stop_revision=x.encode())
                return (res.old_revid, res.new_revid)
            if op == "sprout":
                nsprout[0] += 1
                sb = storesim.open_branch(url_s + "x")
                sb.controldir.sprout(url_t + f"new{nsprout[0]}", revision_id=x.encode(), source_branch=sb)
                return None
            raise AssertionError(op)
        finally:
            if plan["ids"]:
                debug.unset_debug_flag("IDS_always")

    def break_locks():
        from breezy.controldir import ControlDir

        for sub in ["t"] + [f"new{i}" for i in range(1, nsprout[0] + 1)]:
            try:
                cd = ControlDir.open(url_t + sub)
                cd.open_branch().break_lock()
            except Exception:  # noqa: BLE001
                pass
        try:
            target_repo().break_lock()
        except Exception:  # noqa: BLE001
            pass

    def judge(tag, revs):
        """Everything in `revs` is in the target, equals the source and the model."""
        storesim.clear_caches()
        t = target_repo()
        s = storesim.open_repo(url_s)
        rich3 = RICH[sfmt] and RICH[tfmt]
        with t.lock_read(), s.lock_read():
            have = set(t.has_revisions([r.encode() for r in revs]))
            missing = sorted(r for r in revs if r.encode() not in have)
            if missing:
                sim.fail("complete", ["complete", conf, tag, plan["op"]], f"{tag}: non-ghost ancestors of {x} missing from the target: {missing} (pre-set {sorted(pre_set)})")
            order_ = [r for r in mh.order if r in revs]
            for kind, rid, fid, detail in storesim.dag_problems(t, mh, order_, per_file=False):
                sim.fail("content", ["content", conf, tag, kind], f"{tag}: {rid}: {detail}")
            try:
                ts, tt = testaments(s, order_, rich3), testaments(t, order_, rich3)
            except Exception as e:  # noqa: BLE001
                sim.fail("content", ["content", conf, tag, "testament:" + type(e).__name__], f"{tag}: testament computation failed: {type(e).__name__}: {e}")
            for key in sorted(ts):
                if ts[key] != tt[key]:
                    sim.fail("testament", ["testament", conf, tag, key[1]], f"{tag}: testament {key[1]} of {key[0]} differs: source {ts[key]!r} target {tt[key]!r}")
            for r in order_:
                refs = {(ie.file_id, ie.revision) for _path, ie in t.revision_tree(r.encode()).iter_entries_by_dir() if ie.parent_id is not None}
                in_src = set(s.texts.get_parent_map(refs))
                in_tgt = set(t.texts.get_parent_map(refs))
                lost = sorted(k for k in refs if k in in_src and k not in in_tgt)
                if lost:
                    sim.fail("referenced_text", ["referenced_text", conf, tag, "ghost-introduced" if any(k[1].decode() not in mh.revs for k in lost) else "other"], f"{tag}: the target's inventory of {r} refers to text versions {lost[:4]} that the source holds and the target lacks")
            if tfmt != "2a":
                # XML-inventory targets: the inventory sha1 a revision records must be the sha1
                # of the inventory text the target itself stores (a conversion re-serialises it)
                stored = t.inventories.get_sha1s([(r.encode(),) for r in order_])
                for r in order_:
                    recorded = t.get_revision(r.encode()).inventory_sha1
                    actual = stored.get((r.encode(),))
                    if actual is not None and recorded != actual:
                        sim.fail("inventory_sha1", ["inventory_sha1", conf, tag], f"{tag}: revision {r} in the target records inventory_sha1 {recorded!r} but the inventory text the target stores for it has sha1 {actual!r} (source records {s.get_revision(r.encode()).inventory_sha1!r})")
            keys, sp = text_parents(s, mh, order_)
            tp = t.texts.get_parent_map(keys)
            for k in keys:
                if tp.get(k) != sp.get(k):
                    sim.fail("text_parents", ["text_parents", conf, tag], f"{tag}: per-file parents of {k}: source {sp.get(k)} target {tp.get(k)}")
            for r in order_:
                ss = s.get_signature_text(r.encode()) if s.has_signature_for_revision_id(r.encode()) else None
                st = t.get_signature_text(r.encode()) if t.has_signature_for_revision_id(r.encode()) else None
                if ss != st:
                    sim.fail("signature", ["signature", conf, tag], f"{tag}: signature of {r}: source {ss!r} target {st!r}")
        prob = storesim.check_clean(t, ignore_ghost_introduced=True) if not src_prob else None
        if prob:
            sim.fail("check", ["check", conf, tag], f"{tag}: {prob}")
        if stacked:
            for what, detail in storesim.stacked_local_problems(url_t + "t", mh):
                sim.fail("stacked_local", ["stacked_local", conf, tag, what], f"{tag}: {detail}")

    # ---- the operation, possibly under an injected error
    def only_target(actor, op, path, mutating):
        return path.startswith("/T/")

    failed = None
    sim.fault_filter = only_target
    sim.arm(faults)
    try:
        try:
            operate()
        except SimCrash:
            raise
        except Exception as e:  # noqa: BLE001
            failed = e
    finally:
        sim.disarm()
        sim.fault_filter = None
    if failed is not None and not sim.faults_fired:
        import traceback

        frames = [f.name for f in traceback.extract_tb(failed.__traceback__) if "/breezy/" in f.filename]
        sig_ = ["op_failed", conf, plan["op"], f"{type(failed).__name__}:{frames[-1] if frames else '?'}"]
        if plan["ids"] and stacked and type(failed).__name__ == "KnitCorrupt" and "inconsistent details in add_records" in str(failed):
            # InterDifferingSerializer re-adds parent inventories a stacked knit-pack target already holds
            sig_ = ["op_failed", "ids+stacked-knitpack-target", "parent-inventory-added-twice:KnitCorrupt"]
        sim.fail("op_failed", sig_, f"{plan['op']} of {x} failed without any fault: {type(failed).__name__}: {failed}\n" + "".join(traceback.format_exception(failed))[-1800:])
    transferred = post_set - pre_set
    if failed is not None:
        sim.probe("op_failed_under_fault")
        sim.event("failed-under-fault", type(failed).__name__)
        break_locks()
        now = listed()
        ftag = f"{faults[0]['kind']}"
        if now != pre_set and not now >= post_set:
            sim.fail("old_or_new", ["old_or_new", conf, plan["op"]], f"after the failed {plan['op']} the target lists {sorted(now)}: neither the pre-set {sorted(pre_set)} nor complete {sorted(post_set)}")
        sim.probe("after_failure_" + ("old" if now == pre_set else "new"))
        judge("after-failure", now & set(mh.revs))
        try:
            operate()
        except SimCrash:
            raise
        except Exception as e:  # noqa: BLE001
            import traceback

            frames = [f.name for f in traceback.extract_tb(e.__traceback__) if "/breezy/" in f.filename]
            sim.fail("retry", ["retry", conf, plan["op"], f"{type(e).__name__}:{frames[-1] if frames else '?'}"], f"retry of {plan['op']} after an injected {ftag} failed: {type(e).__name__}: {e}\n" + "".join(traceback.format_exception(e))[-1800:])
    elif sim.faults_fired:
        sim.probe("fault_absorbed")
        break_locks()
    # ---- completeness and faithfulness
    now = listed()
    if not now >= post_set:
        sim.fail("complete", ["complete", conf, "after-op", plan["op"]], f"after {plan['op']} of {x}: missing {sorted(post_set - now)}")
    if now - set(mh.revs):
        sim.fail("complete", ["complete", conf, "unknown-revisions", plan["op"]], f"target lists revisions that never existed: {sorted(now - set(mh.revs))}")
    judge("after-op", now)
    if plan["op"] in ("pull", "push", "sprout"):
        which = "t" if plan["op"] != "sprout" else f"new{nsprout[0]}"
        tip = storesim.open_branch(url_t + which).last_revision().decode()
        if tip != x:
            sim.fail("tip", ["tip", conf, plan["op"]], f"target branch tip {tip} != {x}")
    # ---- repetition: transfers nothing, changes nothing
    tr = target_repo()
    rdir = raw(tr.control_transport)
    skip_locks = ("lock",)
    bdir = raw(storesim.open_branch(url_t + "t").control_transport) if plan["op"] in ("pull", "push") else None

    def snap():
        out = {"repo:" + k: v for k, v in snapshot(rdir, skip=skip_locks).items()}
        if bdir is not None:
            out.update({"branch:" + k: v for k, v in snapshot(bdir, skip=skip_locks).items()})
        return out

    def lock_entries():
        out = []
        for name, d in (("repo", rdir), ("branch", bdir)):
            if d is not None and d.has("lock"):
                out.extend(f"{name}/lock/{n}" for n in sorted(d.list_dir("lock")))
        return out

    # leftovers of an operation that failed under an injected error (releasing.*.tmp, *.tmp)
    # may remain; the repetition itself must not add any and must not leave a held lock
    locks_before = lock_entries()

    with tr.lock_read():
        s2 = storesim.open_repo(url_s)
        with s2.lock_read():
            heads = [x.encode()] if plan["op"] != "fetch_all" else None
            again = tr.search_missing_revision_ids(s2, revision_ids=heads, find_ghosts=plan["find_ghosts"]).get_keys()
    if again:
        sim.fail("idempotent", ["idempotent", conf, "search-not-empty"], f"after a complete {plan['op']} the search for missing revisions still returns {sorted(again)}")
    del tr
    before = snap()
    seen = []

    def mon(sim_, actor, phase, op, path, extra):
        if phase != "before" or not path.startswith("/T/"):
            return
        rel = path
        if plan["op"] == "sprout" and rel.startswith(f"/T/new{nsprout[0] + 1}"):
            return  # the second sprout creates its own new branch directory
        if op == "put" and rel.endswith("/pack-names"):
            seen.append(f"put {rel}")
        elif op not in ("get", "has", "stat", "list_dir", "readv", "iter_files_recursive", "stream_close", "readlink") and any(f"/repository/{d}/" in rel or f"/repository/{d}/" in str(extra) for d in ("packs", "indices", "upload")):
            seen.append(f"{op} {rel} {extra}")

    sim.monitors.append(mon)
    try:
        res = operate()
    except Exception as e:  # noqa: BLE001
        import traceback

        frames = [f.name for f in traceback.extract_tb(e.__traceback__) if "/breezy/" in f.filename]
        sim.fail("idempotent", ["idempotent", conf, f"second-{plan['op']}-failed:{type(e).__name__}:{frames[-1] if frames else '?'}"], f"second {plan['op']} failed: {type(e).__name__}: {e}\n" + "".join(traceback.format_exception(e))[-1500:])
    finally:
        sim.monitors.remove(mon)
    after = snap()
    if seen:
        sim.fail("idempotent", ["idempotent", conf, "store-written:" + storesim.path_class(seen[0].split(" ")[1]).split("/")[-2 if "pack-names" not in seen[0] else -1]], f"second identical {plan['op']} wrote to the target store: {seen[:4]}")
    if before != after:
        diff = sorted(k for k in set(before) | set(after) if before.get(k) != after.get(k))
        sim.fail("idempotent", ["idempotent", conf, "snapshot-differs:" + storesim.path_class(diff[0].split(":", 1)[1])], f"second identical {plan['op']} changed the target store: {diff[:6]}")
    locks_after = lock_entries()
    bad = [n for n in locks_after if n not in locks_before or n.endswith("/held")]
    if bad or (not sim.faults_fired and locks_after):
        sim.fail("idempotent", ["idempotent", conf, "lock-left"], f"lock directories not empty after the second {plan['op']}: {locks_after} (before it: {locks_before})")
    if res is not None and res[0] != res[1]:
        sim.fail("idempotent", ["idempotent", conf, "result-not-zero"], f"second {plan['op']} reports a tip change {res}")
    merges = any(len(mh.revs[r]["parents"]) > 1 for r in transferred)
    sim.nontrivial = bool(transferred) and (bool(pre_set) or merges)
    for probe, cond in (("partial_overlap", bool(transferred) and bool(pre_set)), ("nothing_to_transfer", not transferred), ("ghost_in_transferred", any(mh.revs[r].get("ghosts") for r in transferred)), ("merge_in_transferred", merges), ("signed_transferred", any(r in signed for r in transferred)), ("stacked_target", stacked), ("via_intermediate", bool(plan["via"] and pre)), ("cross_format", sfmt != tfmt), ("rich_root_upgrade", RICH[tfmt] and not RICH[sfmt]), ("ids", plan["ids"])):
        if cond:
            sim.probe(probe)
    sim.probe("op_" + plan["op"])
    sim.state_seen((conf, plan["op"], len(pre_set), len(transferred), bool(faults), failed is not None))
