"""C17 — Tree merges obey the three-way merge laws.

One run = one history and one merge.  BASE is built by a model-generated operation
sequence (treesim) and committed; the tree is sprouted into a sibling branch; THIS and
OTHER are derived from BASE by seeded edit batches (user edits, add, mkdir, remove, rename,
move, chmod, symlink, kind change, commit; plus two composite shapes: a byte-identical copy of
a file whose source is renamed / deleted in the same batch (git: rename + copy records), and a
directory path vacated by a rename and re-used by a new directory with children (bzr)) so that ONE of the four preconditions holds by
construction:

  other_is_base   OTHER == BASE (an empty or no-change commit), THIS edited freely
  this_is_base    THIS == BASE (clean tree), OTHER edited freely
  identical       the same batch (same file ids) applied on both sides
  disjoint        the batches touch disjoint sets of files: every path carries its owner in its
                  first component (a/c/e: THIS, b/d: OTHER) and a batch only touches its own

Optionally (bzr) the two branches first criss-cross (each merges the other's tip) so that the
merge has two LCAs and runs through _entries_lca / _lca_multi_way.  The merge is
Merger.from_revision_ids(tree, other_rev, other_branch=...) with merge_type Merge3Merger /
WeaveMerger / LCAMerger on a 2a or a git tree, THIS committed or uncommitted.

Oracles (paths, kinds, contents, exec bits, file ids where they exist; the disk and the tree's
own view, after a reopen): other_is_base -> the tree is exactly as before; this_is_base -> the
tree equals OTHER's committed snapshot; identical -> the tree is exactly as before; disjoint
-> the tree equals model(BASE + dTHIS + dOTHER).  Always: no conflicts returned or recorded,
no stray files (helpers, .moved, backups)."""

import hashlib
import json
import os
import posixpath

from . import mergesim as M
from . import treesim as T

PROPERTY = "C17"
LEVEL = "exploration"
RULE = (
    "one case = one (BASE history, dTHIS, dOTHER, law, merge type, tree flavour, criss-cross or not, THIS committed or not) merge; "
    "non-trivial = the side(s) the law lets change did change the committed snapshot / the working tree (>= 1 effective change) and "
    "BASE has >= 3 entries; distinct = distinct event-log digests of such runs"
)
COMPONENTS = {
    "real": [
        "breezy.merge.Merger (find_base incl. criss-cross), Merge3Merger / WeaveMerger / LCAMerger (_entries3, _entries_lca, _merge_names, _do_merge_contents, _merge_executable, _three_way, _lca_multi_way)",
        "breezy.transform.resolve_conflicts / conflict_pass, breezy.bzr.transform.InventoryTreeTransform, breezy.git.transform.GitTreeTransform",
        "2a/dirstate and git/index working trees on a real /dev/shm directory, two branches with their own repositories (sprout, fetch on merge)",
        "breezy.commit, add / smart_add / remove / rename_one / move (to build THIS and OTHER)",
    ],
    "simulated": ["the user editing both branches (seeded, model-generated operation batches)", "process restart before the result is read"],
    "stub": ["UI (SilentUIFactory)", "user identity / BRZ_HOME (scratch)"],
}
ASSUMPTIONS = [
    "batches are generated from the treesim model (C09): operations whose outcome breezy decides by heuristics, and the states listed in treesim.GUARDS (reported working-tree defects), are not generated",
    "BASE is clean (everything versioned and committed, nothing unknown): the sibling branch (sprout) then starts from the same files",
    "disjoint = ownership by first path component; a batch never touches, creates, moves into or removes anything the other side owns, so the union is the per-owner overlay; changes of one side inside a directory renamed by the other side are not generated",
    "identical = the same operations with the same explicit file ids on both sides, and THIS's versioned view (what the merge sees: a versioned file that is missing from disk is not 'deleted') equals OTHER's committed snapshot - otherwise THIS commits too; for 'identical' and 'other_is_base' the expected tree is the tree before the merge (the laws demand no conflicts; that the common change survives is taken as part of 'three-way merge')",
    "git: directories are not tracked: the disk is compared without directories; file ids are not compared; symlinks and exec bits are",
    "the versioned set, kinds, contents, exec bits and ids are compared; the kind the dirstate had recorded for an entry, pending-merge parents and merge-hashes are not",
    "text merges never run here (no law lets both sides change one file differently): WeaveMerger / LCAMerger differ from Merge3Merger only in entry enumeration and options; C19 covers the text merge",
    "guards (reported defects; lifted in a share of the runs once known_findings.json has an open entry [C17, known-defect, <guard>], or with VERIF_UNGUARDED=1): git_symlink_replaced = no git THIS tree in which a tracked symlink has been replaced by a file or directory (GitWorkingTree.iter_entries_by_dir / iter_references raise OSError EINVAL from readlink, so every merge into such a tree fails); git_dir_file_swap = no git merge in which one path is a directory in one of BASE / OTHER / THIS (incl. unversioned files of THIS) and a file or symlink in another (path-keyed trans ids: the merge reports bogus conflicts or raises NoSuchFile); git_dir_rename = no git batch renames or moves a directory (the same directory rename on both sides, uncommitted in THIS, is reported as 'Text conflict in <new dir>'); git_untracked_in_emptied_dir = no git merge in which OTHER removes the last tracked file of a directory that holds untracked files or directories in THIS (the 'deleting parent' problem is returned as 'Text conflict in <dir>' although nothing conflicts); git_rename_onto_vacated_path = no git merge in which OTHER renamed a file onto a path whose old occupant it deleted / renamed away / unversioned while THIS changed that path too (e.g. the identical change on both sides: path identity makes the old and the new occupant one file and the merge returns 'Text conflict in <path>'); weave_uncommitted_rename (bzr, WeaveMerger / LCAMerger) = no THIS tree with an uncommitted rename above an entry whose kind changed to file on disk behind the dirstate's back: the stale kind sends the entry into a text merge and InventoryTree._get_file_revision looks the working-tree path up in the parent trees (AttributeError; the same happens to any weave / lca text merge of a file renamed but not committed in THIS)",
    "git: BASE has no empty directories (untracked; a merge that deletes the last tracked file of their parent reports a 'deleting parent' problem as 'Text conflict in <dir>')",
    "if building BASE / THIS / OTHER itself raises or disagrees with the treesim model the run is abandoned (probe setup_abandoned): that is C09's property",
    "runs execute in-process (ISOLATION=thread): each run builds both trees, models and the Sim from scratch",
]
STEP_CAP = 400000
ISOLATION = "thread"

# states that run into defects already reported; see ASSUMPTIONS
FIXED_WEAVE_RENAME = True  # /repo 5e832b4: the weave_uncommitted_rename territory is explored in every run now
GUARDS = ("git_symlink_replaced", "git_dir_file_swap", "git_dir_rename", "git_untracked_in_emptied_dir", "git_rename_onto_vacated_path", "weave_uncommitted_rename")
P_UNGUARDED = float(os.environ.get("VERIF_UNGUARDED", "0") or 0)
P_LIFT = 0.15
LAWS = ["other_is_base", "this_is_base", "identical", "disjoint", "disjoint"]
OWN = {"this": "ace", "other": "bd"}
BASE_WEIGHTS = {"write": 6, "mkdir": 3, "symlink": 1, "chmod": 1, "rename": 1, "move": 1, "add": 1}
BATCH_WEIGHTS = {"write": 5, "mkdir": 2, "mkdir_disk": 1, "add": 3, "smart_add": 1, "remove": 3, "rename": 4, "move": 3, "chmod": 2, "symlink": 1, "kindchange": 2, "rm_disk": 1, "commit": 1, "copy_then_move": 3, "vacate_reuse": 3}


def warm():
    if not M.base_warm():
        return
    plans = []
    base = [
        {"o": "mkdir_disk", "p": "a"},
        {"o": "write", "p": "a/a", "n": 1},
        {"o": "mkdir_disk", "p": "b"},
        {"o": "write", "p": "b/b", "n": 2},
        {"o": "write", "p": "h1", "n": 3},
        {"o": "write", "p": "h2", "n": 4},
        {"o": "smart_add", "p": "", "n": 5},
        {"o": "commit", "paths": None, "rev": "base", "t": 1700000005},
    ]
    this_ops = [{"o": "write", "p": "a/a", "n": 10}, {"o": "rename", "p": "a/a", "to": "a/c"}, {"o": "chmod", "p": "a/c", "x": True}]
    other_ops = [{"o": "write", "p": "b/b", "n": 11}, {"o": "write", "p": "b/d", "n": 12}, {"o": "add", "p": "b/d", "id": "f13"}, {"o": "remove", "p": "b/b", "keep": False, "force": True}, {"o": "commit", "paths": None, "rev": "other", "t": 1700000020}]
    for fl, mt, criss in (("bzr", "merge3", False), ("bzr", "lca", True), ("bzr", "weave", False), ("git", "merge3", False)):
        plans.append({"flavour": fl, "law": "disjoint", "mtype": mt, "criss": criss, "commit_this": criss, "base": base, "this": this_ops, "other": other_ops, "n0": 30})
    M.dry_runs(execute, plans)


def config(tier):
    if tier == "thorough":
        return {"budget_s": 700, "run_timeout": 180, "selftest": 48, "workers": 8}
    return {"budget_s": 50, "run_timeout": 180, "selftest": 24, "workers": 8}


# -- generation ----------------------------------------------------------------------------------


def owner(path):
    c = path.split("/", 1)[0][:1]
    for who, letters in OWN.items():
        if c in letters:
            return who
    return None


def op_paths(op, model):
    """Every path an operation reads, creates or removes (None: cannot be confined)."""
    o = op["o"]
    if o in ("commit", "revert"):
        return [] if op.get("paths") is None else None
    if o in ("reopen", "lockcycle"):
        return []
    out = [op["p"]]
    if o == "rename":
        out.append(op["to"])
    elif o == "move":
        out.append(posixpath.join(op["to"], posixpath.basename(op["p"])) if op["to"] else posixpath.basename(op["p"]))
        if op["to"]:
            out.append(op["to"])
    elif o == "remove" and not op["keep"] and not op["force"]:
        # backups are created next to what is removed: same owner
        pass
    if any(p == "" for p in out):
        return None
    return out


RESERVED = ("h1", "h2")  # edited by the criss-cross prelude only


def dir_rename(op, model):
    return op["o"] in ("rename", "move") and model.dkind(op["p"]) == T.DIR


def gen_batch(rng, model, names, n, who, weights, counter, unguarded=()):
    """Up to n model-approved operations confined to `who`'s paths (None: anywhere)."""
    g = T.Gen(rng, model, names)
    g.n = counter[0]
    pool = [k for k, w in sorted(weights.items()) for _ in range(int(w))]
    ops = []
    tries = 0
    def acceptable(op, m):
        paths = op_paths(op, m)
        if paths is None:
            return False
        if who is not None and any(owner(p) != who for p in paths):
            return False
        if any(T.inside(r, p) for p in paths for r in RESERVED):
            return False
        return m.classify(op) == "ok"

    while len(ops) < n and tries < n * 40:
        tries += 1
        kind = rng.choice(pool)
        if kind in ("copy_then_move", "vacate_reuse"):
            # composite shapes: all or nothing
            seq = propose_shape(rng, g, model, kind, who)
            m2 = model.copy()
            ok = bool(seq)
            for op in seq or ():
                if not acceptable(op, m2):
                    ok = False
                    break
                m2.apply(op)
            if ok:
                for op in seq:
                    model.apply(op)
                    ops.append(op)
            continue
        op = g.propose(kind)
        if not op:
            continue
        if op["o"] == "commit":
            op["paths"] = None
        paths = op_paths(op, model)
        if paths is None:
            continue
        if who is not None and any(owner(p) != who for p in paths):
            continue
        if any(T.inside(r, p) for p in paths for r in RESERVED):
            continue
        if model.flavour == "git" and "git_dir_rename" not in unguarded and dir_rename(op, model):
            continue
        if model.classify(op) != "ok":
            continue
        model.apply(op)
        ops.append(op)
    counter[0] = g.n
    return ops


def content_n(data):
    """The n of treesim.content(n)."""
    return int(data.split(b"\n", 1)[0][1:])


def propose_shape(rng, g, model, kind, who):
    """Composite edit shapes the plain op mix hardly ever produces.

    copy_then_move (git): a byte-identical copy of a tracked file is added and the source is
    renamed or deleted in the same batch (the rename detector then reports rename + copy).
    vacate_reuse (bzr): a directory is renamed away, a child is renamed inside it, and a NEW
    directory with a new child takes over the vacated path."""
    m = model
    mine = lambda p: who is None or owner(p) == who  # noqa: E731
    letters = OWN[who] if who else "abcde"
    if kind == "copy_then_move":
        if m.flavour != "git":
            return None
        srcs = sorted(p for p in m.inv if mine(p) and m.dkind(p) == T.FILE and p in m.basis and m.basis[p][2] == m.disk[p][1])
        if not srcs:
            return None
        src = rng.choice(srcs)
        dirs = sorted({T.parent(src)} | {d for d in m.disk if m.dkind(d) == T.DIR and mine(d) and d.count("/") < 2})
        free = [(d + "/" + c if d else c) for d in dirs for c in letters]
        free = [p for p in free if p not in m.disk and not m.is_versioned(p) and mine(p)]
        if len(free) < 2:
            return None
        copy, dest = rng.sample(free, 2)
        seq = [{"o": "write", "p": copy, "n": content_n(m.disk[src][1])}, {"o": "add", "p": copy, "id": "f%d" % g.fresh()}]
        if rng.random() < 0.6:
            seq.append({"o": "rename", "p": src, "to": dest})
        else:
            seq.append({"o": "remove", "p": src, "keep": False, "force": True})
        if rng.random() < 0.5:
            seq = seq[2:] + seq[:2]
        return seq
    if kind == "vacate_reuse":
        if m.flavour != "bzr":
            return None
        dirs = sorted(d for d, e in m.inv.items() if d and e[1] == T.DIR and m.dkind(d) == T.DIR and mine(d) and any(m.dkind(q) == T.FILE and T.parent(q) == d for q in m.inv_below(d)))
        if not dirs:
            return None
        x = rng.choice(dirs)
        par = T.parent(x)
        names_ = [c for c in letters if (par + "/" + c if par else c) not in m.disk and not m.is_versioned(par + "/" + c if par else c)]
        if not names_:
            return None
        y = (par + "/" if par else "") + rng.choice(names_)
        f = rng.choice(sorted(q for q in m.inv_below(x) if T.parent(q) == x and m.dkind(q) == T.FILE))
        kids = {posixpath.basename(q) for q in m.disk if T.parent(q) == x}
        gname = rng.choice([c for c in "abcde" if c not in kids] or ["zz"])
        nname = rng.choice("abcde")
        return [
            {"o": "rename", "p": x, "to": y},
            {"o": "rename", "p": y + "/" + posixpath.basename(f), "to": y + "/" + gname},
            {"o": "mkdir", "p": x, "id": "d%d" % g.fresh()},
            {"o": "write", "p": x + "/" + nname, "n": g.fresh()},
            {"o": "add", "p": x + "/" + nname, "id": "f%d" % g.fresh()},
        ]
    return None


def make_names(rng):
    """Paths of depth <= 3 whose first component is one of a..e; both owners present."""
    tops = ["a", "b"] + rng.sample(["c", "d", "e"], rng.randint(0, 2))
    out = set(tops)
    for _ in range(rng.randint(3, 7)):
        par = rng.choice(sorted(p for p in out if p.count("/") < 2))
        out.add(par + "/" + rng.choice("abcde"))
    return sorted(out)


def clean(model):
    """Everything on disk is versioned and committed (git: also no empty directories - they are
    invisible to the index, are not carried to the sibling branch and stand in the way when the
    merge wants to delete their parent)."""
    if model.extras() or model.changes() or not model.revs:
        return False
    if model.flavour == "git":
        for d, node in model.disk.items():
            if node[0] == T.DIR and not any(T.strictly_inside(d, q) for q in model.inv):
                return False
    return True


def _dirs_nondirs(paths_kinds):
    dirs, nondirs = set(), set()
    for p, k in paths_kinds:
        if k == T.DIR:
            dirs.add(p)
        else:
            nondirs.add(p)
            dirs.update(a for a in T.ancestors(p) if a)
    return dirs, nondirs


def guarded_state(m_this, m_base=None, m_other=None, mtype="merge3"):
    """Name of the reported defect (GUARDS) this merge would run into, or None."""
    if m_this.flavour != "git":
        if mtype in ("weave", "lca"):
            # an entry whose kind changed to file on disk since the tree last looked (its
            # recorded kind is stale, so the merge cannot take its sha1 and falls into a text
            # merge) and that sits at another path than in the basis (uncommitted rename of it
            # or of a directory above it): plan_file_merge looks that path up in the parent trees
            bids = m_this.basis_ids()
            for q, (fid, ikind) in () if FIXED_WEAVE_RENAME else m_this.inv.items():
                if ikind != T.FILE and m_this.dkind(q) == T.FILE and fid in bids and bids[fid] != q:
                    return "weave_uncommitted_rename"
        return None
    for q, (_fid, ikind) in m_this.inv.items():
        if ikind == T.LINK and m_this.dkind(q) in (T.DIR, T.FILE):
            return "git_symlink_replaced"
    views = [_dirs_nondirs([(p, v[0]) for p, v in m_this.disk.items()] + [(p, m_this.inv[p][1]) for p in m_this.inv])]
    for m in (m_base, m_other):
        if m is not None:
            views.append(_dirs_nondirs((p, e[1]) for p, e in m.basis.items() if p))
    if m_base is not None and m_other is not None:
        # a directory whose last tracked file OTHER removed, holding untracked things in THIS
        base_dirs = {a for p in m_base.basis if p for a in T.ancestors(p) if a}
        other_dirs = {a for p in m_other.basis if p for a in T.ancestors(p) if a}
        tracked_dirs = {a for p in m_this.inv for a in T.ancestors(p) if a}
        untracked = [p for p in m_this.disk if p not in m_this.inv and p not in tracked_dirs]
        for d in base_dirs - other_dirs:
            if any(T.strictly_inside(d, u) for u in untracked):
                return "git_untracked_in_emptied_dir"
    for i, (d1, _n1) in enumerate(views):
        for j, (_d2, n2) in enumerate(views):
            if i != j and d1 & n2:
                return "git_dir_file_swap"
    if m_base is not None and m_other is not None:
        # a path whose old occupant went away and that another file was renamed onto in OTHER,
        # while THIS changed what is at that path as well (contents are unique, so equal bytes
        # at another base path mean "that file, moved here")
        for p, e in m_other.basis.items():
            b = m_base.basis.get(p)
            if not p or b is None or e[1] != T.FILE or b[1] != T.FILE or e[2] == b[2]:
                continue
            if any(q != p and v[1] == T.FILE and v[2] == e[2] for q, v in m_base.basis.items()):
                node = m_this.disk.get(p)
                if p not in m_this.inv or node is None or node[1] != b[2]:
                    return "git_rename_onto_vacated_path"
    return None


def final_commit(model, ops, rev, t):
    """Append a commit of everything; drop trailing ops until the model can predict it."""
    while True:
        op = {"o": "commit", "paths": None, "rev": rev, "t": t}
        if model.classify(op) == "ok":
            model.apply(op)
            ops.append(op)
            return True
        return False


def generate(rng, tier):
    for _attempt in range(20):
        plan = _generate(rng)
        if plan is not None:
            return plan
    return {"flavour": "bzr", "law": "other_is_base", "mtype": "merge3", "criss": False, "commit_this": False, "base": [], "this": [], "other": [], "n0": 1, "degenerate": True}


def _generate(rng):
    x = rng.random()
    unguarded = list(GUARDS) if x < P_UNGUARDED else (M.lifted_guards(PROPERTY, GUARDS) if x < P_LIFT else [])
    fl = rng.choice(["bzr", "bzr", "git"])
    law = rng.choice(LAWS)
    mtype = rng.choice(["merge3", "merge3", "weave", "lca"])
    criss = fl == "bzr" and rng.random() < 0.3
    names = make_names(rng)
    counter = [0]
    model = T.MTree(fl)
    base = []
    # the two files the criss-cross prelude edits (owned by nobody)
    for p in ("h1", "h2"):
        counter[0] += 1
        op = {"o": "write", "p": p, "n": counter[0]}
        model.apply(op)
        base.append(op)
    base += gen_batch(rng, model, names, rng.randint(4, 12), None, BASE_WEIGHTS, counter, unguarded)
    if fl == "git":
        # no empty directories in a git BASE (see ASSUMPTIONS): remove them, deepest first
        for dpath in sorted((q for q, node in model.disk.items() if node[0] == T.DIR), key=lambda q: -q.count("/")):
            if not model.disk_below(dpath):
                op = {"o": "rm_disk", "p": dpath}
                if model.classify(op) == "ok":
                    model.apply(op)
                    base.append(op)
    counter[0] += 1
    op = {"o": "smart_add", "p": "", "n": counter[0]}
    if model.classify(op) != "ok":
        return None
    model.apply(op)
    base.append(op)
    counter[0] += 1
    if not final_commit(model, base, "base", 1700000000 + counter[0]) or not clean(model):
        return None
    # histories of the two sides
    def side(who_area, n, seed_model, tag, must_commit):
        m = seed_model.copy()
        weights = BATCH_WEIGHTS
        if rng.random() < (0.45 if fl == "git" else 0.25):
            # a batch that is little more than one composite shape (a git commit that mixes added
            # and modified files is outside the treesim model, so copies rarely survive a mixed batch)
            weights = {"copy_then_move": 6, "write": 1} if fl == "git" else {"vacate_reuse": 6, "write": 1, "rename": 1}
            n = min(n, 2)
        ops = gen_batch(rng, m, names, n, who_area, weights, counter, unguarded)
        if must_commit:
            counter[0] += 1
            if not final_commit(m, ops, tag, 1700000000 + counter[0]):
                return None, None
        return ops, m

    commit_this = rng.random() < 0.5 or criss and False
    n1, n2 = rng.randint(1, 6), rng.randint(1, 6)
    if law == "other_is_base":
        this_ops, mt_ = side(None, n1, model, "this", False)
        other_ops = []
        if rng.random() < 0.6:
            counter[0] += 1
            other_ops = [{"o": "commit", "paths": None, "rev": "other", "t": 1700000000 + counter[0]}]
    elif law == "this_is_base":
        this_ops = []
        other_ops, mo_ = side(None, n2, model, "other", True)
        commit_this = False
    elif law == "identical":
        # ids and contents depend on the counter: both sides replay the same list
        other_ops, mo_ = side(None, n2, model, "other", True)
        if other_ops is None:
            return None
        this_ops = [dict(op) for op in other_ops[:-1]]
        # commits inside the batch need distinct revision ids per side
        for op in this_ops:
            if op["o"] == "commit":
                op["rev"] = op["rev"] + "-t"
    else:
        this_ops, mt_ = side("this", n1, model, "this", False)
        other_ops, mo_ = side("other", n2, model, "other", True)
    if this_ops is None or other_ops is None:
        return None
    if law == "identical" and not commit_this:
        # "identical changes" must mean identical trees: an uncommitted THIS whose versioned
        # files are missing from disk (or were re-typed on disk) is not the tree OTHER committed
        m = model.copy()
        for op in this_ops:
            m.apply(op)
        mo2 = model.copy()
        for op in other_ops:
            mo2.apply(op)
        if model_view(m, fl)[1] != basis_view(mo2, fl)[1]:
            commit_this = True
    if commit_this and law != "this_is_base":
        m = model.copy()
        ok = True
        for op in this_ops:
            if m.classify(op) != "ok":
                ok = False
                break
            m.apply(op)
        counter[0] += 1
        op = {"o": "commit", "paths": None, "rev": "this", "t": 1700000000 + counter[0]}
        if ok and m.classify(op) == "ok":
            this_ops = this_ops + [op]
        elif law == "identical":
            return None
        else:
            commit_this = False
    plan = {"flavour": fl, "law": law, "mtype": mtype, "criss": criss, "commit_this": commit_this, "names": names, "base": base, "this": this_ops, "other": other_ops, "n0": counter[0] + 1}
    m = model.copy()
    for op in this_ops:
        if m.classify(op) != "ok":
            return None
        m.apply(op)
    mo = model.copy()
    for op in other_ops:
        if mo.classify(op) != "ok":
            return None
        mo.apply(op)
    g = guarded_state(m, model, mo, mtype)
    if g:
        if g not in unguarded:
            return None
        plan["unguarded"] = unguarded
    return plan


def shrink_candidates(plan):
    import copy

    for key in ("this", "other", "base"):
        ops = plan[key]
        n = len(ops)
        chunk = max(1, n // 2)
        while chunk >= 1 and n:
            for start in range(0, n, chunk):
                p = copy.deepcopy(plan)
                p[key] = ops[:start] + ops[start + chunk :]
                if plan["law"] == "identical" and key in ("this", "other"):
                    continue
                yield p
            chunk //= 2
    if plan["law"] == "identical":
        for i in range(len(plan["this"])):
            p = copy.deepcopy(plan)
            gone = p["this"].pop(i)
            p["other"] = [op for op in p["other"] if not (op["o"] == gone["o"] and op.get("p") == gone.get("p") and op.get("n") == gone.get("n") and op.get("to") == gone.get("to"))]
            yield p
    for key, val in (("criss", False), ("mtype", "merge3"), ("commit_this", False)):
        if plan.get(key) != val:
            p = copy.deepcopy(plan)
            p[key] = val
            if key == "commit_this":
                p["this"] = [op for op in p["this"] if not (op["o"] == "commit" and op.get("rev") == "this")]
            yield p


# -- execution -------------------------------------------------------------------------------------


class Abandon(Exception):
    pass


def _h(obj):
    return hashlib.sha1(repr(obj).encode("utf-8", "replace")).hexdigest()[:12]


def run_ops(sim, tree, model, ops, who):
    """Apply a generated batch to a real tree and its model; any disagreement is C09's business."""
    for op in ops:
        if model.flavour == "git" and who != "base" and dir_rename(op, model):
            sim.notes["git_dir_rename"] = True
        if model.classify(op) != "ok":
            sim.event("skip", who, op["o"])
            raise Abandon("model declines %s on %s" % (json.dumps(op), who))
        try:
            tree = T.apply_op(tree, model, op)
        except Exception as e:  # noqa: BLE001
            raise Abandon("%s raised %r on %s" % (json.dumps(op), e, who)) from e
        model.apply(op)
        sim.event("op", who, json.dumps(op, sort_keys=True))
    return tree


def rev_id(tree, model):
    return tree.last_revision()


def snapshot(tree, fl):
    """(disk, versioned) of a working tree, through a fresh tree object."""
    disk = T.disk_snapshot(tree._sim_root, fl)
    if fl == "git":
        disk = {p: v for p, v in disk.items() if v[0] != T.DIR}
    snap = T.tree_snapshot(tree)
    if fl == "git":
        snap = {p: (k, d, x, None) for p, (k, d, x, _f) in snap.items() if k != T.DIR and p != ""}
    return disk, snap


def model_view(model, fl):
    """What `snapshot` returns for a tree in the model's state."""
    disk = dict(model.disk)
    if fl == "git":
        disk = {p: v for p, v in disk.items() if v[0] != T.DIR}
    snap = {}
    for p in model.versioned_paths():
        if fl == "git" and (p == "" or p not in model.inv):
            continue
        node = model.disk.get(p) if p else (T.DIR, None, False)
        fid = model.inv[p][0] if fl == "bzr" else None
        if node is None:
            snap[p] = (None, None, False, fid)
        elif fl == "git" and node[0] == T.DIR:
            continue
        else:
            snap[p] = (node[0], node[1], bool(node[2]) if node[0] == T.FILE else False, fid)
    return disk, snap


def basis_view(model, fl):
    """(disk, versioned) of a clean checkout of the model's last commit."""
    disk, snap = {}, {}
    for p, (fid, kind, data, x) in model.basis.items():
        if p == "":
            if fl == "bzr":
                snap[""] = (T.DIR, None, False, fid)
            continue
        if fl == "git" and kind == T.DIR:
            continue
        disk[p] = (kind, data, bool(x) if kind == T.FILE else False)
        snap[p] = (kind, data, bool(x) if kind == T.FILE else False, fid if fl == "bzr" else None)
    return disk, snap


def overlay(this_view, other_view, fl):
    """Per-owner overlay: THIS's view everywhere except on OTHER's paths."""
    out = []
    for a, b in zip(this_view, other_view):
        d = {p: v for p, v in a.items() if owner(p) != "other"}
        d.update({p: v for p, v in b.items() if owner(p) == "other"})
        out.append(d)
    return tuple(out)


def _diff(exp, got):
    out = []
    for p in sorted(set(exp) | set(got)):
        if exp.get(p) != got.get(p):
            out.append("%r: expected %s, found %s" % (p, _short(exp.get(p)), _short(got.get(p))))
    return "; ".join(out[:6])


def _short(v):
    if v is None:
        return "nothing"
    v = tuple(v)
    if isinstance(v[1], bytes) and len(v[1]) > 24:
        v = (v[0], v[1][:12] + b"..", *v[2:])
    return repr(v)


def execute(sim, plan):
    warm()
    M.begin(sim)
    if plan.get("degenerate"):
        return
    fl, law, mtype = plan["flavour"], plan["law"], plan["mtype"]
    try:
        _execute(sim, plan, fl, law, mtype)
    except Abandon as e:
        sim.probe("setup_abandoned")
        sim.event("abandoned", str(e).split(" raised ")[0][:120])
        sim.nontrivial = False


def _execute(sim, plan, fl, law, mtype):
    sig = [fl, law, mtype, "criss" if plan["criss"] else "plain"]

    territory = []

    def fail(tag, detail):
        text = "%s\nthis: %s\nother: %s" % (detail, json.dumps(plan["this"]), json.dumps(plan["other"]))
        if territory:
            sim.fail(tag, ["C17", "known-defect", territory[0]], "[%s, in the territory of %s] %s" % (tag, territory[0], text))
        sim.fail(tag, ["C17", tag] + sig, text)

    tree = T.make_tree(sim, fl, "t")
    model = T.MTree(fl)
    tree = run_ops(sim, tree, model, plan["base"], "base")
    if not clean(model):
        raise Abandon("BASE is not clean")
    other = M.sprout(tree, "o")
    m_this, m_other = model.copy(), model.copy()
    n = plan["n0"]
    if plan["criss"]:
        # A on this side, B on the other; each side merges the other's tip: two LCAs
        tree = run_ops(sim, tree, m_this, [{"o": "write", "p": "h1", "n": n}, {"o": "commit", "paths": None, "rev": "A", "t": 1700000000 + n}], "this")
        other = run_ops(sim, other, m_other, [{"o": "write", "p": "h2", "n": n + 1}, {"o": "commit", "paths": None, "rev": "B", "t": 1700000001 + n}], "other")
        rev_a, rev_b = tree.last_revision(), other.last_revision()
        for t_, m_, rev, br, p, k, tag in ((tree, m_this, rev_b, other.branch, "h2", n + 1, "C"), (other, m_other, rev_a, tree.branch, "h1", n, "D")):
            try:
                cs = M.do_merge(t_, rev, br, "merge3")
            except Exception as e:  # noqa: BLE001
                raise Abandon("criss-cross prelude merge raised %r" % (e,)) from e
            if cs:
                raise Abandon("criss-cross prelude conflicted: %r" % (cs,))
            m_.apply({"o": "write", "p": p, "n": k})
            try:
                M.commit(t_, tag, n + 5 + (tag == "D"))
            except Exception as e:  # noqa: BLE001
                raise Abandon("criss-cross prelude commit raised %r" % (e,)) from e
            m_.apply({"o": "commit", "paths": None, "rev": tag, "t": 0})
    tree = run_ops(sim, tree, m_this, plan["this"], "this")
    other = run_ops(sim, other, m_other, plan["other"], "other")
    other_rev = other.last_revision()
    # sanity: the real trees are where the models are (else: C09's business)
    tree, other = T.reopen(tree), T.reopen(other)
    before = snapshot(tree, fl)
    if before != model_view(m_this, fl):
        raise Abandon("THIS differs from its model before the merge: %s" % _diff(model_view(m_this, fl)[0], before[0]))
    if m_other.changes():
        raise Abandon("OTHER has uncommitted changes")
    g = guarded_state(m_this, model, m_other, mtype) or ("git_dir_rename" if sim.notes.pop("git_dir_rename", None) else None)
    if g:
        if g not in plan.get("unguarded", ()):
            raise Abandon("guarded state %s" % g)
        territory.append(g)
        sim.probe("territory_" + g)
    base_view = basis_view(model, fl)
    other_view = basis_view(m_other, fl)
    if law == "this_is_base" and (m_this.changes() or before != (base_view if not plan["criss"] else before)):
        raise Abandon("THIS is not BASE")
    if law == "other_is_base" and not plan["criss"] and other_view != base_view:
        raise Abandon("OTHER is not BASE")
    # what must come out
    if law in ("other_is_base", "identical"):
        expected = before
    elif law == "this_is_base":
        expected = other_view
    else:
        expected = overlay(before, other_view, fl)
    effective = {
        "other_is_base": before != base_view,
        "this_is_base": other_view != base_view,
        "identical": other_view != base_view,
        "disjoint": before != base_view and other_view != base_view,
    }[law]
    if plan["criss"]:
        effective = bool(plan["this"] or plan["other"])

    # -- the merge
    info = {}
    try:
        cooked = M.do_merge(tree, other_rev, other.branch, mtype, info=info)
    except Exception as e:  # noqa: BLE001 - a merge of trees related by a law must not fail
        import traceback

        tb = "".join(traceback.format_exception(type(e), e, e.__traceback__)[-6:])
        fail("merge_raised", "merge raised %r\n%s" % (e, tb))
    if plan["criss"] and not info.get("criss_cross"):
        raise AssertionError("harness: criss-cross history without two LCAs: %r" % (info,))
    sim.event("merge", fl, law, mtype, plan["criss"], plan["commit_this"], len(cooked))
    tree = T.reopen(tree)
    try:
        recorded = M.conflict_tuples(tree)
    except Exception as e:  # noqa: BLE001
        fail("conflicts_raised", "conflicts() raised %r" % (e,))
    if cooked or recorded:
        fail("conflicts", "the merge reported %r and recorded %r" % ([str(c) for c in cooked], recorded))
    try:
        after = snapshot(tree, fl)
    except Exception as e:  # noqa: BLE001
        fail("read_raised", "reading the merged tree raised %r" % (e,))
    sim.event("result", _h(sorted(after[0].items())), _h(sorted(after[1].items(), key=repr)))
    if after[1] != expected[1]:
        fail("versioned", "versioned entries after the merge: %s" % _diff(expected[1], after[1]))
    if after[0] != expected[0]:
        fail("disk", "files after the merge: %s" % _diff(expected[0], after[0]))
    sim.state_seen((fl, law, tuple(sorted(expected[1].items(), key=repr))))
    sim.probe("law_" + law)
    sim.probe("type_" + mtype + ("_criss" if plan["criss"] else ""))
    sim.nontrivial = bool(effective and len(base_view[1]) >= 3)
