"""C21 — Pull and push never silently drop history.

One run = one generated DAG (2-4 lines of development, merges of merges, merged roots,
optional ghost right-hand parents) in a shared repository on a simulated store, with a
source branch, a target branch (same shared repository, or a standalone branch on a second
store so that pull/push must fetch), a possible master branch, and a seeded HISTORY of
operations on them: pull / push (stop_revision inside or outside the source's ancestry,
overwrite False / True / {"history"} / {"tags"} / {} / both), set_last_revision_info,
generate_revision_history (with and without last_rev), uncommit, re-pointing the source,
bind / unbind to the master, append_revisions_only on target / master, transport error
injected exactly at the `put` of a `last-revision` file (first or second such put of the
operation), re-opening all objects.  Tip pairs are drawn by RELATION class (equal,
descends along the left-hand side, descends only through a merge, target contains source,
diverged, empty target).

Oracle (graph model, independent walks): per branch the update law
    no history overwrite: requested descends from tip => tip = requested; tip contains
    requested => unchanged; else DivergedBranches and unchanged;
    append-only: a move to X whose left-hand history lacks the old tip raises
    (AppendRevisionsOnlyViolation) and changes nothing - also with overwrite, for
    set_last_revision_info, generate_revision_history and uncommit;
bound target: the master is judged first by the same law, then the target; after EVERY
operation every branch's last_revision_info() is (length of the tip's left-hand history,
tip), read from the objects used and from fresh objects.  Under the injected error the
branch whose put failed keeps its tip and the same operation retried by fresh objects
obeys the law."""

import copy

from simkit import findings, world
from simkit.sim import SimCrash

from . import graphsim, storesim
from .graphsim import NULL, GModel, gen_dag
from .graphsim import GMHist, replay_model

PROPERTY = "C21"
LEVEL = "exploration"
ISOLATION = "fork"
STEP_CAP = 400000
RULE = (
    "one case = one (generated DAG, shared-or-separate repositories, format) x one seeded history of operations "
    "(pull/push with stop_revision and overwrite variants, set_last_revision_info, generate_revision_history, uncommit, "
    "source re-pointing, bind/unbind, append_revisions_only switches, error at the put of last-revision, re-open); "
    "non-trivial = at least one pull/push met a relation other than 'empty target' / 'left-hand descendant' or ran "
    "bound, append-only or under the injected error; distinct = distinct event-log digests of such runs"
)
COMPONENTS = {
    "real": [
        "breezy.branch.GenericInterBranch.pull/_pull/push/_basic_push/_update_revisions/fetch, Branch._check_if_descendant_or_diverged/_revision_relations, generate_revision_history",
        "breezy.bzr.branch.BzrBranch.set_last_revision_info, BzrBranch8._check_history_violation, bind/unbind/get_master_branch, branch.conf config stack (append_revisions_only, bound)",
        "breezy.uncommit.uncommit",
        "vcsgraph Graph.heads / is_ancestor / find_distance_to_null / iter_lefthand_ancestry over the real repository indices",
        "repository fetch between a shared and a standalone pack repository (separate mode), tags merge_to",
    ],
    "simulated": ["disk (SimTransport over the memory transport)", "transport error before the put of last-revision", "re-open (fresh objects)", "clock of breezy.lockdir"],
    "stub": ["UI"],
}
ASSUMPTIONS = [
    "ghosts have no ancestry; right-hand ghost parents anywhere; LEFT-HAND ghost parents only on extra 'ghost-mainline' revisions used as requested revisions or tips: their left-hand history (and revno) counts from the ghost's child, an operation asked to move to them may refuse by naming the ghost (GhostRevisionsHaveNoRevno / RevisionNotPresent) where the law asks for a move - but with append-only it MUST refuse when the visible left-hand history lacks the old tip; such requests are not run against bound targets, and uncommit is not run on such tips",
    "the requested revision is present in the source's repository (stop revisions outside the source BRANCH's ancestry are used, absent ones are not)",
    "with history overwrite (and no append-only refusal) the tip becomes the requested revision; tags are exercised, not judged",
    "recorded revision numbers of all branches are correct at the start (they are written by the check from the model)",
]


def warm():
    storesim.warm()
    import random

    import breezy.tag  # noqa: F401
    import breezy.uncommit  # noqa: F401
    from simkit.sim import Sim, Violation

    global _warmed
    if _warmed:
        return
    for seed in (3, 4):
        rng = random.Random(seed)
        plan = generate(rng, "quick")
        plan["separate"] = seed == 4
        sim = Sim(0, plan, step_cap=STEP_CAP)
        sim.tier = "quick"
        try:
            execute(sim, plan)
        except Violation:
            pass
        finally:
            world.reset_stores()
    _warmed = True


_warmed = False


def config(tier):
    if tier == "thorough":
        return {"budget_s": 700, "run_timeout": 180, "selftest": 12}
    return {"budget_s": 50, "run_timeout": 180, "selftest": 6}


# ------------------------------------------------------------------------------------
# model of the update law


def relclass(gm, cur, req):
    if cur in (None, NULL):
        return "empty-target"
    if req in (None, NULL):
        return "empty-request"
    if cur == req:
        return "equal"
    if cur in gm.ancestry(req):
        return "descends-lh" if cur in gm.lefthand(req) else "descends-merged"
    if req in gm.ancestry(cur):
        return "contains"
    return "diverged"


def upd(gm, cur, req, ow_history, append):
    """(new tip, refusal) for one branch: refusal in (None, 'diverged', 'append',
    'diverged|append' when both reasons apply)."""
    if req in (None, NULL):
        return cur, None
    rc = relclass(gm, cur, req)
    blocked = append and cur not in (None, NULL) and cur not in gm.lefthand(req)
    if not ow_history:
        if rc in ("equal", "contains"):
            return cur, None
        if rc == "diverged":
            return cur, "diverged|append" if blocked else "diverged"
    if blocked:
        return cur, "append"
    return req, None


class Model:
    def __init__(self, gm, tips, separate, have_t):
        self.gm = gm
        self.tips = dict(tips)  # src, tgt, master, build
        self.bound = False
        self.append = {"tgt": False, "master": False}
        self.separate = separate
        self.have_t = set(have_t)

    def copy(self):
        m = Model(self.gm, self.tips, self.separate, self.have_t)
        m.bound = self.bound
        m.append = dict(self.append)
        return m

    def predict(self, op):
        """Returns {"tgt": tip, "master": tip, "refusal": None|'diverged'|'append'|'other', "who": branch that refuses}
        for the fault-free execution of op."""
        gm = self.gm
        t, m = self.tips["tgt"], self.tips["master"]
        out = {"tgt": t, "master": m, "refusal": None, "who": None, "rel": None}
        kind = op[0]
        if kind in ("pull", "push"):
            a = op[2]
            srcname = op[1]
            req = a["stop"] or self.tips[srcname]
            ow = a["ow"] is True or (isinstance(a["ow"], list) and "history" in a["ow"])
            out["rel"] = relclass(gm, t, req)
            via_master = self.bound and not (kind == "pull" and srcname == "master")
            if via_master:
                nm, ref = upd(gm, m, req, ow, self.append["master"])
                if ref:
                    out.update(refusal=ref, who="master")
                    return out
                out["master"] = nm
            nt, ref = upd(gm, t, req, ow, self.append["tgt"])
            if ref:
                out.update(refusal=ref, who="tgt")
                return out
            out["tgt"] = nt
            return out
        if kind == "set_lri":
            nt, ref = upd(gm, t, op[1], True, self.append["tgt"])
            out["rel"] = relclass(gm, t, op[1])
            out.update(tgt=nt, refusal=ref, who="tgt" if ref else None)
            return out
        if kind == "genhist":
            req = op[1]
            out["rel"] = relclass(gm, t, req)
            if op[2] and t not in (None, NULL) and not gm.is_ancestor(t, req):
                out.update(refusal="diverged", who="tgt")
                return out
            nt, ref = upd(gm, t, req, True, self.append["tgt"])
            out.update(tgt=nt, refusal=ref, who="tgt" if ref else None)
            return out
        if kind == "uncommit":
            lh = gm.lefthand(t)
            r = op[1]
            out["rel"] = "uncommit"
            if self.bound and m != t:
                out.update(refusal="other", who="tgt")
                return out
            new = lh[r - 2] if r >= 2 else NULL
            if self.bound:
                if self.append["master"] and new != m:
                    out.update(refusal="append", who="master")
                    return out
                out["master"] = new
            if self.append["tgt"] and new != t:
                out.update(refusal="append", who="tgt")
                return out
            out["tgt"] = new
            return out
        raise ValueError(op)


# ------------------------------------------------------------------------------------
# generation


def _pairs_by_relation(gm, revs):
    buckets = {}
    for a in revs:
        for b in revs:
            buckets.setdefault(relclass(gm, a, b), []).append((a, b))
    return buckets


OW_CHOICES = [False, False, False, True, ["history"], ["tags"], [], ["history", "tags"]]


def generate(rng, tier):
    fmt = rng.choice(storesim.FORMATS + ["2a"])
    mh = GMHist()
    n = rng.randint(4, 13)
    specs, lines = gen_dag(
        rng,
        mh,
        n,
        "g",
        max_lines=rng.choice([2, 3, 4]),
        p_merge=rng.choice([0.3, 0.45]),
        p_fork=0.2,
        p_root=rng.choice([0.0, 0.06]),
        p_ghost=rng.choice([0.0, 0.0, 0.08]),
        nchanges=1,
    )
    ghostly = []
    if rng.random() < 0.4:
        # revisions whose LEFT-HAND parent is a ghost: a merge (ghost, A) on top of an existing
        # revision A, or an unrelated ghost-rooted line; optionally continued by a child.  Their
        # left-hand history cannot contain any older tip, yet graph.heads sees (ghost, A) as a
        # plain descendant of A.
        for _ in range(rng.choice([1, 1, 2])):
            k = len(specs) + 1
            rid = f"g{k}"
            base = rng.choice(sorted(mh.revs, key=graphsim._natkey))
            parents = [f"ghost-lh-{rid}"] + ([base] if rng.random() < 0.75 else [])
            specs.append(storesim.gen_spec(rng, mh, rid, parents, 1_500_000_000 + len(mh.revs) * 10, 1))
            ghostly.append(rid)
            if rng.random() < 0.5:
                k += 1
                specs.append(storesim.gen_spec(rng, mh, f"g{k}", [rid], 1_500_000_000 + len(mh.revs) * 10, 1))
                ghostly.append(f"g{k}")
    gm = GModel(mh)
    revs = sorted(mh.revs, key=graphsim._natkey)
    buckets = _pairs_by_relation(gm, revs)
    separate = rng.random() < 0.35

    def pair():
        rel = rng.choice(sorted(buckets))
        return rng.choice(buckets[rel])

    t0, s0 = pair()
    if rng.random() < 0.15:
        t0 = NULL
    tips = {"src": s0, "tgt": t0, "master": t0 if rng.random() < 0.6 else rng.choice(revs), "build": specs[-1]["id"]}
    model = Model(gm, dict(tips), separate, gm.ancestry(t0))
    ops = []
    tags = {"src": {}, "tgt": {}}
    for i in range(rng.randint(0, 2)):
        tags["src"][f"t{i}"] = rng.choice(revs)
    if tags["src"] and rng.random() < 0.5:
        tags["tgt"]["t0"] = rng.choice(revs)

    def apply(op):
        """advance the generation-time model (fault-free prediction)"""
        p = model.predict(op)
        model.tips["tgt"], model.tips["master"] = p["tgt"], p["master"]
        model.have_t |= gm.ancestry(p["tgt"])
        if op[0] in ("pull", "push") and not p["refusal"]:
            req = op[2]["stop"] or model.tips[op[1]]
            model.have_t |= gm.ancestry(req)

    ncases = rng.randint(3, 8)
    if ghostly and rng.random() < 0.6:
        ops.append(["append", "tgt", True])
        model.append["tgt"] = True
    for _ in range(ncases):
        # environment steps
        r = rng.random()
        if r < 0.22:
            which = rng.choice(["tgt", "tgt", "master"])
            val = not model.append[which] if rng.random() < 0.8 else model.append[which]
            ops.append(["append", which, val])
            model.append[which] = val
        elif r < 0.36:
            if model.bound:
                ops.append(["unbind"])
                model.bound = False
            else:
                ops.append(["bind"])
                model.bound = True
        if rng.random() < 0.18:
            ops.append(["reopen"])
        # choose the relation to be met by the next operation
        t = model.tips["tgt"]
        want = rng.choice(["equal", "descends-lh", "descends-merged", "descends-merged", "contains", "diverged", "diverged", "any"])
        cands = [b for (a, b) in buckets.get(want, []) if a == t] if want != "any" else revs
        target_rev = rng.choice(cands) if cands else rng.choice(revs)
        force_ghost = False
        if ghostly and rng.random() < (0.6 if model.append["tgt"] else 0.15):
            target_rev = rng.choice(ghostly)
            # under append-only prefer the operation forms that reach the history check
            # (tip named by the source branch, or set directly) over an explicit stop_revision,
            # whose revno lookup stops at the ghost first
            force_ghost = model.append["tgt"] and not model.bound and rng.random() < 0.8
        r = rng.random()
        if force_ghost:
            r = rng.choice([0.1, 0.1, 0.7])
        if r < 0.62:
            kind = rng.choice(["pull", "pull", "push"])
            srcname = rng.choice(["src", "src", "src", "build", "master"])
            if kind == "push" and srcname == "master" and rng.random() < 0.7:
                srcname = "src"
            a = {"stop": None, "ow": copy.deepcopy(rng.choice(OW_CHOICES)), "fault": None}
            if force_ghost:
                srcname = "src"
            if srcname == "src" and (force_ghost or rng.random() < 0.75):
                ops.append(["retip", target_rev])
                model.tips["src"] = target_rev
            else:
                # the requested revision is named by stop_revision (inside or outside the source's ancestry)
                a["stop"] = target_rev
            if a["stop"] is None and rng.random() < 0.2:
                anc = sorted(gm.ancestry(model.tips[srcname]), key=graphsim._natkey)
                if anc:
                    a["stop"] = rng.choice(anc)
            if rng.random() < 0.22:
                a["fault"] = {"which": rng.choice([1, 1, 2]), "err": rng.choice(["transport", "enospc", "permission"])}
            op = [kind, srcname, a]
        elif r < 0.74:
            op = ["set_lri", target_rev]
            if model.separate and target_rev not in model.have_t:
                op = ["pull", "build", {"stop": target_rev, "ow": True, "fault": None}]
        elif r < 0.86:
            op = ["genhist", target_rev, rng.random() < 0.5]
            if model.separate and target_rev not in model.have_t:
                op = ["pull", "build", {"stop": target_rev, "ow": ["history"], "fault": None}]
        else:
            lh = gm.lefthand(model.tips["tgt"])
            if not lh:
                continue
            op = ["uncommit", rng.randint(1, len(lh))]
        ops.append(op)
        apply(op)
    tips = {k: v for k, v in tips.items() if k != "build"}  # the build branch's tip is whatever the last revision leaves
    return {"fmt": fmt, "specs": specs, "separate": separate, "tips": tips, "tags": tags, "ops": ops}


# ------------------------------------------------------------------------------------
# execution


def execute(sim, plan):
    import vcsgraph.errors as vg_errors
    from breezy import errors, uncommit

    storesim.warm()
    sim.disarm()
    world.setup_sim(sim)
    known = findings.load(PROPERTY)
    fmt = plan["fmt"]
    mh = replay_model(plan["specs"])
    gm = GModel(mh)
    separate = plan["separate"]
    tips = dict(plan["tips"])
    for k in ("src", "tgt", "master"):
        if tips[k] != NULL and tips[k] not in mh.revs:
            return  # shrunk away
    if not plan["specs"]:
        return
    tips["build"] = plan["specs"][-1]["id"]
    url = world.new_store("repo")
    storesim.make_shared_repo(url, fmt)
    build = storesim.make_branch(url + "build", fmt)
    graphsim.build_dag(build, plan["specs"])
    urls = {"build": url + "build", "src": url + "src", "master": url + "master"}
    for name in ("src", "master"):
        b = storesim.make_branch(urls[name], fmt)
        graphsim.point_branch(b, gm, tips[name])
    if separate:
        url_t = world.new_store("tgt")
        urls["tgt"] = url_t + "tgt"
        tb = storesim.make_branch(urls["tgt"], fmt)
        if tips["tgt"] != NULL:
            tb.fetch(build, tips["tgt"].encode())
            graphsim.point_branch(tb, gm, tips["tgt"])
    else:
        urls["tgt"] = url + "tgt"
        tb = storesim.make_branch(urls["tgt"], fmt)
        graphsim.point_branch(tb, gm, tips["tgt"])
    for bname, td in sorted(plan.get("tags", {}).items()):
        b = storesim.open_branch(urls[bname])
        for name, rid in sorted(td.items()):
            b.tags.set_tag(name, rid.encode())
    del build, tb, b
    model = Model(gm, tips, separate, gm.ancestry(tips["tgt"]))
    objs = {}

    def get(name):
        if name not in objs:
            objs[name] = storesim.open_branch(urls[name])
        return objs[name]

    def deviation(oracle, kind, site, detail):
        sig = [oracle, kind, site]
        if findings.match(known, sig) is not None:
            kn = sim.notes.setdefault("known", [])
            if sig not in kn:
                kn.append(sig)
            sim.probe("known_" + oracle)
            return
        sim.fail(oracle, sig, detail)

    def enc(rid):
        return rid.encode() if rid not in (None,) else None

    def info_of(b):
        revno, rid = b.last_revision_info()
        return revno, rid.decode()

    def verify(label, faultkind, site, names=("tgt", "master", "src")):
        for name in names:
            want_tip = model.tips[name]
            want = (len(gm.lefthand(want_tip)), want_tip)
            views = []
            if name in objs:
                views.append(("used-object", objs[name]))
            views.append(("fresh-object", storesim.open_branch(urls[name])))
            for vname, b in views:
                got = info_of(b)
                if got[1] != want[1]:
                    sim.fail("tip", ["tip", faultkind, site], f"{label}: branch {name} ({vname}) tip is {got[1]}, the law gives {want[1]} [state: {state_text()}]")
                if got[0] != want[0]:
                    sim.fail("revno", ["revno", faultkind, site], f"{label}: branch {name} ({vname}) records revno {got[0]} for tip {got[1]} whose left-hand history {gm.lefthand(want_tip)} has length {want[0]} [state: {state_text()}]")

    def state_text():
        return f"tips={model.tips} bound={model.bound} append={model.append} separate={separate}"

    def classify(e):
        if isinstance(e, errors.DivergedBranches):
            return "diverged"
        if isinstance(e, errors.AppendRevisionsOnlyViolation):
            return "append"
        if isinstance(e, (errors.GhostRevisionsHaveNoRevno, vg_errors.RevisionNotPresent, vg_errors.GhostRevisionsHaveNoRevno)):
            return "ghost"
        return "other"

    def perform(op):
        """Run the real operation; returns (result, exception)."""
        kind = op[0]
        tgt = get("tgt")
        try:
            if kind in ("pull", "push"):
                a = op[2]
                src = get(op[1])
                ow = a["ow"] if isinstance(a["ow"], bool) else set(a["ow"])
                stop = a["stop"].encode() if a["stop"] else None
                if kind == "pull":
                    return tgt.pull(src, overwrite=ow, stop_revision=stop), None
                return src.push(tgt, overwrite=ow, stop_revision=stop), None
            if kind == "set_lri":
                rid = op[1]
                return tgt.set_last_revision_info(len(gm.lefthand(rid)), rid.encode()), None
            if kind == "genhist":
                last = model.tips["tgt"]
                kw = {"last_rev": last.encode()} if op[2] and last != NULL else {}
                return tgt.generate_revision_history(op[1].encode(), **kw), None
            if kind == "uncommit":
                return uncommit.uncommit(tgt, revno=op[1]), None
        except (SimCrash, KeyboardInterrupt, SystemExit):
            raise
        except BaseException as e:  # noqa: B036 - a panic in the Rust parts arrives as a BaseException
            return None, e
        raise ValueError(op)

    def arm_at_last_revision(which, err):
        seen = {"n": 0, "path": None}

        def filt(a, opname, path, mutating):
            if opname == "put" and path.endswith("/last-revision"):
                seen["n"] += 1
                if seen["n"] == which:
                    seen["path"] = path
                    sim.faults = [{"kind": "err_before", "at": a.nmut + 1, "count": "mut", "err": err}]
                    return True
            return False

        sim.arm([])
        sim.fault_filter = filt
        return seen

    def disarm():
        sim.fault_filter = None
        sim.disarm()

    def judge(op, pred, res, exc, faultkind, site):
        kind = op[0]
        refusal = pred["refusal"]
        if exc is not None and model.bound and refusal is None and kind in ("pull", "push", "uncommit") and (isinstance(exc, errors.LockContention) or "LockContention" in str(exc)[:400]):
            # the operation waited for a lock held by itself.  The tips are judged below as for a
            # successful operation; the error itself is reported separately
            what = "tags-delete-reopens-locked-master" if kind == "uncommit" else "tags-merge-reopens-locked-master"
            deviation("self_deadlock", "none", f"{kind}:bound-target:{what}", f"{op} on a bound target ended in {type(exc).__name__}: {str(exc)[:300]} [state: {state_text()}]")
            exc = None
            res = None
        ghost_req = req_of(op) is not None and graphsim.ghost_mainline(mh, req_of(op))
        if ghost_req:
            sim.probe("ghost_mainline_request" + ("_append_only" if model.append["tgt"] else "") + ("_must_refuse" if refusal == "append" else ""))
        if exc is not None and ghost_req and classify(exc) == "ghost":
            # the requested revision's mainline runs into a ghost: its revision number / left-hand
            # history cannot be established, a refusal that names the ghost is as good as the
            # refusal the law asks for, and is allowed where the law asks for none.  Nothing moved.
            sim.probe("refusal_ghost")
            pred = dict(pred, tgt=model.tips["tgt"], master=model.tips["master"], who=pred["who"] or "tgt")
            refusal = "ghost"
            exc_ok = True
        else:
            exc_ok = False
        if exc is not None and not exc_ok:
            got = classify(exc)
            if refusal is None:
                sim.fail("refused", ["refused", faultkind, site + ":" + type(exc).__name__], f"{op} raised {type(exc).__name__}: {exc}; the law gives tgt={pred['tgt']} master={pred['master']} without refusal [state: {state_text()}]")
            if refusal != "other" and got not in refusal.split("|"):
                sim.fail("refusal_kind", ["refusal_kind", faultkind, site + ":" + type(exc).__name__], f"{op} raised {type(exc).__name__}: {exc}; expected refusal '{refusal}' by {pred['who']} [state: {state_text()}]")
            sim.probe("refusal_" + got)
        elif exc is None and refusal is not None:
            oracle = "append_only" if refusal == "append" else "must_refuse"
            now = {n: info_of(storesim.open_branch(urls[n])) for n in ("tgt", "master")}
            sim.fail(oracle, [oracle, faultkind, site], f"{op} succeeded although {pred['who']} must refuse ({refusal}); now {now} [state: {state_text()}]")
        model.tips["tgt"], model.tips["master"] = pred["tgt"], pred["master"]
        if separate and kind in ("pull", "push") and pred["who"] != "master":
            req = op[2]["stop"] or model.tips[op[1]]
            if req != NULL and not (exc is None and pred["tgt"] != req and kind == "push" and before_tip(op) == req):
                model.have_t |= gm.ancestry(req)
        model.have_t |= gm.ancestry(model.tips["tgt"])
        verify(str(op), faultkind, site)
        if exc is None and kind in ("pull", "push") and res is not None:
            new = res.new_revid.decode() if res.new_revid is not None else None
            if new != model.tips["tgt"]:
                sim.fail("result", ["result", faultkind, site], f"{op} reports new_revid {new}; the target tip is {model.tips['tgt']}")
        sim.probe(f"{kind}_{pred['rel']}")
        sim.state_seen((kind, site, refusal))

    def before_tip(op):
        return None

    def req_of(op):
        if op[0] in ("pull", "push"):
            r = op[2]["stop"] or model.tips[op[1]]
            return None if r == NULL else r
        if op[0] in ("set_lri", "genhist"):
            return op[1]
        return None

    nontrivial = False
    for op in plan["ops"]:
        kind = op[0]
        sim.event("op", kind, *[str(x)[:60] for x in op[1:]])
        if kind == "reopen":
            objs.clear()
            continue
        if kind == "append":
            get(op[1]).set_append_revisions_only(op[2])
            model.append[op[1]] = op[2]
            got = storesim.open_branch(urls[op[1]]).get_append_revisions_only()
            if bool(got) != op[2]:
                raise RuntimeError(f"append_revisions_only not stored: {got!r}")
            continue
        if kind == "bind":
            get("tgt").bind(get("master"))
            model.bound = True
            continue
        if kind == "unbind":
            get("tgt").unbind()
            model.bound = False
            continue
        if kind == "retip":
            if op[1] not in mh.revs:
                continue
            graphsim.point_branch(get("src"), gm, op[1])
            model.tips["src"] = op[1]
            continue
        # judged operations ---------------------------------------------------------
        if kind in ("pull", "push"):
            a = op[2]
            if a["stop"] and a["stop"] not in mh.revs:
                continue
        elif kind in ("set_lri", "genhist"):
            if op[1] not in mh.revs or (separate and op[1] not in model.have_t):
                continue
        elif kind == "uncommit":
            if not (1 <= op[1] <= len(gm.lefthand(model.tips["tgt"]))) or graphsim.ghost_mainline(mh, model.tips["tgt"]):
                continue  # uncommit walks the mainline down to the ghost: not defined
        if model.bound and req_of(op) is not None and graphsim.ghost_mainline(mh, req_of(op)):
            continue  # master and target could refuse independently: kept out of the bound law
        pred = model.predict(op)
        fault = op[2].get("fault") if kind in ("pull", "push") else None
        owtxt = "-" if kind not in ("pull", "push") else ("ow-history" if (op[2]["ow"] is True or (isinstance(op[2]["ow"], list) and "history" in op[2]["ow"])) else "no-ow")
        site = f"{kind}:{owtxt}:{pred['rel']}:{'bound' if model.bound else 'unbound'}:{'append' if model.append['tgt'] else 'free'}"
        if pred["rel"] not in ("empty-target", "descends-lh") or model.bound or model.append["tgt"] or fault:
            nontrivial = True
        before = dict(model.tips)
        if fault:
            seen = arm_at_last_revision(fault["which"], fault["err"])
            res, exc = perform(op)
            fired = bool(sim.faults_fired.get("err_before")) and seen["path"] is not None and seen["n"] >= fault["which"]
            fired = fired and any(f.get("done") for f in sim.faults)
            disarm()
            if fired:
                sim.probe("fault_at_last_revision")
                if exc is None:
                    sim.fail("fault_reported", ["fault_reported", "err_before", site], f"{op}: the put of {seen['path']} failed but the operation reported success [state: {state_text()}]")
                hit = "master" if "/master/" in seen["path"] else ("tgt" if "/tgt/" in seen["path"] else "src")
                # the branch whose put failed keeps its tip; a branch updated before it follows the law
                if hit == "tgt" and pred["master"] != before["master"] and not pred["refusal"]:
                    model.tips["master"] = pred["master"]
                if separate and kind in ("pull", "push"):
                    model.have_t |= gm.ancestry(op[2]["stop"] or before[op[1]])
                sim.event("faulted", hit, type(exc).__name__)
                verify(f"{op} under an error at the put of {seen['path']}", "err_before", site)
                # retry by fresh objects, fault-free, judged by the law from the current state
                objs.clear()
                for name in ("tgt", "master"):
                    try:
                        storesim.open_branch(urls[name]).break_lock()
                    except Exception:  # noqa: BLE001
                        pass
                pred = model.predict(op)
                res, exc = perform(op)
                judge(op, pred, res, exc, "err_before", site + ":retry")
                continue
            # the operation never wrote that last-revision: judge it as fault-free
            judge(op, pred, res, exc, "none", site)
            continue
        res, exc = perform(op)
        judge(op, pred, res, exc, "none", site)
    sim.nontrivial = nontrivial


# ------------------------------------------------------------------------------------
# shrinking


def shrink_candidates(plan):
    from simkit.shrink import generic_candidates

    yield from generic_candidates(plan)
    yield from graphsim.dag_shrinks(plan, tipmaps=("tips",))
    if plan.get("separate"):
        p = copy.deepcopy(plan)
        p["separate"] = False
        yield p
    for bname in sorted(plan.get("tags", {})):
        if plan["tags"][bname]:
            p = copy.deepcopy(plan)
            p["tags"][bname] = {}
            yield p
