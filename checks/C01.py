"""C01 — A commit records exactly the selected working-tree state.

World: a 2a branch + repository on a simulated memory store and a lightweight checkout of
it in a real directory (control files through the storage seam, `sim+file://`); or, in a
third of the runs, a heavyweight checkout (local branch + repository + tree in the
directory, all through the seam) BOUND to a master that lives alone on the memory store, so
that the fault points of the target commit also cover the upload to the master.  Half of
the runs use a namespace of look-alike sibling names ('a', 'ab', 'a-2/x', 'a/x': string
prefixes without a path boundary).  One run =
a seeded, model-generated sequence of treesim operations (user edits, add / mkdir / remove
/ rename / move / chmod / symlink / kind change / revert) interleaved with 1-5 commits,
each with a seeded choice of `specific_files` / `exclude` (changed and unchanged paths,
directories, occasionally an unversioned path that must be refused).

Every commit of the run is judged by the success oracle (fault-free): the new revision's
tree == the model's basis with the selected entries substituted (path, kind, bytes, exec
bit, link target, file id), parents == old tip, tip/revno advanced by one, the working
tree reports no change for a selected entry and exactly the model's remaining pending set.

The LAST commit is the fault target: a fault-free dry pass counts its storage operations
(reads and writes of branch, repository and the tree's control files); then the commit is
re-executed from the byte-identical pre-state (memory store rebuilt from a snapshot, the
checkout directory restored from a pristine copy) once per fault point k with an error
raised before operation k (quick: seeded sample of <= 10 points, thorough: all).  When the
commit raised: tip, revno and the set of listed revisions as read by fresh objects, the
tree's parents and its pending changes must equal the pre-state, and (after breaking
left-over locks) the same commit retried without fault must succeed and satisfy the
success oracle.  Violations whose signature is an open known finding are noted and the
enumeration goes on."""

import copy
import json
import os
import random
import shutil
import traceback

from simkit import findings, forkenum, world
from simkit.sim import Sim, SimCrash, Violation, derive_seed

from . import cosim, storesim
from . import treesim as T

PROPERTY = "C01"
LEVEL = "fault_enumeration"
# measured on this VM (load 18): one target execution is ~40 ms of work in-process but 0.6-2 s
# in a forked copy of the run child (copy-on-write page faults are serialised), a forked run
# another 0.3-1.8 s.  So by default runs execute in-process (every run rebuilds store, checkout,
# model and Sim) and every fault point starts from a pre-state RESTORED from snapshots (store
# contents re-put into a fresh memory store, checkout directory copied back).
# VERIF_C01_FORK=1: each point in a forked copy instead (forkenum); VERIF_C01_ISOLATION=fork:
# one forked child per run.
ISOLATION = os.environ.get("VERIF_C01_ISOLATION", "thread")
FORK_PER_POINT = os.environ.get("VERIF_C01_FORK") == "1"
STEP_CAP = 400000
RULE = (
    "one case = one execution of the target commit: (pre-state reached by a seeded operation sequence on top of 0-4 earlier commits, "
    "specific_files/exclude selection, storage operation index k at which an error is raised | fault-free); non-trivial = the tree had "
    "pending changes and (the injected error fired inside the commit | the fault-free commit was judged by the full success oracle); "
    "distinct = distinct event-log digests of such executions"
)
COMPONENTS = {
    "real": [
        "breezy.commit.Commit (selection, filter_excluded, _filter_iter_changes, _update_branches, abort path)",
        "breezy.bzr.vf_repository.VersionedFileCommitBuilder.record_iter_changes / finish_inventory / commit, 2a pack repository write group (bzrformats)",
        "breezy.bzr.workingtree_4 (dirstate iter_changes with path filter, update_basis_by_delta, unversion), breezy.mutabletree",
        "breezy.bzr.branch.BzrBranch.set_last_revision_info, LockDir locks of branch / repository / checkout",
        "lightweight checkout: working tree in a real /dev/shm directory, branch + repository on the memory store",
    ],
    "simulated": [
        "disk of branch/repository (SimTransport over dromedary memory transport) and of the checkout's control files (sim+file://)",
        "one storage operation failing before it is applied (TransportError / OSError ENOSPC / PermissionDenied / ConnectionError)",
        "one read of a user file by the commit builder (WorkingTree.get_file_with_stat) failing with NoSuchFile (the file vanished after iter_changes examined it)",
        "the user editing the tree (seeded treesim operations)",
        "process restart after a failed commit (fresh objects; left-over locks broken)",
        "clock of breezy.lockdir",
    ],
    "stub": ["UI (SilentUIFactory)", "user identity / BRZ_HOME (scratch)"],
}
ASSUMPTIONS = [
    "an entry is SELECTED when its basis path or its working path lies at/below a specific_files path (all entries when specific_files is None) and neither lies at/below an exclude path; the new revision is the basis inventory with the selected entries replaced by their working-tree state (parent id, name, kind, content, exec) and selected entries that are missing on disk removed (they are also unversioned in the tree)",
    "selections which need entries outside the selection (new / renamed parents that are not selected: treesim._selection_closed), or which enter a state listed in treesim.GUARDS (reported dirstate path-filter defects) are not generated and not judged: the model declines them and the commit is not executed",
    "selections whose literal application is not a tree that an inventory delta can express (an unselected entry left without parent, two entries on one name, a selected entry whose unselected parent was renamed, a directory deleted with an unselected child) may be refused (breezy raises InconsistentDelta from finish_inventory): such a commit is executed only as the target, fault-free, and judged only by 'a commit that raises changes nothing'; when breezy accepts it the recorded content is not judged (probe unappliable_selection_accepted)",
    "a specific_files path that is versioned in neither tree must be refused (PathsNotVersionedError) with nothing changed; exclude paths are not validated by breezy and unversioned exclude paths are simply ignored",
    "bound world: after a successful commit master tip == local tip == new revision and the master's repository holds the same tree; when commit raised, the local tip, the tree basis (== local tip), the pending changes and the master tip must be unchanged, except that a master which moved after ITS OWN tip write while the local branch stayed is the documented master-first order (C23) and is accepted; a local tip written before the master's is reported under its own phase key (tip-written-before-master); a revision left visible in the local or the master's repository by a committed write group is the recorded finding pack-names-done:revision-visible",
    "commits run with explicit rev_id / timestamp / committer, allow_pointless=True, no pending merges (selected-file commits of merges are refused by design)",
    "set-up operations are not judged here (C09 does); if the real tree and the model disagree before a commit (probe presync_mismatch) the run stops without verdict",
    "fault model: exactly one storage operation (read or write, of the branch, the repository or the checkout's control files) raises before being applied; dirstate and user files have no seam; NoSuchFile is not injected (breezy legitimately reads it as 'absent')",
    "reads of user files have no storage seam: the builder's get_file_with_stat is wrapped once per process and raises NoSuchFile at the armed call (quick: 2 sampled calls per target, thorough: all) without touching the disk; the commit must raise with nothing changed (and the retry must succeed), or succeed with the working tree's content - never record the basis content for a selected path",
    "after a failed commit a new process may have to break locks the failed one left (not judged here: C27); the retry runs after break_lock",
    "when the injected error is swallowed and commit returns normally, the success oracle applies",
    "every rewrite of a file changes its length; restoring the checkout from the pristine copy gives new inodes/ctimes, so the dirstate stat cache never vouches for a restored file wrongly",
    "runs execute in-process (ISOLATION=thread) and every fault point starts from a pre-state rebuilt from snapshots (fresh memory store with the same bytes, checkout directory copied back) with fresh breezy objects; VERIF_C01_FORK=1 forks every point (forkenum), VERIF_C01_ISOLATION=fork forks every run - measured 20-40x slower on this VM, same verdicts",
    "signatures of 'commit raised but something changed' are keyed by commit phase when the write group was already committed (pack-names-done / tip-written: the two anticipated, recorded findings) and by the exact failing operation before that (any hit there is new)",
]


def config(tier):
    if tier == "thorough":
        return {"budget_s": 700, "run_timeout": 180, "selftest": 12}
    return {"budget_s": 50, "run_timeout": 180, "selftest": 8}


COMMITTER = "Sim User <sim@example.com>"
ERRS = ["transport", "transport", "enospc", "permission", "connection"]
EDIT_WEIGHTS = {
    "write": 6,
    "mkdir": 2,
    "mkdir_disk": 1,
    "add": 4,
    "smart_add": 2,
    "remove": 2,
    "rename": 4,
    "move": 3,
    "chmod": 2,
    "symlink": 1,
    "kindchange": 1,
    "rm_disk": 1,
    "revert": 1,
    "reopen": 1,
}

# --------------------------------------------------------------------------------------
# model of a commit with specific_files and exclude (pure; on treesim.MTree)
# --------------------------------------------------------------------------------------


def selection(m, op):
    """(chosen by specific_files, finally selected) sets of file ids, or 'error'.
    Raises T.Unmodelled when the path filter runs into a guarded / unmodelled territory."""
    sel, exc = minimal(op.get("paths")), op.get("exclude") or []
    bids = m.basis_ids()
    wids = {e[0]: q for q, e in m.inv.items()}
    if sel is not None:
        for s in sel:
            if s not in m.inv and s not in m.basis:
                return "error"
        m._check_filter_paths(sel)
        chosen = {f for f in set(bids) | set(wids) if any((f in bids and T.inside(s, bids[f])) or (f in wids and T.inside(s, wids[f])) for s in sel)}
        m._selection_closed(chosen, bids, wids)
    else:
        chosen = set(bids) | set(wids)
    final = {f for f in chosen if not any((f in bids and T.inside(e, bids[f])) or (f in wids and T.inside(e, wids[f])) for e in exc)}
    return chosen, final


class Refusable(T.Unmodelled):
    """The literal application of the selection is not a tree breezy can write as an
    inventory delta (it carries paths): the commit may be refused; if it raises, nothing
    may have changed; if it goes through, its content is not judged."""


def minimal(paths):
    """osutils.minimum_path_selection: a path below another given path adds nothing (and is
    not checked for being versioned)."""
    if paths is None:
        return None
    return sorted(p for p in set(paths) if not any(T.strictly_inside(q, p) for q in paths))


def model_commit(m, op):
    """Apply the commit `op` to MTree `m` (bzr flavour).  'ok' | 'error'; raises Unmodelled."""
    if op.get("paths"):
        op = dict(op, paths=minimal(op["paths"]))
    if not op.get("exclude"):
        return m._op_commit(op)
    r = selection(m, op)
    if r == "error":
        return "error"
    _chosen, final = r
    bids = m.basis_ids()
    wids = {e[0]: q for q, e in m.inv.items()}
    ents = {}  # fid -> (parent fid, name, kind, data, exec)
    gone = []
    for fid in set(bids) | set(wids):
        if fid in final:
            if fid not in wids:
                continue  # removed from the tree: deleted
            q = wids[fid]
            ent = m._wt_entry(q)
            if ent is None:
                gone.append(q)
                continue
            pf = m.inv[T.parent(q)][0] if q else None
            ents[fid] = (pf, T.posixpath.basename(q), ent[1], ent[2], ent[3])
        elif fid in bids:
            q = bids[fid]
            e = m.basis[q]
            pf = m.basis[T.parent(q)][0] if q else None
            ents[fid] = (pf, T.posixpath.basename(q), e[1], e[2], e[3])
    # the literal result must be a tree
    roots = [f for f, e in ents.items() if e[0] is None]
    if len(roots) != 1 or ents[roots[0]][1] != "" or ents[roots[0]][2] != T.DIR:
        raise Refusable()
    names = set()
    for fid, e in ents.items():
        if e[0] is None:
            continue
        par = ents.get(e[0])
        if par is None or par[2] != T.DIR or (e[0], e[1]) in names:
            raise Refusable()
        names.add((e[0], e[1]))
    new = {}
    for fid in ents:
        parts, cur, seen = [], fid, set()
        while ents[cur][0] is not None:
            if cur in seen:
                raise Refusable()
            seen.add(cur)
            parts.append(ents[cur][1])
            cur = ents[cur][0]
        path = "/".join(reversed(parts))
        new[path] = (fid,) + ents[fid][2:]
    # a delta names entries by path: a selected entry must end up where the tree has it
    for q, e in new.items():
        if e[0] in final and wids.get(e[0]) != q:
            raise Refusable()
    # missing selected entries are unversioned by the commit, with whatever is below them;
    # below them everything must be gone as well
    for q in gone:
        for c in m.inv_below(q):
            if c not in gone:
                raise Refusable()
    for q in sorted(gone, key=len, reverse=True):
        m.inv.pop(q, None)
    for q, e in new.items():
        if e[0] in final and q in m.inv and m.inv[q][0] == e[0]:
            m.inv[q] = (e[0], e[1])
    m.basis = new
    m.revs.append((op["rev"], dict(new)))
    return "ok"


def classify_commit(m, op):
    try:
        c = m.copy()
        r = model_commit(c, op)
        if r == "ok" and c.guarded_state():
            return "skip"
        return r
    except Refusable:
        return "maybe"
    except T.Unmodelled:
        return "skip"


def classify(m, op):
    return classify_commit(m, op) if op["o"] == "commit" else m.classify(op)


def apply_model(m, op):
    if op["o"] == "commit":
        r = model_commit(m, op)
        if r != "ok":
            raise AssertionError(("apply of a non-ok commit", op, r))
    else:
        m.apply(op)


def changed_paths(m):
    out = set()
    for r in m.changes():
        for p in r[1:3]:
            if p:
                out.add(p)
    return out


# --------------------------------------------------------------------------------------
# generation
# --------------------------------------------------------------------------------------


def propose_commit(rng, g, m, full=False, bad=False, maybe=False):
    n = g.fresh()
    base = {"o": "commit", "paths": None, "exclude": None, "rev": "rev-%d" % n, "t": 1700000000 + n}
    if full:
        return base
    pool = sorted((set(m.versioned_paths()) | set(m.basis)) - {""})
    if bad:
        free = [p for p in g.names + ["zz", "a/zz"] if p not in m.inv and p not in m.basis]
        if free:
            op = dict(base, paths=sorted(set([rng.choice(free)] + (rng.sample(pool, 1) if pool and rng.random() < 0.5 else []))), bad=1)
            if classify_commit(m, op) == "error":
                return op
        return None
    if not pool:
        return base
    ch = sorted(changed_paths(m))
    dirs = sorted({a for p in ch for a in T.ancestors(p) if a})

    alike = lookalikes(m, pool)

    def pick(k):
        out = set()
        for _ in range(k):
            r = rng.random()
            if alike and r < 0.4:
                out.add(rng.choice(alike))
                continue
            src = ch if (ch and r < 0.65) else dirs if (dirs and r < 0.85) else pool
            out.add(rng.choice(src))
        return sorted(out)

    first_ok = None
    for _ in range(30 if maybe else 10):
        mode = rng.choice(["sel", "sel", "exc", "exc", "both", "both", "empty"])
        op = dict(base)
        if mode in ("sel", "both"):
            op["paths"] = pick(rng.randint(1, 3))
        if mode in ("exc", "both"):
            op["exclude"] = pick(rng.randint(1, 2))
            if rng.random() < 0.15:
                op["exclude"] = sorted(set(op["exclude"] + ["zz"]))
        if mode == "empty":
            if rng.random() < 0.7:
                continue
            op["paths"] = []
        c = classify_commit(m, op)
        if c == "ok" and not maybe:
            return op
        if c == "ok" and first_ok is None:
            first_ok = op
        if c == "maybe" and maybe:
            return dict(op, maybe=1)
    return first_ok or base


LOOKALIKE = ["a", "ab", "a-2", "a.b", "b", "ba", "c"]


def lookalike_namespace(rng):
    """4-7 paths of depth <= 3 whose sibling names share string prefixes without a "/"
    boundary ('a' vs 'ab' vs 'a-2/x' vs 'a/x'): selecting or excluding one of them must not
    catch the others."""
    want = rng.randint(4, 7)
    out = []
    tries = 0
    while len(out) < want and tries < 100:
        tries += 1
        parents = [""] + [p for p in out if p.count("/") < 2]
        par = rng.choice(parents)
        if out and rng.random() < 0.5:
            # a sibling that extends the name of an existing path
            base = rng.choice(out)
            par = T.parent(base)
            stem = T.posixpath.basename(base)
            cands = [n for n in LOOKALIKE if n != stem and n.startswith(stem)] or LOOKALIKE
            name = rng.choice(cands)
        else:
            name = rng.choice(LOOKALIKE)
        p = par + "/" + name if par else name
        if p not in out:
            out.append(p)
    return sorted(out)


def lookalikes(m, pool):
    """Paths of `pool` that are a strict string prefix of a changed path without being its
    ancestor (and the other way round): the interesting members of a selection."""
    ch = changed_paths(m)
    out = set()
    for p in pool:
        for q in ch:
            if p != q and not T.inside(p, q) and not T.inside(q, p) and (q.startswith(p) or p.startswith(q)):
                out.add(p)
    return sorted(out)


def generate(rng, tier):
    world_kind = rng.choice(["light", "light", "bound"])
    names = lookalike_namespace(rng) if rng.random() < 0.5 else T.make_namespace(rng)
    weights = {k: rng.choice([0, 1, 1, 2, 3]) * v if k not in ("write", "add") else rng.choice([1, 2, 3]) * v for k, v in EDIT_WEIGHTS.items()}
    pool = [k for k, w in sorted(weights.items()) for _ in range(int(w))]
    m = T.MTree("bzr")
    g = T.Gen(rng, m, names)
    ops = []

    def push(op):
        if op and classify(m, op) == "ok":
            apply_model(m, op)
            ops.append(op)
            return True
        return False

    def edits(n):
        done = tries = 0
        while done < n and tries < n * 30:
            tries += 1
            kind = rng.choice(pool)
            if not m.disk and kind not in ("write", "mkdir", "mkdir_disk", "symlink"):
                kind = rng.choice(["write", "write", "mkdir", "mkdir_disk"])
            if push(g.propose(kind)):
                done += 1

    nhist = rng.randint(0, 4)
    if rng.random() < 0.75:
        # grow a tree first, so that later operations meet directories with several children
        for kind in [rng.choice(["write", "write", "write", "mkdir", "mkdir_disk", "symlink"]) for _ in range(min(rng.randint(3, 7), len(names) + 1))]:
            push(g.propose(kind))
        push({"o": "smart_add", "p": "", "n": g.fresh()})
    for _h in range(nhist):
        edits(rng.randint(1, 5))
        push(propose_commit(rng, g, m, full=rng.random() < 0.5))
        if rng.random() < 0.12:
            bad = propose_commit(rng, g, m, bad=True)
            if bad:
                ops.append(bad)
    edits(rng.randint(2, 9))
    target = propose_commit(rng, g, m, full=rng.random() < 0.2, maybe=rng.random() < 0.15)
    if rng.random() < 0.04:
        target = propose_commit(rng, g, m, bad=True) or target
    if target.get("bad") or target.get("maybe"):
        ops.append(target)
    else:
        push(target)
    return {"world": world_kind, "names": names, "weights": weights, "ops": ops, "sample_seed": rng.randrange(1 << 30), "err": rng.choice(ERRS)}


# --------------------------------------------------------------------------------------
# world
# --------------------------------------------------------------------------------------

BRANCH = "br"


def _diff(exp, got):
    exp, got = set(exp), set(got)
    return "missing=%r unexpected=%r" % (sorted(exp - got, key=repr)[:6], sorted(got - exp, key=repr)[:6])


STORE = "c01"


def store_snapshot(url):
    from breezy.transport import get_transport
    from simkit import transport as simtransport

    return simtransport.snapshot(get_transport(url))


def store_restore(snap):
    """A fresh memory store with exactly the snapshot's contents (same URL)."""
    from breezy.transport import get_transport
    from simkit import transport as simtransport

    url = world.new_store(STORE)
    t = simtransport.raw(get_transport(url))
    for path in sorted(snap):
        if snap[path] is None:
            t.mkdir(path)
        else:
            t.put_bytes(path, snap[path])
    return url


mask_log = cosim.mask_log


MASTER = "master"


class Loc(str):
    """URL of the branch the tree commits to; `.master`: URL of the master it is bound to
    (None for the lightweight-checkout world); `.store`: URL of the memory store."""

    master = None
    store = None


def build_world(sim, kind="light"):
    root = os.path.join(os.environ["VERIF_SCRATCH"], "w", "t")
    mask_log(sim, root)
    url = world.new_store(STORE)
    if kind == "bound":
        # heavyweight checkout: local branch + repository + tree in the directory (through
        # sim+file://), bound to a master that lives alone on the memory store
        master = storesim.make_branch(url + MASTER, "2a")
        cosim.heavy_checkout(master, root)
        del master
        loc = Loc("sim+file://" + root)
        loc.master = url + MASTER
    else:
        b = storesim.make_branch(url + BRANCH, "2a")
        os.makedirs(root)
        wt = b.create_checkout("sim+file://" + root, lightweight=True)
        with wt.lock_write():
            wt.set_root_id(T.ROOT_ID)
        del wt, b
        loc = Loc(url + BRANCH)
    loc.store = url
    return loc, root


def do_commit(tree, op):
    return tree.commit(
        message="m %s" % op["rev"],
        rev_id=op["rev"].encode(),
        timestamp=op["t"],
        timezone=0,
        committer=COMMITTER,
        specific_files=op.get("paths"),
        exclude=op.get("exclude"),
        allow_pointless=True,
        reporter=T._quiet_reporter(),
    )


def _one_branch_state(url):
    b = storesim.open_branch(url)
    with b.lock_read():
        revno, tip = b.last_revision_info()
        revs = sorted(r.decode() for r in b.repository.all_revision_ids())
    return [revno, tip.decode(), revs]


def branch_state(burl):
    """[revno, tip, sorted listed revisions] read by fresh objects; for a bound branch
    followed by the same three values of the master."""
    storesim.clear_caches()
    out = _one_branch_state(burl)
    if getattr(burl, "master", None):
        out += _one_branch_state(burl.master)
    return out


def tree_pending(root):
    """(parents, normalised iter_changes against the basis) read by a fresh tree object."""
    t = T.open_tree(root, "bzr")
    with t.lock_read():
        parents = [p.decode() for p in t.get_parent_ids()]
        b = t.basis_tree()
        with b.lock_read():
            ch = T.normalise_changes(list(t.iter_changes(b)), "bzr")
    return parents, ch


def presync(sim, root, m):
    """Real tree == model before the commit under test?  (Set-up operations are C09's
    subject; a disagreement here ends the run without verdict.)"""
    try:
        t = T.open_tree(root, "bzr")
        snap = T.tree_snapshot(t)
        disk = T.disk_snapshot(root, "bzr")
        _parents, ch = tree_pending(root)
    except Exception as e:  # noqa: BLE001
        sim.probe("presync_raised_" + type(e).__name__)
        return False
    want = {}
    for p in m.versioned_paths():
        node = m.disk.get(p) if p else (T.DIR, None, False)
        want[p] = ((node[0], node[1], bool(node[2])) if node else (None, None, False)) + (m.inv[p][0],)
    got = {p: (k, d, bool(x), fid) for p, (k, d, x, fid) in snap.items()}
    if disk != m.disk or got != want or ch != m.changes():
        sim.probe("presync_mismatch")
        return False
    return True


def success_oracle(sim, burl, root, m_before, m_after, op, pre, site, fk="none"):
    """The commit `op` went through: compare everything with the model.  `pre` =
    branch_state before the commit."""
    pre = list(pre)

    def fail(tag, detail):
        sim.fail(tag, [tag, fk, site], "commit %s: %s" % (json.dumps({k: op.get(k) for k in ("rev", "paths", "exclude")}), detail))

    rev = op["rev"]
    revno, tip, revs = branch_state(burl)[:3]
    if (revno, tip) != (pre[0] + 1, rev):
        fail("tip_advanced", "branch is at (%r, %r); expected (%r, %r)" % (revno, tip, pre[0] + 1, rev))
    if revs != sorted(set(pre[2]) | {rev}):
        fail("revisions_listed", "listed revisions %s" % _diff(set(pre[2]) | {rev}, revs))
    if getattr(burl, "master", None):
        mrevno, mtip, mrevs = _one_branch_state(burl.master)
        if (mrevno, mtip) != (pre[3] + 1, rev):
            fail("master_tip_advanced", "the master is at (%r, %r); expected (%r, %r) like the local branch" % (mrevno, mtip, pre[3] + 1, rev))
        if rev not in mrevs:
            fail("master_has_revision", "the master's repository does not list %s" % rev)
        mb = storesim.open_branch(burl.master)
        with mb.lock_read():
            msnap = T.tree_snapshot(mb.repository.revision_tree(rev.encode()))
        if {p: (fid, k, d, bool(x)) for p, (k, d, x, fid) in msnap.items()} != m_after.basis:
            fail("recorded_tree", "revision tree in the master's repository differs from basis+selection")
    b = storesim.open_branch(burl)
    with b.lock_read():
        r = b.repository.get_revision(rev.encode())
        want_parents = [pre[1]] if pre[1] != "null:" else []
        if [p.decode() for p in r.parent_ids] != want_parents:
            fail("revision_parents", "%r != %r" % (r.parent_ids, want_parents))
        snap = T.tree_snapshot(b.repository.revision_tree(rev.encode()))
    got = {p: (fid, k, d, bool(x)) for p, (k, d, x, fid) in snap.items()}
    if got != m_after.basis:
        fail("recorded_tree", "revision tree differs from basis+selection: %s" % _diff(m_after.basis.items(), got.items()))
    parents, ch = tree_pending(root)
    if parents != [rev]:
        fail("tree_parents", "tree parents %r after the commit" % (parents,))
    want = m_after.changes()
    if ch != want:
        fail("pending_after", "iter_changes(basis) after the commit: %s" % _diff(want, ch))
    sel = selection(m_before, op)
    if sel != "error":
        wids = {e[0]: q for q, e in m_after.inv.items()}
        bids = m_after.basis_ids()
        selpaths = {wids[f] for f in sel[1] if f in wids} | {bids[f] for f in sel[1] if f in bids}
        left = [r for r in ch if r[0] == "v" and (r[1] in selpaths or r[2] in selpaths)]
        if left:
            fail("selected_still_pending", "selected entries still reported as changed: %r" % (left[:4],))
    t = T.open_tree(root, "bzr")
    with t.lock_read():
        vp = set(t.all_versioned_paths())
    if vp != m_after.versioned_paths():
        fail("versioned_after", "versioned paths of the tree after the commit: %s" % _diff(m_after.versioned_paths(), vp))
    if T.disk_snapshot(root, "bzr") != m_after.disk:
        fail("files_touched", "commit changed files of the working tree")


def unchanged_oracle(sim, burl, root, pre, pre_tree, op, site, fk, phase, raised):
    """The commit raised: nothing may have changed.  Returns "master-first" when the only
    change is the documented outcome of a bound commit interrupted after the master took the
    revision (the master is ahead, the local branch and the tree are untouched)."""
    what = "commit %s raised %s (%s)" % (json.dumps({k: op.get(k) for k in ("rev", "paths", "exclude")}), type(raised).__name__, str(raised)[:160])
    now = branch_state(burl)
    revno, tip, revs = now[:3]
    bound = len(now) > 3
    s = None
    detail = ""
    if (revno, tip) != (pre[0], pre[1]):
        s = "tip-moved" if tip in revs or tip == "null:" else "tip-dangling"
    elif bound and (now[3], now[4]) != (pre[3], pre[4]) and phase != "master-tip-written":
        # (a master that moved after ITS tip write, with the local branch untouched, is the
        # master-first order C23 states; anything else that moves the master is not)
        s = "master-tip-moved"
    elif revs != pre[2] or (bound and now[5] != pre[5] and (now[3], now[4]) == (pre[3], pre[4])):
        s = "revision-visible"
    if bound:
        detail = "; master at (%r, %r) [before: (%r, %r)] listing %s" % (now[3], now[4], pre[3], pre[4], _diff(pre[5], now[5]))
    if s:
        where = phase if phase != "before-pack-names" else site
        if where == "master-tip-written" and s == "revision-visible":
            where = "pack-names-done"  # same cause: a committed write group is never taken back
        if where == "master-pack-names-done":
            where = "pack-names-done"
        sim.fail(
            "raise_leaves_unchanged",
            ["raise_leaves_unchanged", fk, "%s:%s" % (where, s)],
            "%s at %s, yet the branch is at (%r, %r) [before: (%r, %r)] and the repository lists %s%s" % (what, site, revno, tip, pre[0], pre[1], _diff(pre[2], revs), detail),
        )
    try:
        parents, ch = tree_pending(root)
    except Exception as e:  # noqa: BLE001
        sim.fail("tree_readable_after_raise", ["tree_readable_after_raise", fk, site], "%s; reading the tree afterwards raised %s: %s" % (what, type(e).__name__, e))
    if parents != pre_tree[0]:
        sim.fail("raise_keeps_pending", ["raise_keeps_pending", fk, site + ":parents"], "%s; tree parents now %r, before %r" % (what, parents, pre_tree[0]))
    if ch != pre_tree[1]:
        sim.fail("raise_keeps_pending", ["raise_keeps_pending", fk, site + ":changes"], "%s; pending changes differ: %s" % (what, _diff(pre_tree[1], ch)))
    basis = parents[0] if parents else "null:"
    if basis != tip:
        sim.fail("raise_keeps_pending", ["raise_keeps_pending", fk, site + ":tree-basis-vs-tip"], "%s; the tree is based on %r but its branch is at %r" % (what, basis, tip))
    if bound and (now[3], now[4]) != (pre[3], pre[4]):
        sim.probe("master_first_outcome")
        return "master-first"
    return None


def break_locks(sim, burl, root):
    """What a user does after a crashed command: break-lock."""
    openers = [("branch", lambda: storesim.open_branch(burl)), ("tree", lambda: T.open_tree(root, "bzr"))]
    if getattr(burl, "master", None):
        openers.insert(0, ("master", lambda: storesim.open_branch(burl.master)))
    for what, opener in openers:
        try:
            opener().break_lock()
        except Exception as e:  # noqa: BLE001
            sim.probe("break_lock_%s_raised_%s" % (what, type(e).__name__))


class OpWatch:
    """Records the storage operations of the commit and which milestones were passed.
    Bound commits: the order must be local write group, master write group, master tip,
    local tip."""

    def __init__(self, sim, master_prefix=None):
        self.ops = []
        self.master_prefix = master_prefix
        self.pack_names_done = False
        self.master_pack_names_done = False
        self.master_tip_written = False
        self.tip_written = False
        self.tip_early = None
        sim.monitors.append(self)

    def __call__(self, sim, actor, phase, op, path, extra):
        on_master = self.master_prefix is not None and path.startswith(self.master_prefix)
        if phase == "before":
            self.ops.append([op, ("master:" if on_master else "") + storesim.path_class(path)])
        elif op == "put":
            if path.endswith("/repository/pack-names"):
                if on_master:
                    self.master_pack_names_done = True
                else:
                    self.pack_names_done = True
            elif path.endswith("/branch/last-revision"):
                if on_master:
                    self.master_tip_written = True
                else:
                    self.tip_written = True
                    if not self.pack_names_done:
                        self.tip_early = "tip-written-before-pack-names"
                    elif self.master_prefix is not None and not self.master_tip_written:
                        self.tip_early = "tip-written-before-master"

    def phase(self):
        if self.tip_early:
            return self.tip_early
        if self.tip_written:
            return "tip-written"
        if self.master_tip_written:
            return "master-tip-written"
        if self.master_pack_names_done:
            return "master-pack-names-done"
        return "pack-names-done" if self.pack_names_done else "before-pack-names"


def run_target(sim, plan, burl, root, m, op, cls, fault, label):
    """One execution of the target commit in this process (a forked copy of the run, or
    the warm-up).  Returns the sub-Sim and extra result fields."""
    sub = Sim(derive_seed(sim.seed, label), plan, step_cap=STEP_CAP)
    sub.disarm()
    mask_log(sub, root)
    extra = {}
    try:
        pre = branch_state(burl)
        pre_tree = tree_pending(root)
        pending = bool(pre_tree[1])
        tree = T.open_tree(root, "bzr")
        watch = OpWatch(sub, "/" + MASTER + "/" if getattr(burl, "master", None) else None)
        read_fault = fault if (fault and fault.get("kind") == "read_err") else None
        reads = {"calls": 0, "nth": read_fault["nth"] if read_fault else 0, "fired": False}
        sub.c01_read = reads  # consulted by the get_file_with_stat wrapper (see warm())
        sub.arm([fault] if (fault and not read_fault) else [])
        raised = None
        try:
            do_commit(tree, op)
        except (SimCrash, KeyboardInterrupt, SystemExit):
            raise
        except BaseException as e:  # noqa: B036 - Rust panics arrive as BaseException
            raised = e
        sub.c01_read = None
        nops = sub.main_actor.nops
        fired = bool(sub.faults_fired.get("err_before")) or reads["fired"]
        if reads["fired"]:
            sub.faults_fired["read_err"] += 1
        sub.disarm()
        sub.monitors.remove(watch)
        del tree
        extra.update(n=nops, ops=watch.ops, fired=fired, nreads=reads["calls"])
        fk = "read_err" if reads["fired"] else "err_before" if fired else "none"
        k = fault["at"] if (fault and not read_fault) else 0
        site = "get_file_with_stat" if reads["fired"] else "%s:%s" % tuple(watch.ops[k - 1]) if fired and 0 < k <= len(watch.ops) else "fault-free"
        extra["site"] = site
        phase = watch.phase()
        sub.event("commit", label, "raised:" + type(raised).__name__ if raised is not None else "ok", site, phase)
        sub.state_seen((cls, site, phase, type(raised).__name__ if raised else ""))
        m_after = m.copy()
        if cls == "ok":
            model_commit(m_after, op)
        if cls == "maybe":
            # a selection that cannot be applied literally: only "a commit that raises changes nothing"
            if raised is None:
                sub.probe("unappliable_selection_accepted")
            else:
                sub.probe("unappliable_selection_refused_" + type(raised).__name__)
                unchanged_oracle(sub, burl, root, pre, pre_tree, op, site, fk, phase, raised)
                sub.nontrivial = pending
        elif raised is None:
            if cls == "error":
                sub.fail("must_refuse", ["must_refuse", fk, site], "commit with specific_files %r (not versioned) succeeded" % (op.get("paths"),))
            if fired:
                sub.probe("fault_swallowed")
                sub.probe("swallowed_at_" + site)
            success_oracle(sub, burl, root, m, m_after, op, pre, site, fk)
            sub.nontrivial = pending and (fired or not fault)
        else:
            if not fired and cls == "ok":
                tb = "".join(traceback.format_exception(type(raised), raised, raised.__traceback__)[-6:])
                sub.fail("commit_raised", ["commit_raised", "none", type(raised).__name__], "commit %s raised without any fault: %r\n%s" % (json.dumps(op), raised, tb))
            if not fired and cls == "error":
                from breezy import errors

                if not isinstance(raised, errors.PathsNotVersionedError):
                    sub.fail("refusal_kind", ["refusal_kind", "none", type(raised).__name__], "commit %s was refused with %r" % (json.dumps(op), raised))
                sub.probe("refused")
            sub.probe("raised_in_" + phase)
            outcome = unchanged_oracle(sub, burl, root, pre, pre_tree, op, site, fk, phase, raised)
            sub.nontrivial = pending and fired
            if fired and cls == "ok" and outcome is None:
                # a new process retries
                sub.restart_main()
                break_locks(sub, burl, root)
                tree = T.open_tree(root, "bzr")
                try:
                    do_commit(tree, op)
                except (SimCrash, KeyboardInterrupt, SystemExit):
                    raise
                except BaseException as e:  # noqa: B036
                    tb = "".join(traceback.format_exception(type(e), e, e.__traceback__)[-6:])
                    sub.fail("retry_succeeds", ["retry_succeeds", fk, site + ":" + type(e).__name__], "after %s at %s the same commit, retried without fault, raised %r\n%s" % (type(raised).__name__, site, e, tb))
                del tree
                success_oracle(sub, burl, root, m, m_after, op, pre, site + ":retry", fk)
                sub.probe("retry_ok")
    except Violation:
        pass  # kept in sub.violation
    return sub, extra


def restore(w0, w):
    shutil.rmtree(w, ignore_errors=True)
    shutil.copytree(w0, w, symlinks=True)


# --------------------------------------------------------------------------------------
# the run
# --------------------------------------------------------------------------------------

_INPROC = [False]


def execute(sim, plan):
    warm()
    cosim.start_tracking()
    try:
        _execute(sim, plan)
    finally:
        cosim.dispose_repos()


def _execute(sim, plan):
    T.quiet()
    T.settle_randomness(sim.seed)
    sim.disarm()
    world.setup_sim(sim)
    base = os.environ["VERIF_SCRATCH"]
    burl, root = build_world(sim, plan.get("world", "light"))
    W, W0 = os.path.join(base, "w"), os.path.join(base, "w0")
    m = T.MTree("bzr")
    ops = plan["ops"]
    commits = [i for i, op in enumerate(ops) if op["o"] == "commit"]
    if not commits:
        return
    target = commits[-1]
    tree = T.open_tree(root, "bzr")
    for i, op in enumerate(ops[:target]):
        cls = classify(m, op)
        bad = bool(op.get("bad"))
        if cls == "skip" or (bad and cls != "error") or (not bad and cls != "ok"):
            sim.event("skip", i, op["o"])
            continue
        if op["o"] != "commit":
            try:
                tree = T.apply_op(tree, m, op)
            except Exception as e:  # noqa: BLE001 - set-up operations are not this check's subject
                sim.probe("setup_op_raised_%s_%s" % (op["o"], type(e).__name__))
                sim.event("setup-raised", i, op["o"], type(e).__name__)
                return
            m.apply(op)
            sim.event("op", i, json.dumps(op, sort_keys=True))
            continue
        # an earlier commit of the history: judged fault-free, in line
        del tree
        if not presync(sim, root, m):
            sim.event("presync-mismatch", i)
            return
        pre = branch_state(burl)
        pre_tree = tree_pending(root)
        tree = T.open_tree(root, "bzr")
        raised = None
        try:
            do_commit(tree, op)
        except Exception as e:  # noqa: BLE001
            raised = e
        del tree
        site = "history"
        if cls == "error":
            from breezy import errors

            if raised is None:
                sim.fail("must_refuse", ["must_refuse", "none", site], "commit with specific_files %r (not versioned) succeeded" % (op.get("paths"),))
            if not isinstance(raised, errors.PathsNotVersionedError):
                sim.fail("refusal_kind", ["refusal_kind", "none", type(raised).__name__], "commit %s was refused with %r" % (json.dumps(op), raised))
            unchanged_oracle(sim, burl, root, pre, pre_tree, op, site, "none", "before-pack-names", raised)
            sim.probe("refused")
        else:
            if raised is not None:
                tb = "".join(traceback.format_exception(type(raised), raised, raised.__traceback__)[-6:])
                sim.fail("commit_raised", ["commit_raised", "none", type(raised).__name__], "commit %s raised without any fault: %r\n%s" % (json.dumps(op), raised, tb))
            m_after = m.copy()
            model_commit(m_after, op)
            success_oracle(sim, burl, root, m, m_after, op, pre, site)
            m = m_after
            sim.probe("history_commit_" + ("partial" if (op.get("paths") is not None or op.get("exclude")) else "full"))
        sim.event("op", i, json.dumps(op, sort_keys=True), "judged")
        tree = T.open_tree(root, "bzr")
    del tree
    # ---- the target commit ------------------------------------------------------------
    op = ops[target]
    cls = classify_commit(m, op)
    bad = bool(op.get("bad"))
    if cls == "skip" or (bad and cls != "error") or (not bad and cls not in ("ok", "maybe")):
        sim.event("skip-target", op["o"])
        return
    if not presync(sim, root, m):
        sim.event("presync-mismatch", target)
        return
    sim.state_seen(m.digest())
    sim.probe("world_" + plan.get("world", "light"))
    sim.probe("target_" + ("refused" if bad else "unappliable" if cls == "maybe" else "full" if (op.get("paths") is None and not op.get("exclude")) else "partial"))
    if op.get("exclude"):
        sim.probe("target_with_exclude")
    shutil.copytree(W, W0, symlinks=True)
    snap = store_snapshot(burl.store)

    def point(fault, label):
        from simkit.sim import CTX

        restore(W0, W)
        store_restore(snap)

        def body():
            sub, extra = run_target(sim, plan, burl, root, m, op, cls, fault, label)
            return forkenum.sub_result(sub, extra)

        if FORK_PER_POINT and not _INPROC[0]:
            return forkenum.run_forked(body, timeout=150)
        saved = (CTX.sim, CTX.actor)
        try:
            res = body()
        except BaseException:  # noqa: B036 - same contract as run_forked
            res = {"_error": traceback.format_exc()[-4000:]}
        finally:
            CTX.sim, CTX.actor = saved
        return json.loads(json.dumps(res, default=repr))

    only = plan.get("only")
    known = findings.load(PROPERTY)
    if only is None or not only:
        dry = point(None, "dry")
        if "_error" in dry or "_timeout" in dry:
            raise RuntimeError("dry pass failed: %s" % (dry,))
        if dry["verdict"] != "ok":
            plan["only"] = []
        n = dry.get("n", 0)
        sim.event("dry", n, cls)
        forkenum.merge_sub(sim, dry, "dry")
        if only is not None or cls == "maybe":
            return
        ks = list(range(1, n + 1))
        # the builder's reads of user files (no storage seam): -j = the j-th read fails
        rks = [-j for j in range(1, dry.get("nreads", 0) + 1)]
        if getattr(sim, "tier", "quick") != "thorough":
            rr = random.Random(plan["sample_seed"])
            if n > 10:
                ks = sorted(rr.sample(ks, 10))
            if len(rks) > 2:
                rks = sorted(rr.sample(rks, 2), reverse=True)
        ks = ks + rks
    else:
        ks = list(only)
    bad_points = []
    for k in ks:
        fault = {"kind": "err_before", "at": k, "count": "any", "err": plan.get("err", "transport")}
        if k < 0:
            fault = {"kind": "read_err", "nth": -k}
        res = point(fault, "k%d" % k)
        if res.get("verdict") == "violation":
            if findings.match(known, res.get("signature")) is not None:
                kn = sim.notes.setdefault("known", [])
                if res["signature"] not in kn:
                    kn.append(res["signature"])
                sim.probe("known_finding_hit")
                res = dict(res, verdict="ok")
            else:
                bad_points.append((k, res))
                sim.event("sub", "k%d" % k, "violation", res["digest"])
                sim.notes["evaluations"] = sim.notes.get("evaluations", 0) + 1
                continue
        forkenum.merge_sub(sim, res, "k%d" % k)
    if bad_points:
        # unanticipated signatures first
        bad_points.sort(key=lambda kr: (kr[1]["signature"][-1] in ANTICIPATED, kr[0]))
        k, res = bad_points[0]
        plan["only"] = [k]
        sim.notes["sub_trace"] = res.get("trace_tail")
        sim.notes["violation_digest"] = res["digest"]
        sim.fail(res["oracle"], res["signature"], "[k=%d] %s" % (k, res["detail"]))


ANTICIPATED = {"pack-names-done:revision-visible", "tip-written:tip-moved"}


def shrink_candidates(plan):
    from simkit.shrink import generic_candidates

    ops = plan.get("ops", [])
    if plan.get("world") == "bound":
        p = copy.deepcopy(plan)
        p["world"] = "light"
        yield p
    commits = [i for i, op in enumerate(ops) if op["o"] == "commit"]
    # the target commit stays; everything else may go
    if commits:
        t = commits[-1]
        head = {"ops": ops[:t]}
        for cand in generic_candidates(head):
            p = copy.deepcopy(plan)
            p["ops"] = cand["ops"] + ops[t:]
            yield p
        if t > 0:
            p = copy.deepcopy(plan)
            p["ops"] = ops[t:]
            yield p
        for i in commits:
            for key in ("paths", "exclude"):
                v = ops[i].get(key)
                if v:
                    for j in range(len(v)):
                        p = copy.deepcopy(plan)
                        p["ops"][i][key] = (v[:j] + v[j + 1 :]) or None
                        yield p
    else:
        yield from generic_candidates(plan)


# --------------------------------------------------------------------------------------
# warm-up
# --------------------------------------------------------------------------------------

WARM_OPS = [
    {"o": "write", "p": "a", "n": 1},
    {"o": "mkdir", "p": "d", "id": "d2"},
    {"o": "write", "p": "d/f", "n": 3},
    {"o": "smart_add", "p": "", "n": 4},
    {"o": "symlink", "p": "l", "n": 5},
    {"o": "add", "p": "l", "id": "f6"},
    {"o": "commit", "paths": None, "exclude": None, "rev": "rev-7", "t": 1700000007},
    {"o": "chmod", "p": "a", "x": True},
    {"o": "write", "p": "d/f", "n": 8},
    {"o": "write", "p": "d/g", "n": 9},
    {"o": "add", "p": "d/g", "id": "f10"},
    {"o": "commit", "paths": ["d"], "exclude": ["d/g"], "rev": "rev-11", "t": 1700000011},
    {"o": "commit", "paths": ["zz"], "exclude": None, "rev": "rev-12", "t": 1700000012, "bad": 1},
    {"o": "rename", "p": "a", "to": "b"},
    {"o": "remove", "p": "l", "keep": False, "force": True},
    {"o": "revert", "paths": ["l"]},
    {"o": "commit", "paths": None, "exclude": ["l"], "rev": "rev-13", "t": 1700000013},
]

_warmed = []
_read_hook = []


def install_read_hook():
    """Once per process: WorkingTree.get_file_with_stat (the commit builder's read of a user
    file) counts its calls for the simulation that owns the thread and raises NoSuchFile at
    the armed one (the file 'vanished' between iter_changes and the read; the disk is left
    alone so that the retry meets the modelled tree)."""
    if _read_hook:
        return
    _read_hook.append(1)
    from breezy import transport as _mod_transport
    from breezy import workingtree
    from simkit.sim import CTX

    orig = workingtree.WorkingTree.get_file_with_stat

    def get_file_with_stat(self, path, *a, **kw):
        st = getattr(getattr(CTX, "sim", None), "c01_read", None)
        if st is not None:
            st["calls"] += 1
            if st["calls"] == st["nth"]:
                st["fired"] = True
                raise _mod_transport.NoSuchFile(path)
        return orig(self, path, *a, **kw)

    workingtree.WorkingTree.get_file_with_stat = get_file_with_stat


def warm():
    storesim.warm()
    T.quiet()
    cosim.install_repo_tracker()
    install_read_hook()
    if _warmed:
        return
    _warmed.append(1)
    import tempfile

    import breezy.bzr.workingtree_4  # noqa: F401
    import breezy.commit  # noqa: F401
    import breezy.transform  # noqa: F401

    saved = {k: os.environ.get(k) for k in ("VERIF_SCRATCH", "BRZ_HOME", "HOME")}
    tmp = tempfile.mkdtemp(prefix="verif-warm-", dir="/dev/shm")
    _INPROC[0] = True
    try:
        for j, (kind, only) in enumerate((("light", None), ("light", [3]), ("light", [-1]), ("light", [40]), ("light", [60]), ("bound", None), ("bound", [70]), ("bound", [120]), ("bound", [150]))):
            sc = os.path.join(tmp, "s%d" % j)
            os.makedirs(os.path.join(sc, "home"))
            os.environ.update(VERIF_SCRATCH=sc, BRZ_HOME=os.path.join(sc, "home"), HOME=os.path.join(sc, "home"))
            plan = {"world": kind, "ops": copy.deepcopy(WARM_OPS), "sample_seed": 1, "err": "transport"}
            if only:
                plan["only"] = only
            sim = Sim(1, plan, step_cap=10**6)
            sim.tier = "quick"
            try:
                execute(sim, plan)
            except Exception:  # noqa: BLE001 - a dry run; real runs report
                pass
    finally:
        _INPROC[0] = False
        for k, v in saved.items():
            if v is None:
                os.environ.pop(k, None)
            else:
                os.environ[k] = v
        shutil.rmtree(tmp, ignore_errors=True)
        world.reset_stores()
