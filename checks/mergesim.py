"""mergesim — shared pieces of the merge / conflict checks (C12, C17, C19, C20).

Real: breezy.merge (Merger, Merge3Merger, WeaveMerger, LCAMerger), the tree transforms that
apply a merge, breezy.bzr.conflicts / breezy.conflicts (records, resolve), working trees on a
real directory below VERIF_SCRATCH (bzr control files through the storage seam), sibling
branches made with ControlDir.sprout.  The reference for text merges is the `merge3`
package (the dependency, not breezy).

Nothing here keeps state between runs (checks run in-process, ISOLATION="thread")."""

import os
import shutil

from simkit import world

from . import treesim as T

COMMITTER = "Sim User <sim@example.com>"
T0 = 1_700_000_000

_warmed = []


def base_warm():
    """Imports and quietening shared by every merge check (idempotent)."""
    world.quiet_breezy()
    T.quiet()
    if _warmed:
        return False
    _warmed.append(1)
    import merge3  # noqa: F401
    import patiencediff  # noqa: F401

    import breezy.bzr.conflicts  # noqa: F401
    import breezy.bzr.workingtree_4  # noqa: F401
    import breezy.commit  # noqa: F401
    import breezy.conflicts  # noqa: F401
    import breezy.git.workingtree  # noqa: F401
    import breezy.merge  # noqa: F401
    import breezy.switch  # noqa: F401
    import breezy.transform  # noqa: F401
    import breezy.uncommit  # noqa: F401

    from . import storesim

    storesim.install_pins()  # autopack ties / index objects ordered by name, not by address
    return True


def dry_runs(execute, plans):
    """Execute `plans` once in a throw-away scratch directory (pre-fork warm-up: every lazily
    imported module is loaded).  Failures are ignored: real runs report."""
    import tempfile

    from simkit.sim import Sim

    saved = {k: os.environ.get(k) for k in ("VERIF_SCRATCH", "BRZ_HOME", "HOME")}
    tmp = tempfile.mkdtemp(prefix="verif-warm-", dir="/dev/shm")
    try:
        for i, plan in enumerate(plans):
            sc = os.path.join(tmp, "p%d" % i)
            os.makedirs(os.path.join(sc, "home"))
            os.environ.update(VERIF_SCRATCH=sc, BRZ_HOME=os.path.join(sc, "home"), HOME=os.path.join(sc, "home"))
            sim = Sim(1, plan, step_cap=10**6)
            try:
                execute(sim, plan)
            except Exception:  # noqa: BLE001 - a dry run
                if os.environ.get("VERIF_WARM_DEBUG"):
                    import traceback

                    traceback.print_exc()
    finally:
        for k, v in saved.items():
            if v is None:
                os.environ.pop(k, None)
            else:
                os.environ[k] = v
        shutil.rmtree(tmp, ignore_errors=True)
    import gc

    gc.collect()
    gc.freeze()


def begin(sim):
    """Per-run set-up: seam, clock, event-log masking.  Returns the scratch directory."""
    T.quiet()
    T.settle_randomness(sim.seed)
    world.setup_sim(sim)
    scratch = os.environ["VERIF_SCRATCH"]
    T.relativise_log(sim, os.path.join(scratch, "t"))
    return scratch


def end_of_run():
    import gc

    gc.collect()
    gc.freeze()


def commit(tree, rev, t, message=None):
    kw = {"rev_id": rev.encode()} if tree._sim_flavour == "bzr" else {}
    return tree.commit(
        message=message or "m %s" % rev,
        timestamp=T0 + t,
        timezone=0,
        committer=COMMITTER,
        allow_pointless=True,
        reporter=T._quiet_reporter(),
        **kw,
    )


def sprout(tree, name, revision_id=None):
    """A sibling branch + working tree of `tree` in <scratch>/<name> (own repository)."""
    root = os.path.join(os.environ["VERIF_SCRATCH"], name)
    tree.branch.controldir.sprout(root, revision_id=revision_id)
    return T.open_tree(root, tree._sim_flavour)


def write_file(root, path, data):
    full = os.path.join(root, path)
    with open(full, "wb") as f:
        f.write(data)


def read_file(root, path):
    with open(os.path.join(root, path), "rb") as f:
        return f.read()


MERGE_TYPES = {"merge3": "Merge3Merger", "weave": "WeaveMerger", "lca": "LCAMerger"}


def merge_type(name):
    from breezy import merge

    return getattr(merge, MERGE_TYPES[name])


def do_merge(tree, other_rev, other_branch, mtype="merge3", base_rev=None, reprocess=False, show_base=False, pending=True, info=None):
    """What `brz merge` does with the library API: Merger.from_revision_ids + do_merge (+
    set_pending) under the tree's write lock.  Returns the list of cooked conflicts.
    `info` (dict) receives cherrypick / criss-cross facts of the Merger."""
    from breezy.merge import Merger

    with tree.lock_write():
        m = Merger.from_revision_ids(tree, other_rev, base=base_rev, other_branch=other_branch)
        m.merge_type = merge_type(mtype)
        m.reprocess = reprocess
        m.show_base = show_base
        if info is not None:
            info["criss_cross"] = bool(m._is_criss_cross)
            info["base"] = m.base_rev_id
            info["cherrypick"] = (not m.base_is_ancestor) or (not m.base_is_other_ancestor)
        conflicts = m.do_merge()
        if pending:
            m.set_pending()
    return conflicts


# -- reference text merge -------------------------------------------------------------------


def split_lines(data):
    return data.splitlines(True) if data else []


def ref_merge3(base, this, other, cherrypick=False, reprocess=False, show_base=False):
    """(merged bytes, has_conflict) according to the merge3 package, called with the names /
    markers breezy.merge.Merge3Merger.text_merge passes (default start marker)."""
    import merge3
    import patiencediff

    if not base and not this and not other:
        return b"", False  # (merge3 cannot tell bytes from str without a single line)
    m3 = merge3.Merge3(split_lines(base), split_lines(this), split_lines(other), is_cherrypick=cherrypick, sequence_matcher=patiencediff.PatienceSequenceMatcher)
    regions = m3.merge_regions()
    if reprocess:
        regions = m3.reprocess_merge_regions(regions)
    has_conflict = any(r[0] == "conflict" for r in regions)
    lines = m3.merge_lines(
        name_a=b"TREE",
        name_b=b"MERGE-SOURCE",
        name_base=b"BASE-REVISION",
        base_marker=b"|" * 7 if show_base else None,
        reprocess=reprocess,
    )
    return b"".join(lines), has_conflict


# -- conflict records ----------------------------------------------------------------------


def conflict_tuple(c):
    """Everything a conflict record says, as plain data."""
    return (
        c.typestring,
        c.path,
        getattr(c, "conflict_path", None),
        getattr(c, "file_id", None),
        getattr(c, "conflict_file_id", None),
        getattr(c, "action", None),
    )


def conflict_tuples(tree):
    return [conflict_tuple(c) for c in tree.conflicts()]


# -- reported defects -----------------------------------------------------------------------


def lifted_guards(prop, guards):
    """Guards (names of reported defects a check's generator stays away from) that have an
    open entry [prop, "known-defect", guard] in known_findings.json: a share of the runs lifts
    them so that the finding keeps being reproduced as KNOWN-FINDING."""
    from simkit import findings

    out = set()
    for e in findings.load(prop):
        s = e.get("signature") or []
        if e.get("status") == "open" and len(s) >= 3 and s[0] == prop and s[1] == "known-defect" and s[2] in guards:
            out.add(s[2])
    return sorted(out)
